package c06

// Interleaved (re)opening of a consumer group.
//
// FanOutQueue.GetOrCreateConsumerGroup of a group that is not open builds the page factory of the
// group's meta page, maps the page, reads the persisted positions, reads the queue-wide
// acknowledged position and lifts the group's positions to it (the documented re-open rule: "if
// queue ack > consume group ack, need reset use queue ack"), stores both positions and finally
// lists the group. Production calls it from partition.buildReplica (write stream handler, under
// the partition mutex), partition.IsExpire (WAL expiry task) and partition.getReplicaState (state
// reporting), next to the appender (WriteLog/ReplicaLog), the replica loops (Consume), the flush /
// follower callbacks (Ack) and the expiry task (Sync, GC, StopConsumerGroup of an empty group) -
// all on goroutines of their own. The steps of this file make the (re)opening an interleavable
// operation with harness-owned schedules:
//
//	in-create       the opening runs first; at one of its own steps on the group's page factory /
//	                meta page (factory construction, page acquisition, the two reads of the persisted
//	                positions, the two stores that follow the read of the queue ack) a sequence of
//	                1..3 operations of other roles (Sync, Sync+GC, Ack / Consume of another group,
//	                Put, StopConsumerGroup of another empty group, GetOrCreateConsumerGroup of the
//	                same name by another caller) is started on a second goroutine;
//	append-held     an append is stopped at its store into the queue's meta page, where it holds the
//	                queue's lock; the ticker's Sync(+GC) is started on a second goroutine (it parks at
//	                its first read of a queue position, AppendedSeq, with whatever it holds then), the
//	                opening on a third one (it parks at the map lock if the ticker holds it, else at its
//	                read of the queue ack), then the append continues and releases both at once: a
//	                barrier-released real race of Sync against the opening, both at their reads of the
//	                queue positions (its outcome on a tree that does not serialise them is up to the
//	                scheduler; the oracle does not care);
//	create-in-sync  the ticker's Sync is stopped at its store into the queue's meta page and the
//	                opening is started on a second goroutine.
//
// A started goroutine is waited for until it has completed ("ran-inside") or is parked on a lock
// ("blocked": the implementation serialises the two operations at that point; runNested of
// pair_test.go), then the stopped operation continues and everything is joined. The unchanged tree
// holds the fan-out queue's map lock over the whole opening, so Sync / Stop / a second
// GetOrCreate are counted as serialised there; Ack, Consume and Put of other roles run inside.
//
// Oracle (none of it depends on which interleaving happened):
//   - invariants from the statement: the opened group has acknowledged <= consumed <= appended;
//     a group loaded from its meta page comes back at least at its persisted positions and never
//     below the queue-wide acknowledged position as it is after both sides finished (either the
//     group existed when the queue ack moved, then "never beyond the smallest acknowledged
//     position of the groups existing at that moment", or it did not, then the re-open rule
//     applies to the new queue ack); a brand-new group starts at -1/-1 or at the queue ack (FA of
//     DESIGN 4/C06: it may be below the barrier); two callers get the same object;
//   - the operations are atomic in the statement: what is observable afterwards (appended, queue
//     ack, listed groups with their positions, sequences handed out) must equal the result of one
//     of the merges of the concurrently running sequences on the reference model;
//   - a group re-opened from its meta page that has something to consume is handed consumed+1 and
//     that message is readable byte for byte (it exists and has not acknowledged it);
//   - afterwards the checks of the machine (every sequence above the queue ack readable, queue ack
//     <= every ack of the listed groups other than a brand-new one, ...), and a drawn third of the
//     steps is followed by a reopen that compares every persisted position with the model.
//
// A stopped group does not protect its messages (it does not exist): when the others moved on and a
// Sync ran before the re-opening, the group legitimately comes back at the queue ack.

import (
	"fmt"
	"os"
	"sort"
	"strings"
	"sync"
	"testing"
	"time"

	"pgregory.net/rapid"

	"github.com/lindb/lindb/pkg/queue"
	"github.com/lindb/lindb/verifharness/sim/ev"
)

// ---- seam: the steps of an opening on the group's page factory and meta page -------------------

// createInjector runs a callback on the goroutine that performs the named step ("factory",
// "acquire", "read0", "read1", "put0", "put1", ...) on the pages of directory `key`. One shot; the
// steps seen while armed are kept as a trace.
type createInjector struct {
	mu     sync.Mutex
	armed  bool
	key    string
	point  string
	counts map[string]int
	trace  []string
	fired  bool
	run    func()
}

var cinj = &createInjector{}

func (c *createInjector) arm(key, point string, run func()) {
	c.mu.Lock()
	c.armed, c.key, c.point, c.counts, c.trace, c.fired, c.run = true, key, point, map[string]int{}, nil, false, run
	c.mu.Unlock()
}

func (c *createInjector) disarm() (bool, []string) {
	c.mu.Lock()
	defer c.mu.Unlock()
	c.armed, c.run = false, nil
	return c.fired, c.trace
}

func (c *createInjector) hit(key, kind string) {
	c.mu.Lock()
	if !c.armed || key != c.key {
		c.mu.Unlock()
		return
	}
	p := kind
	if kind == "read" || kind == "put" {
		p = fmt.Sprintf("%s%d", kind, c.counts[kind])
	}
	c.counts[kind]++
	c.trace = append(c.trace, p)
	if c.fired || p != c.point {
		c.mu.Unlock()
		return
	}
	c.fired = true
	run := c.run
	c.mu.Unlock()
	run()
}

// ---- reference model of a step -------------------------------------------------------------------

type gpos struct {
	consumed, ack int64
	open          bool
}

// snap is the model state a create step can change: every persisted group (open or stopped).
type snap struct {
	appended, qack int64
	g              map[string]gpos
	handed         map[string]string // group -> sequences handed out by the Consume calls of the step
}

func (s snap) clone() snap {
	c := snap{appended: s.appended, qack: s.qack, g: make(map[string]gpos, len(s.g)), handed: make(map[string]string, len(s.handed))}
	for k, v := range s.g {
		c.g[k] = v
	}
	for k, v := range s.handed {
		c.handed[k] = v
	}
	return c
}

// view renders what an observer can see: appended, queue ack, the listed groups with their
// positions, the sequences handed out.
func (s snap) view() string {
	var names []string
	for n, p := range s.g {
		if p.open {
			names = append(names, n)
		}
	}
	sort.Strings(names)
	var sb strings.Builder
	fmt.Fprintf(&sb, "appended=%d queueAck=%d", s.appended, s.qack)
	for _, n := range names {
		fmt.Fprintf(&sb, " %s{consumed=%d ack=%d}", n, s.g[n].consumed, s.g[n].ack)
	}
	var hs []string
	for n := range s.handed {
		hs = append(hs, n)
	}
	sort.Strings(hs)
	for _, n := range hs {
		fmt.Fprintf(&sb, " handed[%s]=%s", n, strings.TrimSpace(s.handed[n]))
	}
	return sb.String()
}

func (w *world) snapshot() snap {
	s := snap{appended: w.appended, qack: w.qack, g: map[string]gpos{}, handed: map[string]string{}}
	for n, g := range w.groups {
		s.g[n] = gpos{consumed: g.consumed, ack: g.ack, open: g.open}
	}
	return s
}

// applySync is FanOutQueue.Sync on the model: the smallest acknowledged position of the listed
// groups, not beyond the appended position, forward only, nothing without a group.
func applySync(s *snap) {
	cand, n := s.appended, 0
	for _, p := range s.g {
		if !p.open {
			continue
		}
		n++
		if p.ack < cand {
			cand = p.ack
		}
	}
	if n > 0 && cand >= 0 && cand > s.qack {
		s.qack = cand
	}
}

// cop is one operation of a create step.
type cop struct {
	kind  string
	name  string
	apply func(*snap)
	run   func()
}

func opNames(ops []cop) string {
	var ns []string
	for _, o := range ops {
		ns = append(ns, o.name)
	}
	return strings.Join(ns, "; ")
}

// merges returns every merge of the sequences (the order inside a sequence is kept).
func merges(seqs [][]cop) [][]cop {
	total := 0
	for _, s := range seqs {
		total += len(s)
	}
	idx := make([]int, len(seqs))
	var out [][]cop
	var rec func(cur []cop)
	rec = func(cur []cop) {
		if len(cur) == total {
			out = append(out, append([]cop(nil), cur...))
			return
		}
		for i := range seqs {
			if idx[i] < len(seqs[i]) {
				op := seqs[i][idx[i]]
				idx[i]++
				rec(append(cur[:len(cur):len(cur)], op))
				idx[i]--
			}
		}
	}
	rec(nil)
	return out
}

// cstep is the context of one create step.
type cstep struct {
	w           *world
	name        string // the group that is (re)opened
	fresh       bool   // no meta page on disk
	freshAtQAck bool   // the implementation starts a brand-new group at the queue ack (interface comment) instead of -1
	h, h2       queue.ConsumerGroup
	err, err2   error
	sameCaller  bool
	puts        []msg
	putErr      error
	handed      map[string][]int64
	hasSync     bool
}

func (c *cstep) applyCreate(s *snap) {
	p, ok := s.g[c.name]
	switch {
	case ok && p.open:
		return
	case ok:
		// positions survive; "if queue ack > consume group ack, need reset use queue ack"; ack <= consumed
		if p.ack < s.qack {
			p.ack = s.qack
		}
		if p.consumed < p.ack {
			p.consumed = p.ack
		}
		p.open = true
	default:
		p = gpos{consumed: -1, ack: -1, open: true}
		if c.freshAtQAck {
			p.consumed, p.ack = s.qack, s.qack
		}
	}
	s.g[c.name] = p
}

func (c *cstep) opCreate() cop {
	what := "re-open stopped group " + c.name
	if c.fresh {
		what = "create group " + c.name
	}
	return cop{kind: "create", name: what,
		apply: c.applyCreate,
		run:   func() { c.h, c.err = c.w.fq.GetOrCreateConsumerGroup(c.name) }}
}

func (c *cstep) opTick(gc bool) cop {
	c.hasSync = true
	w := c.w
	if gc {
		return cop{kind: "tick", name: "sync+gc", apply: applySync, run: func() { w.fq.Sync(); w.fq.Queue().GC() }}
	}
	return cop{kind: "sync", name: "sync", apply: applySync, run: func() { w.fq.Sync() }}
}

// drawOp draws one operation of another role. proj is the model after the operations drawn so far
// for the same goroutine (without the opening, which changes nothing those operations depend on).
func (c *cstep) drawOp(proj *snap, first bool, label string, kinds []string) cop {
	w := c.w
	kind := rapid.SampledFrom(kinds).Draw(w.t, label+"Kind")
	others := func(pred func(string, gpos) bool) []string {
		var ns []string
		for _, n := range w.universe {
			p, ok := proj.g[n]
			if ok && p.open && n != c.name && w.groups[n] != nil && w.groups[n].h != nil && pred(n, p) {
				ns = append(ns, n)
			}
		}
		return ns
	}
	switch kind {
	case "ackOther":
		os := others(func(_ string, p gpos) bool { return p.ack <= p.consumed })
		if len(os) == 0 {
			break
		}
		o := os[rapid.IntRange(0, len(os)-1).Draw(w.t, label+"Group")]
		p := proj.g[o]
		var k int64
		switch v := rapid.IntRange(0, 9).Draw(w.t, label+"AckKind"); {
		case v <= 5:
			k = p.consumed
		case v <= 7:
			k = rapid.Int64Range(p.ack, p.consumed).Draw(w.t, label+"AckSeq")
		case v == 8 && p.ack > -1:
			k = rapid.Int64Range(-1, p.ack-1).Draw(w.t, label+"AckSeq")
		default:
			k = proj.appended + int64(rapid.IntRange(1, 4).Draw(w.t, label+"AckBeyond"))
		}
		h := w.groups[o].h
		return cop{kind: kind, name: fmt.Sprintf("ack %s %d", o, k),
			apply: func(s *snap) {
				if p := s.g[o]; p.ack <= k && k <= p.consumed {
					p.ack = k
					s.g[o] = p
				}
			},
			run: func() { h.Ack(k) }}
	case "consumeOther":
		os := others(func(n string, p gpos) bool { return !w.groups[n].paused && p.consumed < proj.appended })
		if len(os) == 0 {
			break
		}
		o := os[rapid.IntRange(0, len(os)-1).Draw(w.t, label+"Group")]
		h := w.groups[o].h
		return cop{kind: kind, name: "consume " + o,
			apply: func(s *snap) {
				p := s.g[o]
				if p.consumed < s.appended {
					p.consumed++
					s.g[o] = p
					s.handed[o] += fmt.Sprintf(" %d", p.consumed)
				} else {
					s.handed[o] += " none" // not generated: the consumer would wait
				}
			},
			run: func() { c.handed[o] = append(c.handed[o], h.Consume()) }}
	case "put":
		m := w.newMsg(w.genSize())
		c.puts = append(c.puts, m)
		data := m.bytes()
		return cop{kind: kind, name: "append " + m.String(),
			apply: func(s *snap) { s.appended++ },
			run: func() {
				if err := w.fq.Queue().Put(data); err != nil && c.putErr == nil {
					c.putErr = err
				}
			}}
	case "stopOther":
		// partition.IsExpire stops a group that IsEmpty (everything appended is acknowledged)
		if !first {
			break
		}
		os := others(func(_ string, p gpos) bool { return p.ack >= proj.appended && p.ack <= p.consumed })
		if len(os) == 0 {
			break
		}
		o := os[rapid.IntRange(0, len(os)-1).Draw(w.t, label+"Group")]
		return cop{kind: kind, name: "stopGroup " + o,
			apply: func(s *snap) {
				p := s.g[o]
				p.open = false
				s.g[o] = p
			},
			run: func() { w.fq.StopConsumerGroup(o) }}
	case "getSame":
		// a second caller asks for the same name (getReplicaState / IsExpire next to buildReplica)
		if c.sameCaller {
			break
		}
		c.sameCaller = true
		return cop{kind: kind, name: "second caller opens " + c.name,
			apply: c.applyCreate,
			run:   func() { c.h2, c.err2 = w.fq.GetOrCreateConsumerGroup(c.name) }}
	case "sync":
		return c.opTick(false)
	}
	return c.opTick(true)
}

// ---- preparation: a group that lags behind the others and is not open ----------------------------

// createTarget chooses the group to (re)open. With prepareLag it first brings the queue into the
// situation the re-open rule exists for, using ordinary operations of the machine: a group is
// drained and stopped (partition.IsExpire), writes continue, the other replicas consume and
// acknowledge them. Skips only before anything was changed.
func (w *world) createTarget(prepareLag bool) (name string, fresh bool) {
	var stopped, unused []string
	for _, n := range w.universe {
		if g, ok := w.groups[n]; !ok {
			unused = append(unused, n)
		} else if !g.open {
			stopped = append(stopped, n)
		}
	}
	if prepareLag && len(stopped) == 0 {
		var cands []*grp
		if gs := w.openGroups(); len(gs) >= 2 {
			for _, g := range gs {
				if !g.paused && !w.tooFar(g) {
					cands = append(cands, g)
				}
			}
		}
		if len(cands) == 0 {
			prepareLag = false
		} else {
			g := cands[rapid.IntRange(0, len(cands)-1).Draw(w.t, "lagVictim")]
			for g.consumed < w.appended {
				w.consumeOnce(g, false)
			}
			if g.ack < g.consumed {
				w.ack(g, g.consumed, "drain")
			}
			w.fq.StopConsumerGroup(g.name)
			g.open, g.h, g.paused = false, nil, false
			w.class("create-pair-prepared-stop")
			w.logf("stopGroup %s (consumed=%d ack=%d)", g.name, g.consumed, g.ack)
			stopped = append(stopped, g.name)
		}
	}
	if prepareLag {
		name = stopped[rapid.IntRange(0, len(stopped)-1).Draw(w.t, "createName")]
		n := rapid.IntRange(2, 8).Draw(w.t, "lagAppends")
		for i := 0; i < n; i++ {
			w.put(w.newMsg(w.genSize()))
		}
		w.logf("append %d messages -> appended=%d", n, w.appended)
		if w.catchUpAll(2) {
			w.logf("catchUpAll -> %s", w.modelString())
		}
		w.class("create-pair-prepared-lag")
		return name, false
	}
	cands := append(append([]string{}, stopped...), unused...)
	if len(cands) == 0 {
		w.t.Skip("every group is open")
	}
	name = cands[rapid.IntRange(0, len(cands)-1).Draw(w.t, "createName")]
	_, persisted := w.groups[name]
	return name, !persisted
}

// ---- the step ------------------------------------------------------------------------------------

// createOracle selects the oracles of a create step ("" = all); only for sensitivity experiments.
var createOracle = os.Getenv("C06_CREATE_ORACLE")

func oracleOn(which string) bool { return createOracle == "" || createOracle == which }

func (w *world) join(what string, dones ...chan struct{}) {
	deadline := time.After(60 * time.Second) // liveness only
	for _, d := range dones {
		select {
		case <-d:
		case <-deadline:
			for _, g := range w.openGroups() {
				g.h.Pause() // releases a waiting Consume so that fewer goroutines outlive the case
			}
			w.fatalf("%s: a started operation has not returned 60 s after the stopped operation continued", what)
		}
	}
}

func (w *world) opCreatePair() {
	if ev.Known(sigReopenAckAboveConsumed) {
		w.class("excluded_known")
		w.t.Skip("known finding shape")
	}
	for _, g := range w.openGroups() {
		if !(g.ack <= g.consumed && g.consumed <= w.appended) {
			w.t.Skip("a group is outside ack <= consumed <= appended")
		}
	}
	shape := rapid.SampledFrom([]string{"in-create", "in-create", "in-create", "in-create", "in-create", "append-held", "append-held", "create-in-sync"}).Draw(w.t, "createShape")
	name, fresh := w.createTarget(rapid.IntRange(0, 2).Draw(w.t, "createPrepareLag") != 0)
	thenReopen := rapid.IntRange(0, 2).Draw(w.t, "createThenReopen") == 0

	c := &cstep{w: w, name: name, fresh: fresh, handed: map[string][]int64{}}
	pre := w.snapshot()
	q := w.fq.Queue()
	create := c.opCreate()

	var seqs [][]cop
	var hows []string
	fired, point, desc := false, "", ""
	var trace []string
	switch shape {
	case "in-create":
		proj := pre.clone()
		var nested []cop
		kinds := []string{"tick", "tick", "tick", "sync", "sync", "ackOther", "ackOther", "ackOther", "consumeOther", "put", "stopOther", "getSame"}
		n := rapid.IntRange(1, 3).Draw(w.t, "nestedCount")
		for i := 0; i < n; i++ {
			op := c.drawOp(&proj, i == 0, fmt.Sprintf("nested%d", i), kinds)
			op.apply(&proj)
			nested = append(nested, op)
		}
		points := []string{"factory", "acquire", "read0", "read1", "put0", "put0", "put0", "put1", "put1", "put1"}
		if fresh {
			points = []string{"factory", "acquire", "put0", "put0", "put1", "put1"}
		}
		point = rapid.SampledFrom(points).Draw(w.t, "createPoint")
		done := make(chan struct{})
		how := "point-not-reached"
		runAll := func() {
			for _, op := range nested {
				op.run()
			}
		}
		cinj.arm(name, point, func() { how = runNested(runAll, done) })
		create.run()
		fired, trace = cinj.disarm()
		if !fired {
			runAll()
			close(done)
		}
		desc = fmt.Sprintf("%s, and [%s] started at its step %s (%s; steps %v)", create.name, opNames(nested), point, how, trace)
		w.join(desc, done)
		hows = []string{how}
		seqs = [][]cop{{create}, nested}
	case "append-held":
		m := w.newMsg(w.genSize())
		c.puts = append(c.puts, m)
		data := m.bytes()
		put := cop{kind: "put", name: "append " + m.String(),
			apply: func(s *snap) { s.appended++ },
			run:   func() { c.putErr = q.Put(data) }}
		proj := pre.clone()
		var ticker []cop
		if rapid.IntRange(0, 2).Draw(w.t, "heldAckFirst") == 0 {
			op := c.drawOp(&proj, false, "heldAck", []string{"ackOther"})
			op.apply(&proj)
			ticker = append(ticker, op)
		}
		ticker = append(ticker, c.opTick(rapid.Bool().Draw(w.t, "heldTickGC")))
		doneT, doneC := make(chan struct{}), make(chan struct{})
		howT, howC := "point-not-reached", "point-not-reached"
		runTicker := func() {
			for _, op := range ticker {
				op.run()
			}
		}
		inj.arm("meta", 0, func() {
			howT = runNested(runTicker, doneT)
			howC = runNested(create.run, doneC)
		})
		put.run()
		fired, _, _ = inj.disarm()
		if !fired {
			runTicker()
			close(doneT)
			create.run()
			close(doneC)
		}
		point = "append-held"
		desc = fmt.Sprintf("%s stopped at its store into the queue meta page (fired=%v), [%s] started (%s), then %s started (%s)", put.name, fired, opNames(ticker), howT, create.name, howC)
		w.join(desc, doneT, doneC)
		hows = []string{howT, howC}
		seqs = [][]cop{{put}, ticker, {create}}
	default: // create-in-sync
		tick := c.opTick(true)
		done := make(chan struct{})
		how := "point-not-reached"
		inj.arm("meta", 0, func() { how = runNested(create.run, done) })
		tick.run()
		fired, _, _ = inj.disarm()
		if !fired {
			create.run()
			close(done)
		}
		point = "sync-store"
		desc = fmt.Sprintf("sync+gc stopped at its store into the queue meta page (fired=%v), %s started (%s)", fired, create.name, how)
		w.join(desc, done)
		hows = []string{how}
		seqs = [][]cop{{tick}, {create}}
	}
	w.logf("createPair[%s]: %s", shape, desc)
	if c.err != nil || c.err2 != nil || c.putErr != nil {
		w.fatalf("createPair: GetOrCreateConsumerGroup(%s): %v / second caller: %v / Put: %v", name, c.err, c.err2, c.putErr)
	}
	h := c.h

	// ---- what is observable now
	obs := snap{appended: q.AppendedSeq(), qack: q.AcknowledgedSeq(), g: map[string]gpos{}, handed: map[string]string{}}
	for _, n := range w.fq.ConsumerGroupNames() {
		gh := h
		if n != name {
			g := w.groups[n]
			if g == nil || g.h == nil {
				w.fatalf("createPair: the fan-out queue lists group %s which the model does not know as open", n)
			}
			gh = g.h
		}
		obs.g[n] = gpos{consumed: gh.ConsumedSeq(), ack: gh.AcknowledgedSeq(), open: true}
	}
	for o, seqsHanded := range c.handed {
		for _, s := range seqsHanded {
			obs.handed[o] += fmt.Sprintf(" %d", s)
		}
	}
	bc, ba := h.ConsumedSeq(), h.AcknowledgedSeq()
	c.freshAtQAck = fresh && !(bc == -1 && ba == -1)

	// ---- oracle 1: invariants that hold under every interleaving
	if oracleOn("inv") {
		if c.sameCaller && c.h2 != h {
			w.fatalf("createPair: two concurrent callers of GetOrCreateConsumerGroup(%s) got two different group objects", name)
		}
		if !(ba <= bc && bc <= obs.appended) {
			w.fatalf("createPair: opened group %s violates acknowledged <= consumed <= appended: acknowledged=%d consumed=%d appended=%d", name, ba, bc, obs.appended)
		}
		if fresh {
			if bc != ba || !(ba == -1 || (pre.qack <= ba && ba <= obs.qack)) {
				w.fatalf("createPair: brand-new group %s starts at consumed=%d acknowledged=%d: neither -1/-1 nor a queue acknowledged position of this step [%d,%d]", name, bc, ba, pre.qack, obs.qack)
			}
		} else {
			p := pre.g[name]
			if ba < p.ack || bc < p.consumed {
				w.fatalf("createPair: positions did not survive: group %s was stopped at consumed=%d acknowledged=%d and comes back at consumed=%d acknowledged=%d", name, p.consumed, p.ack, bc, ba)
			}
			if ba < obs.qack {
				w.fatalf("createPair: group %s was opened from its meta page (persisted acknowledged=%d) and now exists with acknowledged=%d below the queue acknowledged position %d (was %d before the step): "+
					"either the group existed when the queue ack moved (it must not move beyond the acknowledged position of an existing group) or it did not (then a re-opened group must start at the queue ack)",
					name, p.ack, ba, obs.qack, pre.qack)
			}
			// nothing but the queue ack may lift the positions
			if (ba > p.ack && !(pre.qack <= ba && ba <= obs.qack)) || (bc > p.consumed && bc != ba) {
				w.fatalf("createPair: group %s was stopped at consumed=%d acknowledged=%d and comes back at consumed=%d acknowledged=%d; the queue acknowledged position went %d -> %d in this step",
					name, p.consumed, p.ack, bc, ba, pre.qack, obs.qack)
			}
		}
	}

	// ---- oracle 2: equal to one merge of the concurrently running sequences
	var adopted *snap
	views := map[string]bool{}
	var listing []string
	for _, order := range merges(seqs) {
		s := pre.clone()
		for _, op := range order {
			op.apply(&s)
		}
		v := s.view()
		if !views[v] {
			views[v] = true
			listing = append(listing, fmt.Sprintf("[%s] -> %s", opNames(order), v))
		}
		if adopted == nil && v == obs.view() {
			adopted = &s
		}
	}
	if adopted == nil {
		if oracleOn("lin") {
			w.fatalf("createPair[%s]: %s\nobserved afterwards: %s\nwhich is the result of no order of the operations on the model; before: %s\n  %s",
				shape, desc, obs.view(), pre.view(), strings.Join(listing, "\n  "))
		}
		// sensitivity experiments with this oracle switched off: continue with what was observed
		s := pre.clone()
		for _, order := range merges(seqs)[:1] {
			for _, op := range order {
				op.apply(&s)
			}
		}
		s.appended, s.qack = obs.appended, obs.qack
		for n, p := range obs.g {
			s.g[n] = p
		}
		adopted = &s
	}

	// ---- the model follows
	for _, m := range c.puts {
		w.appended++
		w.msgs[w.appended] = m
	}
	if w.appended != adopted.appended {
		w.fatalf("createPair: harness: %d appends recorded, model at %d, candidate at %d", len(c.puts), w.appended, adopted.appended)
	}
	w.qack = adopted.qack
	for n, p := range adopted.g {
		g := w.groups[n]
		if g == nil {
			g = &grp{name: n}
			w.groups[n] = g
		}
		g.consumed, g.ack = p.consumed, p.ack
		switch {
		case n == name:
			g.h, g.open, g.paused = h, true, false
		case g.open && !p.open:
			g.h, g.open, g.paused = nil, false, false
		}
	}
	if c.hasSync {
		w.pairTick = true // the queue ack may have moved to an ack given inside this very step
	}
	if fresh {
		w.freshNow = name
	}
	g := w.groups[name]
	w.logf("createPair -> %s", w.modelString())

	// ---- classes
	inWindow := fired && (point == "put0" || point == "put1" || point == "append-held")
	orderMatters := len(views) >= 2
	lagging := false
	if !fresh {
		first := true
		var m int64
		for n, p := range pre.g {
			if n != name && p.open && (first || p.ack < m) {
				m, first = p.ack, false
			}
		}
		lagging = !first && pre.g[name].ack < m
	}
	w.class("create-pair")
	w.class("create-pair-shape:" + shape)
	if fresh {
		w.class("create-pair-fresh-group")
	} else {
		w.class("create-pair-reopen-stopped-group")
	}
	if lagging {
		w.class("create-pair-reopened-group-lags-behind-the-others")
	}
	if fired {
		w.class("create-pair-interleaved")
		w.class("create-pair-point:" + point)
	} else {
		w.class("create-pair-point-not-reached")
	}
	for i, how := range hows {
		if how == "blocked" {
			how = "serialised" // parked on a lock the stopped operation holds
			if shape == "append-held" {
				how = "parked-until-append-continues"
			}
		}
		w.class(fmt.Sprintf("create-pair[%s]-started-op-%d-%s", shape, i+1, how))
	}
	for _, s := range seqs {
		for _, op := range s {
			if op.kind != "create" {
				w.class("create-pair-with:" + op.kind)
			}
		}
	}
	if inWindow {
		w.class("create-pair-after-queue-ack-read")
	}
	if orderMatters {
		w.class("create-pair-order-matters")
	}
	if inWindow && c.hasSync && !fresh && orderMatters {
		w.class("create-pair-sync-inside-window-of-lagging-reopen")
		w.ntCreate = true
	}
	if !fresh && adopted.g[name].ack > pre.g[name].ack {
		w.class("create-pair-reopen-lifted-to-queue-ack")
	}

	// ---- oracle 3: the re-opened group is handed its next sequence and can read it
	if oracleOn("probe") && g.consumed < w.appended && !w.tooFar(g) && (!fresh || g.consumed >= w.qack) {
		seq := g.h.Consume()
		if seq != g.consumed+1 {
			w.fatalf("createPair: Consume on the opened group %s returned %d, want consumed+1 = %d (appended=%d)", name, seq, g.consumed+1, w.appended)
		}
		g.consumed++
		data, err := q.Get(seq)
		if err != nil {
			w.fatalf("createPair: group %s exists with acknowledged=%d and was handed sequence %d, which it has not acknowledged, but the message is gone: Get(%d): %v (queue ack %d, appended %d)",
				name, g.ack, seq, seq, err, q.AcknowledgedSeq(), w.appended)
		}
		if m := w.msgs[seq]; !m.matches(data) {
			w.fatalf("createPair: sequence %d handed to group %s reads back %d bytes that differ from appended message %s", seq, name, len(data), m)
		}
		w.class("create-pair-consume-probe")
		w.logf("consume %s -> handed %d, readable", name, seq)
	}

	if thenReopen {
		w.class("create-pair-then-reopen")
		w.opReopen()
	}
}

// TestGroupCreateRace: the state machine of TestGroupHistory plus create steps (the (re)opening of a
// group interleaved with operations of other roles), with groups being stopped more often.
// non-trivial = some step ran a Sync inside the window between the queue-ack read of a re-opened
// group and its listing (or with the append lock held) and the order of the two matters on the model.
func TestGroupCreateRace(t *testing.T) {
	thorough := os.Getenv("VERIF_TIER") == "thorough"
	installPages()
	defer uninstallPages()
	rapid.Check(t, func(t *rapid.T) {
		runHistoryMode(t, "TestGroupCreateRace", thorough, false, machineMode{createRace: true})
	})
}
