package c06

// Plain reproductions (no rapid) of what the state machine found on the unchanged tree, plus a
// few hand-written histories that are always expected to hold.

import (
	"fmt"
	"os"
	"path/filepath"
	"testing"

	"github.com/lindb/lindb/pkg/queue"
	"github.com/lindb/lindb/verifharness/sim/ev"
)

func regressionQueue(t *testing.T) (dir string, fq queue.FanOutQueue) {
	t.Helper()
	root, err := os.MkdirTemp("", "c06r-")
	if err != nil {
		t.Fatal(err)
	}
	t.Cleanup(func() { _ = os.RemoveAll(root) })
	dir = filepath.Join(root, "wal")
	fq, err = queue.NewFanOutQueue(dir, dataPageBytes)
	if err != nil {
		t.Fatal(err)
	}
	return dir, fq
}

// wantOrdered asserts acknowledged <= consumed <= appended for g. While the finding is listed in
// known_findings.json a violation is reported as KNOWN-FINDING instead of failing the test.
func wantOrdered(t *testing.T, where string, g queue.ConsumerGroup, knownSig string) {
	t.Helper()
	a, c, app := g.AcknowledgedSeq(), g.ConsumedSeq(), g.Queue().Queue().AppendedSeq()
	if a <= c && c <= app {
		return
	}
	if knownSig != "" && ev.Known(knownSig) {
		ev.KnownFinding("C06", knownSig+
			": a consumer group loaded from its meta page gets acknowledged = queue ack while its consumed position stays below it (acknowledged > consumed)")
		t.Logf("listed in known_findings.json: %s: %s: acknowledged=%d consumed=%d appended=%d", knownSig, where, a, c, app)
		return
	}
	t.Fatalf("%s: acknowledged <= consumed <= appended violated: acknowledged=%d consumed=%d appended=%d (queue ack %d)",
		where, a, c, app, g.Queue().Queue().AcknowledgedSeq())
}

// Minimal history of the state machine (shrunk: group 1, forward reset, new group 2, reopen),
// written with appends instead of the reset: replica 2 joins after replica 1 has acknowledged
// and the ticker has moved the queue ack; the node restarts before replica 2 caught up.
// pkg/queue/consumer_group.go NewConsumerGroup: `if ackSeq < ackOfQueue { ackSeq = ackOfQueue }`
// lifts the ack only; consumed stays at -1. Until the group has walked up to the queue ack one
// sequence at a time, every Ack it sends is outside [ack, consumed] and is dropped, and every
// sequence it is handed is unreadable.
func TestRegression_ReopenAckAboveConsumed(t *testing.T) {
	dir, fq := regressionQueue(t)
	g1, _ := fq.GetOrCreateConsumerGroup("1")
	for i := 0; i < 12; i++ {
		if err := fq.Queue().Put(msg{id: uint64(i), size: 16}.bytes()); err != nil {
			t.Fatal(err)
		}
	}
	for i := 0; i <= 10; i++ {
		if s := g1.Consume(); s != int64(i) {
			t.Fatalf("Consume = %d, want %d", s, i)
		}
	}
	g1.Ack(10)
	fq.Sync() // queue ack = 10 (group 1 is the only group)
	fq.Queue().GC()
	g2, _ := fq.GetOrCreateConsumerGroup("2") // starts at -1/-1
	wantOrdered(t, "new group 2", g2, "")
	fq.Close()

	fq, err := queue.NewFanOutQueue(dir, dataPageBytes)
	if err != nil {
		t.Fatal(err)
	}
	defer fq.Close()
	g2, _ = fq.GetOrCreateConsumerGroup("2")
	wantOrdered(t, "group 2 after reopen", g2, sigReopenAckAboveConsumed)
}

// The same through the only production path that stops a group: partition.IsExpire stops a
// group that IsEmpty; writes continue on the open stream; the other replica acknowledges them;
// the next write stream re-creates the group from its meta page (BuildReplicaForLeader).
func TestRegression_RecreateStoppedGroupAckAboveConsumed(t *testing.T) {
	_, fq := regressionQueue(t)
	defer fq.Close()
	g1, _ := fq.GetOrCreateConsumerGroup("1")
	g2, _ := fq.GetOrCreateConsumerGroup("2")
	put := func(n int) {
		for i := 0; i < n; i++ {
			if err := fq.Queue().Put(msg{id: uint64(i), size: 16}.bytes()); err != nil {
				t.Fatal(err)
			}
		}
	}
	put(3)
	for i := 0; i < 3; i++ {
		g1.Consume()
		g2.Consume()
	}
	g1.Ack(2)
	g2.Ack(2)
	if !g2.IsEmpty() {
		t.Fatal("group 2 should be empty")
	}
	fq.StopConsumerGroup("2")
	put(4) // appended = 6
	for i := 0; i < 4; i++ {
		g1.Consume()
	}
	g1.Ack(6)
	fq.Sync() // only group 1 exists: queue ack = 6
	g2, _ = fq.GetOrCreateConsumerGroup("2")
	wantOrdered(t, "group 2 re-created from its meta page", g2, sigReopenAckAboveConsumed)
}

// Hand-written history that must always hold: two groups, different acks, Sync takes the
// smaller one, everything above it is readable, positions survive the reopen.
func TestRegression_Example(t *testing.T) {
	dir, fq := regressionQueue(t)
	g1, _ := fq.GetOrCreateConsumerGroup("1")
	g2, _ := fq.GetOrCreateConsumerGroup("2")
	var ms []msg
	for i := 0; i < 10; i++ {
		m := msg{id: uint64(i), salt: 99, size: 20 + i}
		ms = append(ms, m)
		if err := fq.Queue().Put(m.bytes()); err != nil {
			t.Fatal(err)
		}
	}
	for i := 0; i < 8; i++ {
		g1.Consume()
	}
	for i := 0; i < 5; i++ {
		g2.Consume()
	}
	g1.Ack(7)
	g2.Ack(3)
	g2.Ack(9) // beyond consumed: ignored
	g1.Ack(2) // below ack: ignored
	fq.Sync()
	fq.Queue().GC()
	expect := func(where string, fq queue.FanOutQueue) {
		g1, _ := fq.GetOrCreateConsumerGroup("1")
		g2, _ := fq.GetOrCreateConsumerGroup("2")
		if g1.ConsumedSeq() != 7 || g1.AcknowledgedSeq() != 7 || g2.ConsumedSeq() != 4 || g2.AcknowledgedSeq() != 3 {
			t.Fatalf("%s: positions g1=%d/%d g2=%d/%d, want 7/7 and 4/3", where,
				g1.ConsumedSeq(), g1.AcknowledgedSeq(), g2.ConsumedSeq(), g2.AcknowledgedSeq())
		}
		if qa, app := fq.Queue().AcknowledgedSeq(), fq.Queue().AppendedSeq(); qa != 3 || app != 9 {
			t.Fatalf("%s: queue ack=%d appended=%d, want 3 and 9", where, qa, app)
		}
		for s := int64(4); s <= 9; s++ {
			data, err := fq.Queue().Get(s)
			if err != nil || !ms[s].matches(data) {
				t.Fatalf("%s: sequence %d not readable byte for byte: %v", where, s, err)
			}
		}
	}
	expect("before reopen", fq)
	fq.Close()
	fq, err := queue.NewFanOutQueue(dir, dataPageBytes)
	if err != nil {
		t.Fatal(err)
	}
	defer fq.Close()
	expect("after reopen", fq)
	g2, _ = fq.GetOrCreateConsumerGroup("2")
	if s := g2.Consume(); s != 5 {
		t.Fatalf("Consume after reopen = %d, want 5", s)
	}
}

// Found by TestGroupPageFaults (history shrunk to: createGroup 1; createGroup 2 fails; retry).
// The creation of the meta page of a brand-new group fails after the file 0.bat exists - ftruncate
// fails with ENOSPC (an empty file stays behind) or mmap fails with ENOMEM (a zero file of the page
// size stays behind), pkg/queue/page/mpage.go + pkg/fileutil/mmap.go. GetOrCreateConsumerGroup
// returns the error. pkg/queue/consumer_group.go NewConsumerGroup decides "the group has persisted
// positions" by the existence of that file, so the retry reads the zero page as consumed=0 / ack=0:
// the new group does not start at -1/-1 (nor at the queue ack): on an empty queue consumed 0 >
// appended -1, and in any case message 0 is never handed to that replica although it counts as
// acknowledged by it. Proposed repair: proposed_fix_new_group_meta_residue.diff.
func TestRegression_NewGroupAfterFailedMetaPageCreation(t *testing.T) {
	for _, residue := range []string{"none", "empty-file", "full-file"} {
		installPages()
		_, fq := regressionQueue(t)
		if _, err := fq.GetOrCreateConsumerGroup("1"); err != nil {
			t.Fatal(err)
		}
		pfault.arm("2", 1, residue, "")
		_, err := fq.GetOrCreateConsumerGroup("2")
		fired := pfault.disarm()
		if err == nil || len(fired) != 1 {
			t.Fatalf("residue %s: harness: expected one injected fault and an error, got err=%v fired=%v", residue, err, fired)
		}
		g2, err := fq.GetOrCreateConsumerGroup("2")
		if err != nil {
			t.Fatalf("residue %s: retry fails without a fault: %v", residue, err)
		}
		c, a, app, qa := g2.ConsumedSeq(), g2.AcknowledgedSeq(), fq.Queue().AppendedSeq(), fq.Queue().AcknowledgedSeq()
		fq.Close()
		uninstallPages()
		if c == a && (c == -1 || c == qa) && c <= app {
			continue
		}
		what := fmt.Sprintf("creation of the meta page of new group 2 failed once (%v), the retry gives a group at consumed=%d ack=%d on a queue with appended=%d queue ack=%d; a new group starts at -1/-1 (or at the queue ack)",
			fired, c, a, app, qa)
		if ev.Known(sigGroupMetaResidue) {
			ev.KnownFinding("C06", sigGroupMetaResidue+": "+what)
			t.Logf("listed in known_findings.json: %s", what)
			continue
		}
		t.Fatalf("%s", what)
	}
}
