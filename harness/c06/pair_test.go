package c06

// Concurrent pairs on one consumer group with a harness-owned interleaving.
//
// The documented usage of a consumer group is one consumer goroutine (Consume, and the
// re-positioning SetConsumedSeq of the replica loop), one acker goroutine (Ack: the family flush
// callback / the follower's answer), next to the appender (Queue().Put) and the expiry ticker
// (Sync + GC). A "pair" step runs an operation of one role and, nested inside one of the page
// stores that this operation performs on the group's meta page (for the ticker: the queue's meta
// page), an operation of another role on its own goroutine. The harness waits until the nested
// operation has either completed (it ran inside the first one) or is parked on a lock / condition
// (it has to wait for the first one), then lets the first operation continue and joins both.
//
// Oracle: the operations are atomic in the property statement, so whatever the implementation
// does the pair must be equivalent to one of its two sequential orders (positions of the group,
// queue ack, appended position, sequence handed out). The state that was observed is adopted by
// the model; the persisted positions are then compared with it by the reopen steps of the
// machine (a drawn third of the pairs is followed by a reopen at once, before anything else
// rewrites the group's meta page).

import (
	"fmt"
	"path/filepath"
	"runtime"
	"strconv"
	"strings"
	"sync"
	"time"

	"pgregory.net/rapid"

	"github.com/lindb/lindb/pkg/queue"
	"github.com/lindb/lindb/pkg/queue/page"
	"github.com/lindb/lindb/verifharness/sim/ev"
)

// ---- page seam -----------------------------------------------------------------------------------

// injector runs a callback on the goroutine of the first store-like call (PutUint64 / Sync) number
// `at` that hits a page of the directory `key` after it was armed. One shot.
type injector struct {
	mu      sync.Mutex
	armed   bool
	key     string
	at      int
	seen    int
	fired   bool
	firedAt string
	run     func()
}

var inj = &injector{}

func (in *injector) arm(key string, at int, run func()) {
	in.mu.Lock()
	in.armed, in.key, in.at, in.seen, in.fired, in.firedAt, in.run = true, key, at, 0, false, "", run
	in.mu.Unlock()
}

// disarm returns whether the callback ran and at which store.
func (in *injector) disarm() (bool, string, int) {
	in.mu.Lock()
	defer in.mu.Unlock()
	in.armed, in.run = false, nil
	return in.fired, in.firedAt, in.seen
}

func (in *injector) before(key, op string, offset int) {
	in.mu.Lock()
	if !in.armed || key != in.key {
		in.mu.Unlock()
		return
	}
	n := in.seen
	in.seen++
	if n != in.at {
		in.mu.Unlock()
		return
	}
	in.armed, in.fired = false, true
	in.firedAt = fmt.Sprintf("%s#%d", op, n)
	if offset >= 0 {
		in.firedAt = fmt.Sprintf("%s#%d(offset %d)", op, n, offset)
	}
	run := in.run
	in.mu.Unlock()
	run()
}

type hookFactory struct {
	page.Factory
	key      string
	path     string
	pageSize int
}

func (f *hookFactory) AcquirePage(index int64) (page.MappedPage, error) {
	cinj.hit(f.key, "acquire")
	if err := pfault.acquire(f.Factory, f.key, f.path, f.pageSize, index); err != nil {
		return nil, err
	}
	p, err := f.Factory.AcquirePage(index)
	if err != nil {
		return nil, err
	}
	return &hookPage{MappedPage: p, key: f.key}, nil
}

func (f *hookFactory) GetPage(index int64) (page.MappedPage, bool) {
	p, ok := f.Factory.GetPage(index)
	if !ok {
		return nil, false
	}
	return &hookPage{MappedPage: p, key: f.key}, true
}

type hookPage struct {
	page.MappedPage
	key string
}

func (p *hookPage) PutUint64(value uint64, offset int) {
	rinj.before(p.key, "put") // reset_race_test.go: stores of every small page, counted across pages
	inj.before(p.key, "put", offset)
	cinj.hit(p.key, "put")
	p.MappedPage.PutUint64(value, offset)
}

func (p *hookPage) ReadUint64(offset int) uint64 {
	cinj.hit(p.key, "read")
	return p.MappedPage.ReadUint64(offset)
}

func (p *hookPage) Sync() error {
	rinj.before(p.key, "sync")
	inj.before(p.key, "sync", -1)
	return p.MappedPage.Sync()
}

// installPages wraps the small pages of the queue (everything but the data and index pages: the
// queue's meta page and the meta page of every consumer group); the key of a page is the last
// element of its directory (the group name, or "meta").
func installPages() {
	queue.VerifSetPageFactory(func(path string, pageSize int) (page.Factory, error) {
		key := filepath.Base(path)
		if key != "data" && key != "index" {
			cinj.hit(key, "factory") // create_pair_test.go: the page factory of a consumer group is about to be built
		}
		if err := pfault.construct(key, path); err != nil {
			return nil, err
		}
		f, err := page.NewFactory(path, pageSize)
		if err != nil {
			return nil, err
		}
		if key == "data" || key == "index" {
			// pages of the big files stay unwrapped; only the creation of a page file can be made to fail
			return &faultFactory{Factory: f, key: key, path: path, pageSize: pageSize}, nil
		}
		return &hookFactory{Factory: f, key: key, path: path, pageSize: pageSize}, nil
	})
}

func uninstallPages() {
	inj.disarm()
	cinj.disarm()
	pfault.disarm()
	rinj.disarm()
	queue.VerifSetPageFactory(nil)
}

// ---- goroutine state -----------------------------------------------------------------------------

var stackBuf = make([]byte, 1<<18)

func goroutineID() int64 {
	var buf [64]byte
	n := runtime.Stack(buf[:], false)
	f := strings.Fields(string(buf[:n])) // "goroutine 123 [running]:"
	if len(f) < 2 {
		return -1
	}
	id, err := strconv.ParseInt(f[1], 10, 64)
	if err != nil {
		return -1
	}
	return id
}

// goroutineState returns the scheduler state of goroutine id as printed in a stack dump
// ("running", "runnable", "sync.RWMutex.Lock", ...), "" when it is not in the dump.
func goroutineState(id int64) string {
	n := runtime.Stack(stackBuf, true)
	s := string(stackBuf[:n])
	key := fmt.Sprintf("goroutine %d [", id)
	i := 0
	for {
		j := strings.Index(s[i:], key)
		if j < 0 {
			return ""
		}
		j += i
		if j == 0 || s[j-1] == '\n' {
			i = j
			break
		}
		i = j + 1
	}
	rest := s[i+len(key):]
	e := strings.IndexByte(rest, ']')
	if e < 0 {
		return ""
	}
	st := rest[:e]
	if c := strings.IndexByte(st, ','); c >= 0 { // ", 2 minutes", ", locked to thread"
		st = st[:c]
	}
	return st
}

// parked reports whether st is a state in which a goroutine waits for another goroutine.
func parked(st string) bool {
	return strings.HasPrefix(st, "sync.") || st == "semacquire" || strings.HasPrefix(st, "chan ") || strings.HasPrefix(st, "select")
}

// runNested starts fn on its own goroutine and returns when it has completed ("ran-inside") or is
// parked ("blocked"); "undetermined" after 2 s of neither (the join afterwards has its own limit).
// Wall clock is used for this limit only.
func runNested(fn func(), done chan struct{}) string {
	idc := make(chan int64, 1)
	go func() {
		idc <- goroutineID()
		fn()
		close(done)
	}()
	id := <-idc
	start := time.Now()
	last := ""
	for i := 0; ; i++ {
		select {
		case <-done:
			return "ran-inside"
		default:
		}
		st := goroutineState(id)
		if parked(st) {
			if st == last { // seen twice in a row
				select {
				case <-done:
					return "ran-inside"
				default:
				}
				return "blocked"
			}
			last = st
		} else {
			last = ""
		}
		if time.Since(start) > 2*time.Second {
			return "undetermined"
		}
		runtime.Gosched()
		if i > 4 {
			time.Sleep(20 * time.Microsecond)
		}
	}
}

// ---- the pair step -------------------------------------------------------------------------------

// mstate is the part of the model a pair can change.
type mstate struct {
	consumed, ack, qack, appended int64
	handed                        int64 // sequence handed out by the Consume of the pair (-2: none)
}

func (s mstate) ordered() bool {
	return s.ack <= s.consumed && s.consumed <= s.appended && s.qack <= s.appended
}

type mop struct {
	kind  string
	name  string
	role  string
	apply func(mstate) mstate
	run   func()
}

// minOtherAck returns the smallest acknowledged position of the open groups other than g (and ok=false
// when there is none).
func (w *world) minOtherAck(g *grp) (int64, bool) {
	var m int64
	ok := false
	for _, o := range w.openGroups() {
		if o == g {
			continue
		}
		if !ok || o.ack < m {
			m, ok = o.ack, true
		}
	}
	return m, ok
}

func (w *world) opPair() {
	g := w.pickOpen("pairGroup")
	if g.paused || !(g.ack <= g.consumed && g.consumed <= w.appended) {
		w.t.Skip("group not in a state for a pair")
	}
	pre := mstate{consumed: g.consumed, ack: g.ack, qack: w.qack, appended: w.appended, handed: -2}
	q := w.fq.Queue()
	h := g.h

	var handed int64 = -2
	var putErr error
	var putMsg *msg
	build := func(kind, label string) mop {
		switch kind {
		case "consume":
			if pre.consumed >= pre.appended {
				w.t.Skip("nothing to consume")
			}
			return mop{kind: kind, name: "consume", role: "consumer",
				apply: func(s mstate) mstate {
					if s.consumed < s.appended {
						s.consumed++
						s.handed = s.consumed
					} else {
						s.handed = queue.SeqNoNewMessageAvailable
					}
					return s
				},
				run: func() { handed = h.Consume() }}
		case "setConsumed":
			s0 := rapid.Int64Range(pre.ack, pre.appended).Draw(w.t, label+"SetConsumedSeq")
			return mop{kind: kind, name: fmt.Sprintf("setConsumed(%d)", s0), role: "consumer",
				apply: func(s mstate) mstate { s.consumed = s0; return s },
				run:   func() { h.SetConsumedSeq(s0) }}
		case "ack":
			var k int64
			switch kk := rapid.IntRange(0, 9).Draw(w.t, label+"AckKind"); {
			case kk <= 5:
				k = rapid.Int64Range(pre.ack, pre.consumed).Draw(w.t, label+"AckSeq")
			case kk == 6:
				k = pre.consumed
			case kk == 7:
				k = pre.consumed + 1 // valid only after a consume of the other role
			case kk == 8 && pre.ack > -1:
				k = rapid.Int64Range(-1, pre.ack-1).Draw(w.t, label+"AckSeq")
			default:
				k = pre.appended + int64(rapid.IntRange(2, 5).Draw(w.t, label+"AckBeyond"))
			}
			return mop{kind: kind, name: fmt.Sprintf("ack(%d)", k), role: "acker",
				apply: func(s mstate) mstate {
					if s.ack <= k && k <= s.consumed {
						s.ack = k
					}
					return s
				},
				run: func() { h.Ack(k) }}
		case "tick":
			other, hasOther := w.minOtherAck(g)
			return mop{kind: kind, name: "sync+gc", role: "ticker",
				apply: func(s mstate) mstate {
					cand := s.appended
					if s.ack < cand {
						cand = s.ack
					}
					if hasOther && other < cand {
						cand = other
					}
					if cand > s.qack {
						s.qack = cand
					}
					return s
				},
				run: func() { w.fq.Sync(); q.GC() }}
		default:
			kind = "put"
			m := w.newMsg(w.genSize())
			putMsg = &m
			data := m.bytes()
			return mop{kind: kind, name: "append " + m.String(), role: "appender",
				apply: func(s mstate) mstate { s.appended++; return s },
				run:   func() { putErr = q.Put(data) }}
		}
	}

	firstKind := rapid.SampledFrom([]string{"ack", "ack", "ack", "consume", "consume", "setConsumed", "tick"}).Draw(w.t, "pairFirst")
	first := build(firstKind, "first")
	var nestedKinds []string
	for _, k := range []string{"consume", "consume", "setConsumed", "ack", "ack", "tick", "put"} {
		role := map[string]string{"consume": "consumer", "setConsumed": "consumer", "ack": "acker", "tick": "ticker", "put": "appender"}[k]
		if role != first.role {
			nestedKinds = append(nestedKinds, k)
		}
	}
	nested := build(rapid.SampledFrom(nestedKinds).Draw(w.t, "pairNested"), "nested")
	at := rapid.SampledFrom([]int{0, 0, 0, 1, 1, 2}).Draw(w.t, "pairBeforeStore")
	thenReopen := rapid.IntRange(0, 2).Draw(w.t, "pairThenReopen") == 0

	// both sequential orders must be histories a caller may produce
	c1 := nested.apply(first.apply(pre)) // first, then nested
	c2 := first.apply(nested.apply(pre)) // nested, then first
	if !c1.ordered() || !c2.ordered() {
		w.t.Skip("pair would leave the caller's contract (ack <= consumed <= appended) in one order")
	}

	key := g.name
	if first.role == "ticker" {
		key = "meta"
	}
	done := make(chan struct{})
	how := "point-not-reached"
	inj.arm(key, at, func() { how = runNested(nested.run, done) })
	first.run()
	fired, firedAt, stores := inj.disarm()
	if !fired {
		// the first operation performed fewer stores (e.g. an ignored ack): the nested one follows it
		nested.run()
		close(done)
	}
	select {
	case <-done:
	case <-time.After(20 * time.Second):
		h.Pause() // releases a waiting Consume so that no goroutine outlives the case
		select {
		case <-done:
		case <-time.After(5 * time.Second):
		}
		w.fatalf("pair on group %s: %s nested in %s (before %s) has not returned 20 s after %s returned", g.name, nested.name, first.name, firedAt, first.name)
	}
	if putErr != nil {
		w.fatalf("pair on group %s: Put: %v", g.name, putErr)
	}

	obs := mstate{consumed: h.ConsumedSeq(), ack: h.AcknowledgedSeq(), qack: q.AcknowledgedSeq(), appended: q.AppendedSeq(), handed: handed}
	desc := fmt.Sprintf("pair %s: %s, and %s nested before its store %d of %d (%s)", g.name, first.name, nested.name, at, stores, how)
	if fired {
		desc = fmt.Sprintf("pair %s: %s, and %s nested before its %s: %s", g.name, first.name, nested.name, firedAt, how)
	}
	if obs != c1 && obs != c2 {
		w.logf("%s", desc)
		w.fatalf("%s\nresult consumed=%d acknowledged=%d queueAck=%d appended=%d handed=%d is neither '%s; %s' (consumed=%d acknowledged=%d queueAck=%d appended=%d handed=%d) nor '%s; %s' (consumed=%d acknowledged=%d queueAck=%d appended=%d handed=%d); before: consumed=%d acknowledged=%d queueAck=%d appended=%d",
			desc, obs.consumed, obs.ack, obs.qack, obs.appended, obs.handed,
			first.name, nested.name, c1.consumed, c1.ack, c1.qack, c1.appended, c1.handed,
			nested.name, first.name, c2.consumed, c2.ack, c2.qack, c2.appended, c2.handed,
			pre.consumed, pre.ack, pre.qack, pre.appended)
	}
	g.consumed, g.ack, w.qack = obs.consumed, obs.ack, obs.qack
	if putMsg != nil {
		w.appended++
		w.msgs[w.appended] = *putMsg
	}
	if first.role == "ticker" || nested.role == "ticker" {
		w.pairTick = true // the queue ack may have moved to an ack given inside this very step
	}
	w.logf("%s -> consumed=%d ack=%d queueAck=%d appended=%d", desc, g.consumed, g.ack, w.qack, w.appended)

	w.class("pair")
	w.class("pair:" + first.kind + "+" + nested.kind)
	w.class("pair-nested-" + how)
	if c1 != c2 {
		w.class("pair-order-matters")
	}
	w.ntPair = w.ntPair || fired
	if thenReopen && !(ev.Known(sigReopenAckAboveConsumed) && w.anyKnownShape()) {
		w.class("pair-then-reopen")
		if fired {
			w.class("pair-interleaved-then-reopen")
		}
		w.opReopen()
	}
}
