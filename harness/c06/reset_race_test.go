package c06

// Operations of other actors nested INSIDE the explicit index reset.
//
// FanOutQueue.SetAppendedSeq(s) is not one atomic step: it cuts (or moves) the underlying queue and
// positions every consumer group, holding only the read side of the group-map lock for the whole
// operation and each group's own lock for that group's positioning. The other actors of a partition
// keep running meanwhile: on the follower the Reset RPC (partition.ResetReplicaIndex, rpc handler
// goroutine) runs next to the partition's replica loop (Pending / Consume / Get / Ack of every group),
// the family flush callback (Ack), the write RPC (Put) and the expiry ticker (Sync); on the leader
// replicator.ResetAppendIndex runs next to the writers, the ackers and the ticker.
//
// An "interleaved reset" step runs the reset on the test goroutine and, nested at one of the seams
// inside the reset - the page stores it performs (the queue's meta page: appended / acknowledged / sync,
// and the two stores of every group's meta page) and the entry to / return from the positioning call
// SetSeq the fan-out queue makes on each group (seam queue.VerifSetConsumerGroupWrapper: the groups of the
// queue are wrapped; no lock of the group is held there); the seams are counted across all pages and
// groups, so the seam lies before, between and after the positioning of the individual groups and the
// queue cut whatever order the implementation uses - ONE operation of another actor on its own goroutine:
//
//	consumer step  1..3 turns of the replica loop: Pending(); if > 0: Consume() (and, drawn, Ack of what was handed)
//	ack            Ack(k), k drawn around the old window, the target and beyond
//	observe        Pending() + IsEmpty() (partition.IsExpire / getReplicaState readers; recorded, not judged:
//	               the statement exempts the inside of the reset)
//	sync           FanOutQueue.Sync() (the ticker)
//	put            Queue().Put (the appender)
//	create         GetOrCreateConsumerGroup of a group that does not exist yet (buildReplica)
//
// The group the actor works on is chosen at the seam: a group the reset has already positioned, the group
// being positioned, or one it has not reached. The harness waits until the nested operation completed or
// is parked on a lock, lets the reset continue and joins both.
//
// Oracle (statement: "acknowledged <= consumed <= appended holds (outside an explicit index reset),
// consume hands out consecutive sequences"): once the reset and the nested operation have both returned
// the reset is over, so
//   - the appended position is s (s+1 when the nested append was ordered after the cut), the queue's
//     acknowledged position is s, and every group that existed when the reset began is at consumed = s,
//     acknowledged = s: an operation of another actor either took effect before its group was positioned
//     (and was overwritten) or afterwards (and then found nothing pending and the window [s, s]);
//   - the sequences handed out by the nested Consume calls continue that group's position before the reset
//     began: consumed+1, consumed+2 ... (the consumes are then explained as ones that preceded the
//     positioning of its group);
//     being handed s+1 (or anything else) means the group was given a message of the log that the reset
//     discards under the number of a message that is appended after the reset;
//   - the messages appended after the reset are handed to every group from s+1 on, byte for byte
//     (episode: appends, every group catches up; check() after every step; reopen).

import (
	"fmt"
	"os"
	"path/filepath"
	"sort"
	"strings"
	"sync"
	"sync/atomic"
	"testing"
	"time"

	"pgregory.net/rapid"

	"github.com/lindb/lindb/pkg/queue"
)

// ---- seam: the n-th store on any small page ----------------------------------------------------------

// resetInjector runs a callback on the goroutine that performs store number `at` (PutUint64 / Sync on
// the queue's meta page or a group's meta page, counted across pages) after it was armed. One shot.
type resetInjector struct {
	mu    sync.Mutex
	armed bool
	at    int
	seen  int
	fired bool
	key   string         // page of the store at which the callback ran
	op    string         // put / sync
	prior map[string]int // stores per page that preceded it ("<group>/left": the group's SetSeq had returned)
	run   func(key string, before map[string]int)
}

// seamGroup wraps a consumer group of the fan-out queue: entry to and return from SetSeq are seams.
type seamGroup struct {
	queue.ConsumerGroup
	key string
}

func (g *seamGroup) SetSeq(seq int64) {
	rinj.before(g.key, "enter-SetSeq")
	g.ConsumerGroup.SetSeq(seq)
	rinj.before(g.key, "leave-SetSeq")
}

func installGroupSeam() {
	queue.VerifSetConsumerGroupWrapper(func(cg queue.ConsumerGroup) queue.ConsumerGroup {
		return &seamGroup{ConsumerGroup: cg, key: filepath.Base(cg.Name())}
	})
}

func uninstallGroupSeam() { queue.VerifSetConsumerGroupWrapper(nil) }

var rinj = &resetInjector{}

func (in *resetInjector) arm(at int, run func(key string, before map[string]int)) {
	in.mu.Lock()
	in.armed, in.at, in.seen, in.fired, in.key, in.op, in.prior, in.run = true, at, 0, false, "", "", map[string]int{}, run
	in.mu.Unlock()
}

func (in *resetInjector) disarm() (fired bool, key, op string, seen int) {
	in.mu.Lock()
	defer in.mu.Unlock()
	in.armed, in.run = false, nil
	return in.fired, in.key, in.op, in.seen
}

func (in *resetInjector) before_(key, op string) (func(string, map[string]int), map[string]int) {
	in.mu.Lock()
	defer in.mu.Unlock()
	if !in.armed {
		return nil, nil
	}
	n := in.seen
	in.seen++
	if op == "leave-SetSeq" {
		in.prior[key+"/left"] = 1
	}
	if n != in.at {
		if op == "put" || op == "sync" {
			in.prior[key]++
		}
		return nil, nil
	}
	in.armed, in.fired, in.key, in.op = false, true, key, op
	return in.run, in.prior
}

// rinjOp returns the operation at which the callback is running (valid inside the callback).
func rinjOp() string {
	rinj.mu.Lock()
	defer rinj.mu.Unlock()
	return rinj.op
}

func (in *resetInjector) before(key, op string) {
	if run, seen := in.before_(key, op); run != nil {
		run(key, seen)
	}
}

// ---- the step ----------------------------------------------------------------------------------------

type rpos struct{ consumed, ack int64 }

func (w *world) opResetRace() {
	if w.anyStopped() {
		w.t.Skip("a stopped group would miss the reset")
	}
	gs := w.openGroups()
	if len(gs) == 0 {
		w.t.Skip("no group")
	}
	for _, g := range gs {
		if !(g.ack <= g.consumed && g.consumed <= w.appended) {
			w.t.Skip("a group is not in an ordered state")
		}
	}
	// preparation (ordinary operations): data beyond what will be the target, groups at different positions
	for i, k := 0, rapid.IntRange(0, 6).Draw(w.t, "raceAppendsBefore"); i < k; i++ {
		w.put(w.newMsg(w.genSize()))
	}
	w.logf("append -> appended=%d", w.appended)
	for _, g := range gs {
		if g.paused || w.tooFar(g) {
			continue
		}
		left := w.appended - g.consumed
		if left <= 0 {
			continue
		}
		if left > 8 {
			left = 8
		}
		from := g.consumed
		for i, k := int64(0), rapid.Int64Range(0, left).Draw(w.t, "raceConsumeBefore"); i < k; i++ {
			w.consumeOnce(g, false)
		}
		if g.consumed > from {
			w.logf("consume %s x%d -> consumed=%d", g.name, g.consumed-from, g.consumed)
		}
		if g.consumed > g.ack && rapid.Bool().Draw(w.t, "raceAckBefore") {
			w.ack(g, rapid.Int64Range(g.ack, g.consumed).Draw(w.t, "raceAckSeq"), "before the reset")
		}
	}
	w.check("after the preparation of the interleaved index reset")

	app, qa := w.appended, w.qack
	kinds := []string{"forward", "forward", "at-appended"}
	if app > qa {
		kinds = append(kinds, "back", "back", "back", "back", "back", "back")
	}
	if qa >= 0 {
		kinds = append(kinds, "below-queue-ack", "below-queue-ack")
	}
	var s int64
	kind := rapid.SampledFrom(kinds).Draw(w.t, "raceResetKind")
	switch kind {
	case "back":
		s = rapid.Int64Range(qa, app-1).Draw(w.t, "raceResetSeq")
	case "below-queue-ack":
		s = qa - int64(rapid.IntRange(1, 6).Draw(w.t, "raceResetBelowBy"))
		if s < -1 {
			s = -1
		}
	case "at-appended":
		s = app
	default:
		s = app + int64(rapid.IntRange(1, 6).Draw(w.t, "raceResetBy"))
	}
	nStores := 3 + 4*len(gs)
	at := rapid.IntRange(0, nStores-1).Draw(w.t, "raceStore")
	actorKind := rapid.SampledFrom([]string{"consumer", "consumer", "consumer", "consumer", "consumer", "ack", "ack", "observe", "sync", "put", "create"}).Draw(w.t, "raceActor")
	prefer := rapid.SampledFrom([]string{"positioned", "positioned", "positioned", "current", "not-reached", "any"}).Draw(w.t, "raceActorGroup")
	rot := rapid.IntRange(0, 3).Draw(w.t, "raceActorGroupFrom")
	ackHanded := rapid.Bool().Draw(w.t, "raceAckHanded")
	turns := rapid.IntRange(1, 3).Draw(w.t, "raceConsumerTurns")
	ackHow := rapid.IntRange(0, 5).Draw(w.t, "raceAckHow")
	ackOff := int64(rapid.IntRange(0, 3).Draw(w.t, "raceAckOff"))
	appendsAfter := rapid.IntRange(1, 3).Draw(w.t, "raceAppendsAfter")
	thenReopen := rapid.IntRange(0, 3).Draw(w.t, "raceResetThenReopen") == 0
	var putMsg msg
	var putData []byte
	if actorKind == "put" {
		putMsg = w.newMsg(w.genSize())
		putData = putMsg.bytes()
	}
	createName := ""
	if actorKind == "create" {
		for _, n := range w.universe {
			if _, ok := w.groups[n]; !ok {
				createName = n
				break
			}
		}
		if createName == "" {
			actorKind = "consumer"
		}
	}
	if w.excludedResetShape(s, "interleaved reset") {
		w.t.Skip("known finding shape")
	}

	pre := map[string]rpos{}
	for _, g := range gs {
		pre[g.name] = rpos{g.consumed, g.ack}
	}
	fq, q := w.fq, w.fq.Queue()

	// what the nested operation saw (written by its goroutine, read after the join)
	var (
		target     *grp
		relation   string
		handed     = int64(-2) // last value returned by Consume
		handedAll  []int64     // every sequence (>= 0) handed out
		pendSeen   = int64(-1)
		emptySeen  bool
		ackSent    = int64(-2)
		putErr     error
		created    queue.ConsumerGroup
		createErr  error
		positioned int
	)
	var actorID atomic.Int64
	actor := func() {
		actorID.Store(goroutineID())
		switch actorKind {
		case "consumer":
			h := target.h
			pendSeen = h.Pending()
			for i, pend := 0, pendSeen; i < turns && pend > 0; i++ {
				handed = h.Consume()
				if handed < 0 {
					break
				}
				handedAll = append(handedAll, handed)
				if ackHanded {
					ackSent = handed
					h.Ack(handed)
				}
				pend = h.Pending()
			}
		case "ack":
			p := pre[target.name]
			switch ackHow {
			case 0:
				ackSent = p.consumed
			case 1:
				ackSent = p.ack + ackOff
			case 2:
				ackSent = s
			case 3:
				ackSent = s + 1 + ackOff
			case 4:
				ackSent = p.consumed + 1
			default:
				ackSent = s - ackOff
			}
			if ackSent < -1 {
				ackSent = -1
			}
			target.h.Ack(ackSent)
		case "observe":
			pendSeen = target.h.Pending()
			emptySeen = target.h.IsEmpty()
		case "sync":
			fq.Sync()
		case "put":
			putErr = q.Put(putData)
		case "create":
			created, createErr = fq.GetOrCreateConsumerGroup(createName)
		}
	}
	// choose the group at the seam: by what the reset has done to it so far
	choose := func(key string, before map[string]int) {
		seamOp := rinjOp()
		relOf := func(g *grp) string {
			switch {
			case before[g.name+"/left"] > 0 || (before[g.name] >= 2 && g.name != key):
				return "positioned"
			case g.name == key && seamOp != "enter-SetSeq":
				return "current" // inside its SetSeq (a store of its meta page)
			}
			return "not-reached"
		}
		for i := range gs {
			g := gs[(i+rot)%len(gs)]
			rel := relOf(g)
			if rel == "positioned" {
				positioned++
			}
			if rel == prefer && target == nil {
				target, relation = g, rel
			}
		}
		if target == nil {
			target = gs[rot%len(gs)]
			relation = relOf(target)
		}
	}

	done := make(chan struct{})
	how := "point-not-reached"
	rinj.arm(at, func(key string, before map[string]int) {
		choose(key, before)
		how = runNested(actor, done)
	})
	fq.SetAppendedSeq(s)
	fired, key, op, stores := rinj.disarm()
	if !fired {
		// the reset performed fewer stores: the operation follows it
		choose("", map[string]int{})
		relation = "after-the-reset"
		go func() {
			actor()
			close(done)
		}()
	}
	// A consumer that saw Pending() > 0 before its group was positioned and calls Consume afterwards finds
	// nothing pending and waits for the next append like any drained consumer (only when the nested
	// operation was blocked by a lock of the reset and then really raced its remaining steps). The reset is
	// over then; the waiting consumer is released by Pause (replicator shutdown) and hands out nothing.
	parkedAfter := false
	for i, seen, start := 0, 0, time.Now(); !parkedAfter; i++ {
		select {
		case <-done:
		default:
			if id := actorID.Load(); id != 0 && goroutineState(id) == "sync.Cond.Wait" {
				if seen++; seen >= 3 {
					parkedAfter = true
				}
			} else {
				seen = 0
			}
			if time.Since(start) > 20*time.Second { // liveness only
				break
			}
			if i > 4 {
				time.Sleep(20 * time.Microsecond)
			}
			continue
		}
		break
	}
	if parkedAfter && actorKind == "consumer" {
		target.h.Pause()
		target.paused = true
	}
	select {
	case <-done:
	case <-time.After(20 * time.Second):
		// liveness only: a consumer that went into Consume inside the reset and found the log cut under it
		target.h.Pause()
		select {
		case <-done:
		case <-time.After(5 * time.Second):
		}
		w.logf("interleaved reset to %d: %s on group %s nested at store %d (%s of page %s)", s, actorKind, target.name, at, op, key)
		w.fatalf("interleaved index reset to %d: the %s operation on group %s (%s by the reset when it started: Pending()=%d) nested at store %d (%s of page %s) has not returned 20 s after the reset returned",
			s, actorKind, target.name, relation, pendSeen, at, op, key)
	}

	seam := "group-page-store"
	switch {
	case key == "meta":
		seam = "queue-meta-page-store"
	case op == "enter-SetSeq":
		seam = "before-the-positioning-of-a-group"
	case op == "leave-SetSeq":
		seam = "after-the-positioning-of-a-group"
	}
	if len(gs) == 1 {
		w.class("reset-race-single-group")
		w.class("reset-race-single-group-seam:" + seam)
	}
	desc := fmt.Sprintf("setAppendedSeq %d (%s; appended was %d, queue ack %d) with [%s", s, kind, app, qa, actorKind)
	switch actorKind {
	case "consumer":
		desc += fmt.Sprintf(" on %s (%s): Pending()=%d", target.name, relation, pendSeen)
		if handed != -2 {
			desc += fmt.Sprintf(", Consume() handed %v (last return %d)", handedAll, handed)
		}
		if ackSent != -2 {
			desc += fmt.Sprintf(", Ack(%d)", ackSent)
		}
	case "ack":
		desc += fmt.Sprintf(" on %s (%s): Ack(%d)", target.name, relation, ackSent)
	case "observe":
		desc += fmt.Sprintf(" on %s (%s): Pending()=%d IsEmpty()=%v", target.name, relation, pendSeen, emptySeen)
	case "put":
		desc += " " + putMsg.String()
	case "create":
		desc += " " + createName
	}
	if fired {
		desc += fmt.Sprintf("] nested at store %d of the reset (%s of page %s; %d groups positioned before): %s", at, op, key, positioned, how)
	} else {
		desc += fmt.Sprintf("] after the reset (it performed %d stores, the seam was store %d)", stores, at)
	}
	w.logf("%s", desc)

	// ---- oracle: the reset is over ----
	gotApp, gotQA := q.AppendedSeq(), q.AcknowledgedSeq()
	if putErr != nil {
		w.fatalf("interleaved index reset: Put: %v", putErr)
	}
	if createErr != nil {
		w.fatalf("interleaved index reset: GetOrCreateConsumerGroup(%s): %v", createName, createErr)
	}
	var problems []string
	for i, hs := range handedAll {
		if p := pre[target.name]; hs != p.consumed+1+int64(i) {
			problems = append(problems, fmt.Sprintf("group %s was handed the sequences %v inside the reset: they do not continue its position before the reset (consumed=%d); the reset had %s this group - it was given messages of the discarded log under numbers that belong to messages appended after the reset",
				target.name, handedAll, p.consumed, map[string]string{"positioned": "already positioned", "current": "been positioning", "not-reached": "not reached", "after-the-reset": "finished with"}[relation]))
			break
		}
	}
	wantApp := []int64{s}
	if actorKind == "put" {
		wantApp = []int64{s, s + 1}
	}
	okApp := false
	for _, a := range wantApp {
		okApp = okApp || gotApp == a
	}
	if !okApp {
		problems = append(problems, fmt.Sprintf("appended position is %d, want %v", gotApp, wantApp))
	}
	if gotQA != s {
		problems = append(problems, fmt.Sprintf("queue acknowledged position is %d, want %d", gotQA, s))
	}
	for _, g := range gs {
		c, a := g.h.ConsumedSeq(), g.h.AcknowledgedSeq()
		if !(a <= c && c <= gotApp) {
			problems = append(problems, fmt.Sprintf("group %s: acknowledged(%d) <= consumed(%d) <= appended(%d) does not hold", g.name, a, c, gotApp))
		} else if c != s || a != s {
			problems = append(problems, fmt.Sprintf("group %s is at consumed=%d acknowledged=%d, the reset positions every group at %d", g.name, c, a, s))
		}
	}
	if len(problems) > 0 {
		sort.Strings(problems)
		var before []string
		for _, g := range gs {
			before = append(before, fmt.Sprintf("%s{consumed=%d ack=%d}", g.name, pre[g.name].consumed, pre[g.name].ack))
		}
		w.fatalf("after the index reset to %d and the operation nested inside it have both returned (before: appended=%d queueAck=%d %s):\n  %s\n%s",
			s, app, qa, strings.Join(before, " "), strings.Join(problems, "\n  "), desc)
	}

	// ---- model ----
	w.appended, w.qack = s, s
	for _, g := range gs {
		g.consumed, g.ack = s, s
	}
	if gotApp == s+1 {
		w.appended = s + 1
		w.msgs[w.appended] = putMsg
	}
	w.resetNow = true
	w.qackBySync = false
	if created != nil {
		c, a := created.ConsumedSeq(), created.AcknowledgedSeq()
		if c != a || (c != -1 && c != s && c != qa) {
			w.fatalf("group %s created inside the index reset to %d starts at consumed=%d ack=%d (queue ack before %d): neither the queue ack nor -1", createName, s, c, a, qa)
		}
		w.groups[createName] = &grp{name: createName, consumed: c, ack: a, open: true, h: created}
		if c < w.qack {
			w.freshNow = createName
		}
	}

	w.class("reset-race")
	w.class("reset-race:" + kind)
	w.class("reset-race-actor:" + actorKind)
	w.class("reset-race-nested-" + how)
	if parkedAfter {
		w.class("reset-race-consumer-waited-in-Consume-after-the-reset-released-by-Pause")
		w.logf("the consumer of %s waited inside Consume after the reset (it saw Pending() > 0 before its group was positioned): released by Pause", target.name)
	}
	w.class("reset-race-seam:" + seam)
	w.class(fmt.Sprintf("reset-race-groups-positioned-before-the-seam:%d", positioned))
	if actorKind == "consumer" || actorKind == "ack" || actorKind == "observe" {
		w.class("reset-race-actor-group:" + relation)
		p := pre[target.name]
		beyond := p.consumed < app && s < app
		if beyond {
			w.class("reset-race-actor-group-had-data-pending-beyond-the-target")
		}
		if actorKind == "consumer" && fired && how == "ran-inside" {
			if pendSeen > 0 {
				w.class("reset-race-consumer-saw-pending-inside-the-reset")
			}
			if len(handedAll) > 0 {
				w.class(fmt.Sprintf("reset-race-consumer-was-handed-inside-the-reset:%d", len(handedAll)))
			}
			if positioned >= 1 && beyond {
				w.ntResetRace = true
				w.class("reset-race-consumer-step-inside-after-a-group-was-positioned")
			}
			if relation == "positioned" && beyond {
				w.class("reset-race-consumer-step-of-a-positioned-group-inside")
			}
		}
	}
	if gotApp == s+1 {
		w.class("reset-race-put-ordered-after-the-cut")
	}
	w.check("after the interleaved index reset")

	// ---- episode: what every group is handed after the reset ----
	for i := 0; i < appendsAfter; i++ {
		w.put(w.newMsg(w.genSize()))
	}
	w.logf("append x%d after the reset -> appended=%d", appendsAfter, w.appended)
	w.check("after the appends that follow the interleaved index reset")
	for _, g := range gs {
		if g.paused {
			continue
		}
		for g.consumed < w.appended {
			w.consumeOnce(g, false)
		}
	}
	w.logf("every group consumes what was appended after the reset -> %s", w.modelString())
	w.check("after the groups consumed what was appended after the interleaved index reset")
	if thenReopen {
		w.class("reset-race-then-reopen")
		w.opReopen()
		w.check("after the reopen that follows the interleaved index reset")
	}
}

// TestGroupResetInterleaved: the state machine of TestGroupHistory plus index resets with an operation
// of another actor nested at a page store inside the reset. non-trivial = a consumer step ran inside the
// reset, after at least one group had been positioned, on a group with data pending beyond the target.
func TestGroupResetInterleaved(t *testing.T) {
	thorough := os.Getenv("VERIF_TIER") == "thorough"
	installPages()
	defer uninstallPages()
	installGroupSeam()
	defer uninstallGroupSeam()
	rapid.Check(t, func(t *rapid.T) {
		runHistoryMode(t, "TestGroupResetInterleaved", thorough, false, machineMode{backReset: true, resetRace: true})
	})
}
