package c06

// Real-goroutine variant of the create steps (create_pair_test.go) for the windows no page seam can
// own, e.g. between the moment Sync has chosen the smallest acknowledged position and the moment it
// stores it: the expiry ticker (Sync + GC) races the re-opening of a stopped group that lags
// behind the others, released by a barrier, thousands of times per run.
//
// One trial (ordinary call order of replica/partition.go): group 2 consumes and acknowledges
// everything and is stopped (IsExpire); writes continue; the other groups consume and acknowledge
// them; then GetOrCreateConsumerGroup("2") (buildReplica on the next write stream) and Sync+GC
// (IsExpire of the WAL task) run on two goroutines. The start of the ticker is delayed by a number
// of spins that a feedback rule moves towards the boundary between "Sync first" and "group first"
// (the rule only chooses where to search; no assertion depends on it or on time).
//
// Oracle = what holds under every interleaving: the re-opened group has its persisted positions or
// more, acknowledged <= consumed <= appended, it is not below the queue-wide acknowledged position
// after both finished (either it existed when the queue ack moved, or the re-open rule lifted it),
// the queue ack is not beyond the acknowledged position of any other group, and the group is
// handed consumed+1 and reads that message byte for byte.
// A failure comes without shrinking; the message carries the trial's positions.

import (
	"fmt"
	"os"
	"path/filepath"
	"runtime"
	"sync"
	"sync/atomic"
	"testing"

	"github.com/lindb/lindb/pkg/queue"
	"github.com/lindb/lindb/verifharness/sim/ev"
)

var spinSink atomic.Int64

func spin(n int) {
	var x int64
	for i := 0; i < n; i++ {
		x += int64(i)
	}
	spinSink.Add(x)
}

func TestConcurrentReopenSync(t *testing.T) {
	rounds, trials := 8, 400
	if os.Getenv("VERIF_TIER") == "thorough" {
		rounds, trials = 40, 1000
	}
	for round := 0; round < rounds; round++ {
		runReopenRound(t, round, trials)
	}
}

func runReopenRound(t *testing.T, round, trials int) {
	root, err := os.MkdirTemp("", "c06x-")
	if err != nil {
		t.Fatal(err)
	}
	defer os.RemoveAll(root)
	fq, err := queue.NewFanOutQueue(filepath.Join(root, "wal"), dataPageBytes)
	if err != nil {
		t.Fatal(err)
	}
	defer fq.Close()
	q := fq.Queue()
	nOthers := 1 + round%2
	var others []queue.ConsumerGroup
	for i := 0; i < nOthers; i++ {
		g, err := fq.GetOrCreateConsumerGroup(fmt.Sprintf("%d", 3+i))
		if err != nil {
			t.Fatal(err)
		}
		others = append(others, g)
	}
	b, err := fq.GetOrCreateConsumerGroup("2")
	if err != nil {
		t.Fatal(err)
	}
	next := 0 // id of the next message = its sequence
	put := func(n int) {
		for i := 0; i < n; i++ {
			if err := q.Put(stressMsg(round, next).bytes()); err != nil {
				t.Fatalf("round %d: Put #%d: %v", round, next, err)
			}
			next++
		}
	}
	consumeAll := func(g queue.ConsumerGroup, leave int64) {
		for g.ConsumedSeq() < q.AppendedSeq()-leave {
			seq := g.Consume()
			data, err := q.Get(seq)
			if err != nil || !stressMsg(round, int(seq)).matches(data) {
				t.Fatalf("round %d: group %s was handed %d (its ack %d, queue ack %d) and cannot read it byte for byte: %v",
					round, filepath.Base(g.Name()), seq, g.AcknowledgedSeq(), q.AcknowledgedSeq(), err)
			}
		}
	}
	put(3)
	// delay > 0: the ticker starts that many spins after the barrier; < 0: the opening does
	delay, step := 0, 32768
	lifted, groupFirst := 0, 0
	for trial := 0; trial < trials; trial++ {
		// group 2 drains and is stopped; the others move on
		consumeAll(b, 0)
		b.Ack(b.ConsumedSeq())
		if !b.IsEmpty() {
			t.Fatalf("round %d trial %d: harness: group 2 not empty after draining (consumed=%d ack=%d appended=%d)", round, trial, b.ConsumedSeq(), b.AcknowledgedSeq(), q.AppendedSeq())
		}
		persistedC, persistedA := b.ConsumedSeq(), b.AcknowledgedSeq()
		fq.StopConsumerGroup("2")
		put(3 + (trial+round)%3) // every other group ends above the stopped group
		minOther := q.AppendedSeq()
		for i, g := range others {
			consumeAll(g, int64((trial+i)%2))
			g.Ack(g.ConsumedSeq() - int64((trial/2+i)%2)) // >= its previous ack: it was at least at the old appended position
			if a := g.AcknowledgedSeq(); a < minOther {
				minOther = a
			}
		}
		qaBefore := q.AcknowledgedSeq()

		var start atomic.Bool
		var wg sync.WaitGroup
		var nb queue.ConsumerGroup
		var cerr error
		wg.Add(2)
		go func() { // ticker: partition.IsExpire
			defer wg.Done()
			for !start.Load() {
				runtime.Gosched()
			}
			if delay > 0 {
				spin(delay)
			}
			fq.Sync()
			q.GC()
		}()
		go func() { // write stream handler: partition.buildReplica
			defer wg.Done()
			for !start.Load() {
				runtime.Gosched()
			}
			if delay < 0 {
				spin(-delay)
			}
			nb, cerr = fq.GetOrCreateConsumerGroup("2")
		}()
		start.Store(true)
		wg.Wait()
		if cerr != nil {
			t.Fatalf("round %d trial %d: GetOrCreateConsumerGroup: %v", round, trial, cerr)
		}
		b = nb
		ba, bc, qa, app := b.AcknowledgedSeq(), b.ConsumedSeq(), q.AcknowledgedSeq(), q.AppendedSeq()
		where := fmt.Sprintf("round %d trial %d (ticker delayed by %d spins, negative: the opening): group 2 stopped at consumed=%d ack=%d, others acknowledged >= %d, queue ack %d before; Sync+GC raced its re-opening; now group 2 consumed=%d ack=%d, queue ack=%d, appended=%d",
			round, trial, delay, persistedC, persistedA, minOther, qaBefore, bc, ba, qa, app)
		if ba < persistedA || bc < persistedC {
			t.Fatalf("%s: positions did not survive", where)
		}
		if !(ba <= bc && bc <= app) {
			t.Fatalf("%s: acknowledged <= consumed <= appended violated", where)
		}
		if qa < qaBefore || qa > minOther {
			t.Fatalf("%s: queue ack moved backwards or beyond the smallest acknowledged position of the other groups", where)
		}
		if ba < qa {
			t.Fatalf("%s: the re-opened group exists below the queue-wide acknowledged position (either it existed when the queue ack moved, or it must start at the queue ack)", where)
		}
		if bc < app {
			seq := b.Consume()
			if seq != bc+1 {
				t.Fatalf("%s: Consume returned %d", where, seq)
			}
			data, err := q.Get(seq)
			if err != nil || !stressMsg(round, int(seq)).matches(data) {
				t.Fatalf("%s: handed %d, which it has not acknowledged, but cannot read it byte for byte: %v", where, seq, err)
			}
		}
		// where to search next: towards the boundary between the two orders
		if ba > persistedA {
			lifted++ // Sync came first: start the ticker later
			delay += step
		} else {
			groupFirst++ // the group was listed first: start the ticker earlier
			delay -= step
		}
		if trial%8 == 7 && step > 16 {
			step /= 2
		}
		if trial%128 == 127 {
			step = 2048 // the boundary drifts with the load of the machine
		}
	}
	ev.Case("TestConcurrentReopenSync", fmt.Sprintf("round-%d", round), lifted > 0 && groupFirst > 0, nil,
		map[string]any{"round": round, "trials": trials, "other_groups": nOthers, "sync_first": lifted, "group_first": groupFirst, "last_delay_spins": delay})
	ev.Class("TestConcurrentReopenSync", "reopen-race-trial", trials)
	ev.Class("TestConcurrentReopenSync", "reopen-race-sync-first-group-lifted-to-queue-ack", lifted)
	ev.Class("TestConcurrentReopenSync", "reopen-race-group-listed-first-queue-ack-kept", groupFirst)
}
