package c03

// Plain reproductions (no rapid) of the defects this check found on the unchanged tree.

import (
	"fmt"
	"os"
	"path/filepath"
	"testing"

	"github.com/lindb/roaring"

	"github.com/lindb/lindb/kv"
	"github.com/lindb/lindb/series/field"
	"github.com/lindb/lindb/tsdb/tblstore/metricsdata"
	"github.com/lindb/lindb/verifharness/sim/ev"
)

type regEnv struct {
	t      *testing.T
	dir    string
	store  kv.Store
	shard  *memShard
	nextID int
}

func newRegEnv(t *testing.T) *regEnv {
	t.Helper()
	dir, err := os.MkdirTemp("", "c03reg-")
	if err != nil {
		t.Fatal(err)
	}
	storePath := filepath.Join(dir, "store")
	store, err := kv.GetStoreManager().CreateStore(storePath, kv.DefaultStoreOption())
	if err != nil {
		t.Fatal(err)
	}
	e := &regEnv{t: t, dir: dir, store: store, shard: newMemShard(dir)}
	t.Cleanup(func() {
		e.shard.close()
		_ = kv.GetStoreManager().CloseStore(storePath)
		_ = os.RemoveAll(dir)
	})
	return e
}

// family creates a data family the way tsdb/segment.go does (production options).
func (e *regEnv) family(name string) kv.Family {
	e.t.Helper()
	f, err := e.store.CreateFamily(name, kv.FamilyOption{CompactThreshold: 0, Merger: string(metricsdata.MetricDataMerger)})
	if err != nil {
		e.t.Fatal(err)
	}
	return f
}

// memFlush writes the rows into a fresh memory database of the family time and flushes it into the kv family.
func (e *regEnv) memFlush(f kv.Family, familyTime int64, rows ...memRow) {
	e.t.Helper()
	mdb, err := e.shard.newDB(familyTime)
	if err != nil {
		e.t.Fatal(err)
	}
	for _, r := range rows {
		if err := e.shard.write(mdb, simpleRow(r.Metric, r.Series, familyTime, r.Slot, r.Fields, r.Types)); err != nil {
			e.t.Fatal(err)
		}
	}
	if err := e.shard.flush(mdb, f); err != nil {
		e.t.Fatalf("memdb flush: %v", err)
	}
}

type memRow struct {
	Metric uint32
	Series uint32
	Slot   uint16
	Fields map[field.ID]float64
	Types  map[field.ID]field.Type
}

func multiFieldQuery(t *testing.T, f kv.Family, metricID uint32, fields field.Metas, series ...uint32) map[pointKey][]float64 {
	t.Helper()
	snap := f.GetSnapshot()
	defer snap.Close()
	readers, err := openMetricReaders(snap, metricID)
	if err != nil {
		t.Fatal(err)
	}
	out := map[pointKey][]float64{}
	if err := loadPoints(metricID, readers, fields, roaring.BitmapOf(series...), out); err != nil {
		t.Fatal(err)
	}
	return out
}

func skipIfKnown(t *testing.T, sig, what string) {
	t.Helper()
	if ev.Known(sig) {
		ev.KnownFinding("C03", sig+": "+what)
		t.Skipf("listed in known_findings.json: %s", sig)
	}
}

var sumTypes = map[field.ID]field.Type{0: field.SumField, 1: field.SumField}

// A metric has the fields f0 (id 0) and f1 (id 1). One memory database only receives f1 (for
// instance the first rows after a restart), so its flush declares the single field f1. A query
// `select f0, f1` reads that block through metricReader.readSeriesData, which passes query
// field index 0 for every single-field block: the values of f1 are delivered as f0.
// After the file is compacted together with a file that declares both fields, the same query
// shows them under f1: compaction changed what the reader observes.
// tsdb/tblstore/metricsdata/reader.go readSeriesData, `if fieldCount == 1 { ... DownSampling(r.timeRange, seriesIdx, 0, decoder)`.
func TestRegression_SingleFieldBlockReadByMultiFieldQuery(t *testing.T) {
	skipIfKnown(t, SigSingleFieldBlock, "a metric block declaring one field is read under query field index 0 by a multi-field query")
	e := newRegEnv(t)
	fam := e.family("1")
	ft := scFamilyTime
	// file 1: only f1 written
	e.memFlush(fam, ft, memRow{Metric: 1, Series: 0, Slot: 5, Fields: map[field.ID]float64{1: 1.5}, Types: sumTypes})
	query := queryFields(map[field.ID]field.Type{0: field.SumField, 1: field.SumField})
	want := pointKey{Metric: 1, Series: 0, Field: 1, Slot: 5}
	before := multiFieldQuery(t, fam, 1, query, 0)
	if vs := before[want]; len(before) != 1 || len(vs) != 1 || vs[0] != 1.5 {
		t.Errorf("before compaction: select f0,f1 shows %v, want only %s = [1.5]", before, want)
	}
	// file 2: both fields written, other slot; then compact (Family.Compact guard: > 1 level-0 file)
	e.memFlush(fam, ft, memRow{Metric: 1, Series: 0, Slot: 6, Fields: map[field.ID]float64{0: 0.25, 1: 0.5}, Types: sumTypes})
	beforeCompact := multiFieldQuery(t, fam, 1, query, 0)
	if ran, err := kv.VerifCompactSync(fam, true); err != nil || !ran {
		t.Fatalf("compaction: ran=%v err=%v", ran, err)
	}
	after := multiFieldQuery(t, fam, 1, query, 0)
	if a, b := canonPoints(beforeCompact), canonPoints(after); a != b {
		t.Errorf("the same query shows different cells before and after compaction\nbefore:\n%safter:\n%s", a, b)
	}
}

// The same block shape produced by the harness builder (no memdb involved), read directly.
func TestRegression_SingleFieldBlockReadByMultiFieldQuery_Builder(t *testing.T) {
	skipIfKnown(t, SigSingleFieldBlock, "a metric block declaring one field is read under query field index 0 by a multi-field query")
	e := newRegEnv(t)
	fam := e.family("1")
	spec := &fileSpec{Metrics: []*fileMetric{{
		ID: 1, Fields: []fieldDef{{ID: 1, Type: field.SumField}}, Series: []uint32{0},
		Data: map[uint32]map[field.ID]map[uint16]float64{0: {1: {5: 1.5}}},
	}}}
	if err := writeFile(fam, spec); err != nil {
		t.Fatal(err)
	}
	query := queryFields(map[field.ID]field.Type{0: field.SumField, 1: field.SumField})
	got := multiFieldQuery(t, fam, 1, query, 0)
	want := pointKey{Metric: 1, Series: 0, Field: 1, Slot: 5}
	if vs := got[want]; len(got) != 1 || len(vs) != 1 || vs[0] != 1.5 {
		t.Errorf("select f0,f1 shows %v, want only %s = [1.5]", got, want)
	}
}

// Series 0 of a single-field metric was written in an earlier hour, so the shard's memory index
// knows it. In the next hour only series 65536 (next roaring container) is written. The flush of
// that hour walks every series of the index, writes an empty entry for series 0, and
// flusher.flushLevel2SeriesBucket writes nothing for a container whose entries are all empty.
// Queries cope with that, but the merger's dataScanner.nextContainer rejects the block
// ("series entries length too short: 0"): every compaction of that family fails from then on,
// its level-0 files pile up for ever.
// tsdb/tblstore/metricsdata/reader.go nextContainer / flusher.go flushLevel2SeriesBucket.
func TestRegression_CompactionFailsOnContainerWithoutData(t *testing.T) {
	skipIfKnown(t, SigEmptyBucket, "compaction fails on a single-field block whose roaring container holds only series without data")
	e := newRegEnv(t)
	hour1, hour2 := e.family("1"), e.family("2")
	ft1, ft2 := scFamilyTime, scFamilyTime+3_600_000
	types := map[field.ID]field.Type{0: field.SumField}
	e.memFlush(hour1, ft1, memRow{Metric: 1, Series: 0, Slot: 1, Fields: map[field.ID]float64{0: 1}, Types: types})
	e.memFlush(hour2, ft2, memRow{Metric: 1, Series: 65536, Slot: 1, Fields: map[field.ID]float64{0: 2}, Types: types})
	e.memFlush(hour2, ft2, memRow{Metric: 1, Series: 65536, Slot: 2, Fields: map[field.ID]float64{0: 4}, Types: types})
	query := queryFields(types)
	before := multiFieldQuery(t, hour2, 1, query, 0, 65536)
	if ran, err := kv.VerifCompactSync(hour2, true); err != nil || !ran {
		t.Fatalf("compaction of the second hour: ran=%v err=%v", ran, err)
	}
	after := multiFieldQuery(t, hour2, 1, query, 0, 65536)
	if a, b := canonPoints(before), canonPoints(after); a != b {
		t.Errorf("cells before and after compaction differ\nbefore:\n%safter:\n%s", a, b)
	}
}

// The same block shape produced by the harness builder.
func TestRegression_CompactionFailsOnContainerWithoutData_Builder(t *testing.T) {
	skipIfKnown(t, SigEmptyBucket, "compaction fails on a single-field block whose roaring container holds only series without data")
	e := newRegEnv(t)
	fam := e.family("1")
	for slot := uint16(1); slot <= 2; slot++ {
		spec := &fileSpec{Metrics: []*fileMetric{{
			ID: 1, Fields: []fieldDef{{ID: 0, Type: field.SumField}}, Series: []uint32{0, 65536},
			Data: map[uint32]map[field.ID]map[uint16]float64{65536: {0: {slot: 2}}},
		}}}
		if err := writeFile(fam, spec); err != nil {
			t.Fatal(err)
		}
	}
	if ran, err := kv.VerifCompactSync(fam, true); err != nil || !ran {
		t.Fatalf("compaction: ran=%v err=%v", ran, err)
	}
}

// Not a C03 matter (observed while proving the block builder against memdb; reported so it is
// not lost): memdb.write sets the page's end marker to the delta of the slot just written
// (`buf[endOffset] = byte(delta)`) instead of the maximum, so writing slot 0, slot 3 and then
// slot 1 of the same series/field forgets slot 3 at flush time (getCurrentValue ignores slots
// beyond the end marker). Only runs with VERIF_SIDE=1.
func TestSideFinding_MemdbLaterSlotLostAfterEarlierWrite(t *testing.T) {
	if os.Getenv("VERIF_SIDE") == "" {
		t.Skip("side finding outside property C03; set VERIF_SIDE=1 to run")
	}
	e := newRegEnv(t)
	fam := e.family("1")
	types := map[field.ID]field.Type{0: field.SumField}
	row := func(slot uint16, v float64) memRow {
		return memRow{Metric: 1, Series: 0, Slot: slot, Fields: map[field.ID]float64{0: v}, Types: types}
	}
	e.memFlush(fam, scFamilyTime, row(0, 1), row(3, 2), row(1, 4))
	got := multiFieldQuery(t, fam, 1, queryFields(types), 0)
	want := map[uint16]float64{0: 1, 1: 4, 3: 2}
	for slot, v := range want {
		k := pointKey{Metric: 1, Series: 0, Field: 0, Slot: slot}
		if vs := got[k]; len(vs) != 1 || vs[0] != v {
			t.Errorf("%s: flushed %v, written %v", k, vs, v)
		}
	}
	if len(got) != len(want) {
		t.Errorf("flushed cells: %s", fmt.Sprint(got))
	}
}
