package c03

// Readers that keep their snapshot OPEN across compactions (and the other jobs that install a new
// version of the family).
//
// The statement of C03 is about what ANY reader observes: a query takes Family.GetSnapshot() when it
// starts and loads blocks through it until it ends; a compaction, a flush commit or the rollup
// bookkeeping of the same family may install any number of new versions in between, remove the
// input tables of the versions nobody reads any more and evict readers from the cache. The version
// of an open snapshot is read-only by convention (kv/version/snapshot.go FindReaders: "current
// version is readonly, if modify version will clone a new one"), so the reader must see exactly
// what it saw when it took the snapshot - decoded down to (metric, series, field, slot) - until it
// closes it.
//
// Held snapshots are first-class objects of the history generator here: a history is a drawn
// sequence over
//
//	flush            a generated file through the production metricsdata flusher + kv flusher commit
//	compact          kv.VerifCompactSync (Family.Compact guard or the periodic guard), incl. the
//	                 obsolete-file pass that ends the job; merges with and without level-1 inputs,
//	                 split outputs, trivial moves
//	round            1-2 flushes and a compaction (Family.Compact guard) as one step: several
//	                 compactions fit into the life of one held snapshot
//	hold             take Family.GetSnapshot(), read everything through it (first observation, judged
//	                 against the model), keep it open; the model is frozen with it
//	read             read everything again through ONE held snapshot
//	release          close one held snapshot
//	obsolete-pass    kv.VerifDeleteObsoleteFiles
//	cache-cleanup    kv.VerifCacheCleanup (reader cache TTL 1 h or already expired)
//	rollup-goroutine kv.VerifRollup + wait: rollup bookkeeping edit logs of the source family (target
//	                 store none / closed / open = a real rollup), ends with the obsolete-file pass
//	store-tick       the periodic store job (compaction done synchronously first, see storeTick)
//	reopen           every held snapshot is read a last time and closed, then close + open
//
// Oracle, at EVERY step for EVERY held snapshot that is still open (the step that was just run may
// be any of the above): the complete observation through the held snapshot is identical to its
// first observation (same cells with the same multiset of values per cell, same series / fields /
// slot range per metric, same files in the same levels) and equals the model frozen when it was
// taken; every table of its version is on disk and is reported by FamilyVersion.GetAllActiveFiles()
// (the set the obsolete-file pass keeps). Fresh readers are judged by env.flush / env.compact as in
// TestCompactionKeepsObservations.

import (
	"fmt"
	"os"
	"path/filepath"
	"sort"
	"strings"
	"testing"
	"time"

	"github.com/lindb/common/pkg/ltoml"
	"pgregory.net/rapid"

	"github.com/lindb/lindb/kv"
	"github.com/lindb/lindb/kv/table"
	"github.com/lindb/lindb/kv/version"
	"github.com/lindb/lindb/pkg/timeutil"
	"github.com/lindb/lindb/series/field"
	"github.com/lindb/lindb/tsdb/tblstore/metricsdata"
	"github.com/lindb/lindb/verifharness/sim/ev"
)

const heldGroup = "TestCompactionHeldSnapshots"

var heldOps = []string{
	"flush", "flush", "flush", "flush", "flush", "flush",
	"compact", "compact", "compact", "compact",
	"round", "round", "round",
	"hold", "hold", "hold", "hold",
	"read", "read",
	"release",
	"obsolete-pass", "cache-cleanup", "rollup-goroutine", "store-tick", "reopen",
}

// heldSnapshot is one reader that keeps its snapshot open.
type heldSnapshot struct {
	no        int
	snap      version.Snapshot
	takenAt   int // step number
	nFiles    int // files flushed when it was taken: the frozen model is modelOf(files[:nFiles])
	model     *state
	exact     bool // no compaction had changed the files when it was taken: every file shows what was written into it
	first     *state
	firstLay  *layout
	firstText string
	// what happened while it was open
	merges, mergesWithLevel1, splitMerges, moves, jobs, flushes, rollups, passes, reads int
	readsAfterMerge                                                                int
}

func (h *heldSnapshot) String() string {
	return fmt.Sprintf("held snapshot #%d (taken at step %d over %d flushed file(s), version %d: files %v; since then %d compaction(s) that changed the files of the family, %d merge(s) of its own files [%d with level-1 inputs, %d split], %d trivial move(s), %d flush(es), %d rollup job(s), %d obsolete-file pass(es))",
		h.no, h.takenAt, h.nFiles, h.snap.GetCurrent().ID(), h.firstLay.FileLevel, h.jobs, h.merges, h.mergesWithLevel1, h.splitMerges, h.moves, h.flushes, h.rollups, h.passes)
}

type heldEnv struct {
	*env
	targetPath string
	storeOpt   kv.StoreOption
	rollupCfg  string
	target     kv.Store
	files      []*fileSpec
	held       []*heldSnapshot // open ones
	nextNo     int
	step       int
	counts     map[string]int
	nt         bool
}

func (c *heldEnv) open() {
	s, err := kv.GetStoreManager().CreateStore(c.storePath, c.storeOpt)
	if err != nil {
		c.fatalf("open store: %v", err)
	}
	c.store = s
	f := s.GetFamily(nestedFamilyName)
	if f == nil {
		if f, err = s.CreateFamily(nestedFamilyName, c.famOpt); err != nil {
			c.fatalf("create family: %v", err)
		}
	}
	c.family = f
}

func (c *heldEnv) waitFamilyIdle() {
	kv.VerifWaitIdle(c.family)
	for !kv.VerifRollupIdle(c.family) {
		time.Sleep(50 * time.Microsecond)
	}
}

func (c *heldEnv) fieldsOfSchema(id uint32) field.Metas {
	defs := map[field.ID]field.Type{}
	for _, fd := range c.sc.Fields[id] {
		defs[fd.ID] = fd.Type
	}
	return queryFields(defs)
}

func stateText(st *state) string {
	var sb strings.Builder
	sb.WriteString(canonPoints(st.Points))
	ids := make([]int, 0, len(st.Metrics))
	for id := range st.Metrics {
		ids = append(ids, int(id))
	}
	sort.Ints(ids)
	for _, id := range ids {
		mi := st.Metrics[uint32(id)]
		series := make([]int, 0, len(mi.Series))
		for s := range mi.Series {
			series = append(series, int(s))
		}
		sort.Ints(series)
		fields := make([]string, 0, len(mi.Fields))
		for f, t := range mi.Fields {
			fields = append(fields, fmt.Sprintf("%03d:%s", f, t))
		}
		sort.Strings(fields)
		fmt.Fprintf(&sb, "metric %d: blocks %d range %v series %v fields %v\n", id, mi.Files, mi.Range, series, fields)
	}
	return sb.String()
}

// readThrough reads everything one held snapshot shows.
func (c *heldEnv) readThrough(h *heldSnapshot, when string) (*state, *layout) {
	st, lay, err := observeSnapshot(h.snap, c.sc.Metrics, c.fieldsOfSchema, c.querySeries(), ev.Known(SigSingleFieldBlock))
	if err != nil {
		c.fatalf("%s: reading through %s failed: %v", when, h, err)
	}
	return st, lay
}

func (c *heldEnv) hold() {
	h := &heldSnapshot{no: c.nextNo, takenAt: c.step, nFiles: len(c.files), exact: !c.compacted}
	c.nextNo++
	h.snap = c.family.GetSnapshot()
	h.model = modelOf(c.files)
	c.held = append(c.held, h)
	h.first, h.firstLay = c.readThrough(h, "right after it was taken")
	h.firstText = stateText(h.first)
	if err := compareStates(h.model, h.first, c.sc.typeOf, h.exact, "model", "reader"); err != nil {
		c.fatalf("a reader that just took its snapshot differs from the model:\n  %v", err)
	}
	c.history = append(c.history, fmt.Sprintf("hold #%d (version %d, files %v)", h.no, h.snap.GetCurrent().ID(), h.firstLay.FileLevel))
}

// judgeHeld reads through one held snapshot again and compares with its first observation and frozen model.
func (c *heldEnv) judgeHeld(h *heldSnapshot, when string) {
	got, lay := c.readThrough(h, when)
	h.reads++
	c.counts["held-reads"]++
	if h.merges > 0 {
		h.readsAfterMerge++
		c.counts["held-reads-after-a-merge-of-its-files"]++
	}
	if err := compareStates(h.first, got, c.sc.typeOf, true, "its first read", "its read now"); err != nil {
		c.fatalf("%s: a reader that kept its snapshot open observes something else than when it took it\n  %s:\n  %v", when, h, err)
	}
	if !sameFiles(h.firstLay, lay) {
		c.fatalf("%s: the version of %s now holds files %v, it held %v when the snapshot was taken (a version is read-only once installed)",
			when, h, lay.FileLevel, h.firstLay.FileLevel)
	}
	if err := compareStates(h.model, got, c.sc.typeOf, h.exact, "model frozen at the snapshot", "its read now"); err != nil {
		c.fatalf("%s: a reader that kept its snapshot open differs from the model frozen when it took it\n  %s:\n  %v", when, h, err)
	}
	if text := stateText(got); text != h.firstText {
		c.fatalf("%s: a reader that kept its snapshot open observes something else than when it took it\n  %s\nfirst read:\n%snow:\n%s", when, h, h.firstText, text)
	}
	// the tables of its version: on disk and reported as active (what the obsolete-file pass keeps)
	active := map[int64]bool{}
	if fv, ok := kv.VerifFamilyVersion(c.family).(version.FamilyVersion); ok {
		for _, fm := range fv.GetAllActiveFiles() {
			active[fm.GetFileNumber().Int64()] = true
		}
	} else {
		c.fatalf("harness: family version not accessible")
	}
	for _, f := range h.firstLay.Files {
		if !active[f.Number] {
			c.fatalf("%s: table %d (level %d, keys %d..%d) of %s is not among FamilyVersion.GetAllActiveFiles() %v although the snapshot is open: the obsolete-file pass may remove it",
				when, f.Number, f.Level, f.Min, f.Max, h, keysOf(active))
		}
		name := filepath.Join(c.storePath, nestedFamilyName, version.Table(table.FileNumber(f.Number)))
		if _, err := os.Stat(name); err != nil {
			c.fatalf("%s: table %d (level %d, keys %d..%d) of %s is gone from the disk: %v", when, f.Number, f.Level, f.Min, f.Max, h, err)
		}
	}
}

func keysOf(m map[int64]bool) []int64 {
	out := make([]int64, 0, len(m))
	for k := range m {
		out = append(out, k)
	}
	sort.Slice(out, func(i, j int) bool { return out[i] < out[j] })
	return out
}

func (c *heldEnv) judgeAllHeld(when string) {
	for _, h := range c.held {
		c.judgeHeld(h, when)
	}
}

func (c *heldEnv) release(i int, when string) {
	h := c.held[i]
	h.snap.Close()
	c.held = append(c.held[:i], c.held[i+1:]...)
	c.history = append(c.history, fmt.Sprintf("release #%d (%s)", h.no, when))
	// evidence: what this reader lived through
	c.counts["held-snapshots"]++
	if h.merges > 0 && h.readsAfterMerge > 0 {
		c.counts["held-over-a-merge-of-its-files"]++
		c.classes["snapshot-held-over-a-merge-of-its-files"] = true
	}
	if h.merges >= 2 {
		c.classes["snapshot-held-over-2+-merges-of-its-files"] = true
		c.counts["held-over-2+-merges-of-its-files"]++
	}
	if h.jobs >= 2 {
		c.classes["snapshot-held-over-2+-compactions"] = true
		c.counts["held-over-2+-compactions"]++
	}
	if h.jobs >= 3 {
		c.classes["snapshot-held-over-3+-compactions"] = true
		c.counts["held-over-3+-compactions"]++
	}
	if h.mergesWithLevel1 > 0 {
		c.classes["snapshot-held-over-a-merge-with-level1-inputs"] = true
		c.counts["held-over-a-merge-with-level1-inputs"]++
	}
	if h.splitMerges > 0 {
		c.classes["snapshot-held-over-a-split-merge"] = true
	}
	if h.moves > 0 {
		c.classes["snapshot-held-over-a-trivial-move"] = true
	}
	if h.flushes > 0 {
		c.classes["snapshot-held-over-a-flush"] = true
	}
	if h.rollups > 0 {
		c.classes["snapshot-held-over-a-rollup-job"] = true
	}
	if h.passes > 0 {
		c.classes["snapshot-held-over-an-obsolete-file-pass"] = true
	}
	if h.merges > 0 && h.readsAfterMerge > 0 {
		c.nt = true // a reader from before a merge of its files read them afterwards
		for _, vs := range h.first.Points {
			if len(vs) > 1 {
				c.classes["snapshot-held-over-a-merge-of-its-files-sharing-a-cell"] = true
				break
			}
		}
	}
}

// heldCompact is env.compact plus the bookkeeping of what the open snapshots lived through.
func (c *heldEnv) heldCompact(force bool) {
	snap := c.family.GetSnapshot()
	before := &layout{FileLevel: map[int64]int{}}
	for level := 0; level < 2; level++ {
		for _, fm := range snap.GetCurrent().GetFiles(level) {
			before.FileLevel[fm.GetFileNumber().Int64()] = level
			if level == 0 {
				before.Level0++
			} else {
				before.Level1++
			}
		}
	}
	snap.Close()
	c.env.compact(force)
	snap = c.family.GetSnapshot()
	now := map[int64]int{}
	for level := 0; level < 2; level++ {
		for _, fm := range snap.GetCurrent().GetFiles(level) {
			now[fm.GetFileNumber().Int64()] = level
		}
	}
	snap.Close()
	added := 0
	for fn := range now {
		if _, ok := before.FileLevel[fn]; !ok {
			added++
		}
	}
	changedFiles := fmt.Sprint(now) != fmt.Sprint(before.FileLevel)
	for _, h := range c.held {
		if changedFiles {
			h.jobs++
		}
		// what the job did to the files of THIS reader's version
		removed, removedL1, moved := 0, 0, 0
		for fn, lvl := range h.firstLay.FileLevel {
			nl, live := now[fn]
			_, wasLive := before.FileLevel[fn]
			switch {
			case wasLive && !live:
				removed++
				if lvl == 1 {
					removedL1++
				}
			case wasLive && live && nl != before.FileLevel[fn]:
				moved++
			}
		}
		switch {
		case removed > 0:
			h.merges++
			if removedL1 > 0 {
				h.mergesWithLevel1++
			}
			if added > 1 {
				h.splitMerges++
			}
		case moved > 0:
			h.moves++
		}
		h.passes++ // the job ends with the obsolete-file pass
	}
}

// storeTick: the periodic job of the store. Its compaction part runs on a goroutine of its own whose
// "compacting" flag is cleared after the wait group is released; to keep the history a function of
// the seed the compaction the tick would start is run synchronously first (same guard), the tick
// then does the rollup check (goroutine, waited for) and the reader-cache cleanup.
func (c *heldEnv) storeTick() {
	c.heldCompact(false)
	kv.VerifStoreCompact(c.store)
	c.waitFamilyIdle()
	for _, h := range c.held {
		h.rollups++
	}
}

func (c *heldEnv) level0() int {
	snap := c.family.GetSnapshot()
	defer snap.Close()
	return snap.GetCurrent().NumberOfFilesInLevel(0)
}

func (c *heldEnv) closeTarget() {
	if c.target != nil {
		if err := kv.GetStoreManager().CloseStore(c.targetPath); err != nil {
			c.fatalf("close target store: %v", err)
		}
		c.target = nil
	}
}

func runHeldCase(t *rapid.T) {
	dir, err := os.MkdirTemp("", "c03h-")
	if err != nil {
		t.Fatalf("harness: %v", err)
	}
	base := filepath.Join(dir, "db", "shard", "1", "segment")
	e := &env{t: t, dir: dir, storePath: filepath.Join(base, "day", "20190702"), model: newState(), classes: map[string]bool{}}
	c := &heldEnv{env: e, targetPath: filepath.Join(base, "month", "201907"), counts: map[string]int{}}
	defer func() {
		for _, h := range c.held {
			h.snap.Close()
		}
		if e.family != nil {
			c.waitFamilyIdle()
		}
		if c.target != nil {
			_ = kv.GetStoreManager().CloseStore(c.targetPath)
		}
		if e.store != nil {
			_ = kv.GetStoreManager().CloseStore(e.storePath)
		}
		_ = os.RemoveAll(dir)
	}()

	e.sc = genSchemaOf(t, subset(t, "metrics", metricPool, 1, 3))
	e.famOpt = kv.FamilyOption{
		Merger:           string(metricsdata.MetricDataMerger),
		CompactThreshold: rapid.SampledFrom([]int{0, 0, 1, 2}).Draw(t, "compactThreshold"),
		MaxFileSize:      rapid.SampledFrom([]uint32{0, 0, 1, 150, 400}).Draw(t, "maxFileSize"),
		RollupThreshold:  rapid.SampledFrom([]int{1, 1, 0}).Draw(t, "rollupThreshold"),
	}
	c.storeOpt = kv.DefaultStoreOption()
	c.rollupCfg = rapid.SampledFrom([]string{"none", "none", "target-closed", "target-open", "target-open"}).Draw(t, "rollup")
	if c.rollupCfg != "none" {
		c.storeOpt.Source = nestedSourceInterval
		c.storeOpt.Rollup = []timeutil.Interval{nestedTargetInterval}
	}
	if rapid.Bool().Draw(t, "cacheTTLExpired") {
		// stand-in for elapsed time: every unreferenced reader counts as expired. No oracle depends on it.
		c.storeOpt.TTL = ltoml.Duration(-time.Hour)
		c.classes["reader-cache-ttl-expired"] = true
	}
	if c.rollupCfg == "target-open" {
		for _, m := range e.sc.Metrics {
			e.sc.hot[m] = [2]int{rapid.IntRange(0, 16).Draw(t, "hotBase"), rapid.IntRange(1, 12).Draw(t, "hotWidth")}
		}
	}
	// the files of the history are generated up front: a real rollup reads the level-0 files as an
	// hour of 10 s slots, the target store is only opened when no flushed slot lies beyond it
	pool := make([]*fileSpec, rapid.IntRange(4, 10).Draw(t, "filePool"))
	for i := range pool {
		pool[i] = genFile(t, e.sc, i)
	}
	if c.rollupCfg == "target-open" {
		for _, f := range pool {
			for _, m := range f.Metrics {
				if r, has := m.slotRange(); has && int(r.End) >= nestedSlotsPerFamily {
					c.rollupCfg = "target-closed"
				}
			}
		}
		if c.rollupCfg == "target-closed" {
			c.classes["target-store-kept-closed-slots-beyond-the-family"] = true
		}
	}
	c.open()
	if c.rollupCfg == "target-open" {
		ts, err := kv.GetStoreManager().CreateStore(c.targetPath, kv.DefaultStoreOption())
		if err != nil {
			c.fatalf("open target store: %v", err)
		}
		c.target = ts
	}
	c.classes["rollup:"+c.rollupCfg] = true

	var canon strings.Builder
	fmt.Fprintf(&canon, "opt=%d/%d/%d/%s/%v;", e.famOpt.CompactThreshold, e.famOpt.MaxFileSize, e.famOpt.RollupThreshold, c.rollupCfg, c.storeOpt.TTL)
	nSteps := rapid.IntRange(6, 18).Draw(t, "steps")
	for c.step = 1; c.step <= nSteps; c.step++ {
		op := rapid.SampledFrom(heldOps).Draw(t, "op")
		// steer towards the shape that matters: files to merge and a reader from before
		if len(c.files) < 2 && c.step <= 2 {
			op = "flush"
		}
		if c.step == 3 && len(c.held) == 0 && rapid.IntRange(0, 3).Draw(t, "earlyReader") > 0 {
			op = "hold" // a reader from before anything was compacted, over >= 2 level-0 files
		}
		if op == "compact" && c.level0() == 0 {
			op = "round" // nothing to compact: give the job something to do
		}
		if (op == "flush" || op == "round") && len(c.files) == len(pool) {
			op = "compact"
		}
		if (op == "read" || op == "release") && len(c.held) == 0 {
			op = "hold"
		}
		if op == "hold" && len(c.held) >= 3 {
			op = "read"
		}
		if op == "reopen" && rapid.IntRange(0, 2).Draw(t, "reallyReopen") > 0 {
			op = "compact"
		}
		when := fmt.Sprintf("step %d (%s)", c.step, op)
		switch op {
		case "flush":
			f := pool[len(c.files)]
			e.flush(f)
			c.files = append(c.files, f)
			for _, h := range c.held {
				h.flushes++
			}
			fmt.Fprintf(&canon, "F:%s;", f.String())
		case "round":
			n := rapid.IntRange(1, 2).Draw(t, "roundFiles")
			for i := 0; i < n && len(c.files) < len(pool); i++ {
				f := pool[len(c.files)]
				e.flush(f)
				c.files = append(c.files, f)
				for _, h := range c.held {
					h.flushes++
				}
				fmt.Fprintf(&canon, "F:%s;", f.String())
				c.judgeAllHeld(when + " after its flush")
			}
			c.heldCompact(true)
			canon.WriteString("Ctrue;")
		case "compact":
			force := rapid.IntRange(0, 3).Draw(t, "force") > 0
			c.heldCompact(force)
			fmt.Fprintf(&canon, "C%v;", force)
		case "hold":
			c.hold()
			canon.WriteString("H;")
		case "read":
			i := rapid.IntRange(0, len(c.held)-1).Draw(t, "which")
			e.history = append(e.history, fmt.Sprintf("read #%d", c.held[i].no))
			c.judgeHeld(c.held[i], when)
			fmt.Fprintf(&canon, "r%d;", i)
		case "release":
			i := rapid.IntRange(0, len(c.held)-1).Draw(t, "which")
			c.judgeHeld(c.held[i], when+" right before its release")
			c.release(i, "drawn")
			fmt.Fprintf(&canon, "x%d;", i)
		case "obsolete-pass":
			e.history = append(e.history, op)
			kv.VerifDeleteObsoleteFiles(c.family)
			for _, h := range c.held {
				h.passes++
			}
			canon.WriteString("O;")
		case "cache-cleanup":
			e.history = append(e.history, op)
			kv.VerifCacheCleanup(c.store)
			canon.WriteString("E;")
		case "rollup-goroutine":
			e.history = append(e.history, op)
			kv.VerifRollup(c.family)
			c.waitFamilyIdle()
			for _, h := range c.held {
				h.rollups++
				h.passes++
			}
			got, _ := e.observe()
			e.checkAgainstModel(got, "after the rollup job of the family")
			canon.WriteString("U;")
		case "store-tick":
			e.history = append(e.history, op)
			c.storeTick()
			got, _ := e.observe()
			e.checkAgainstModel(got, "after the periodic job of the store")
			canon.WriteString("T;")
		case "reopen":
			c.judgeAllHeld(when + " before the snapshots are closed for the reopen")
			for len(c.held) > 0 {
				c.release(0, "reopen")
			}
			e.history = append(e.history, "reopen")
			c.closeTarget()
			e.close()
			c.open()
			if c.rollupCfg == "target-open" {
				ts, err := kv.GetStoreManager().CreateStore(c.targetPath, kv.DefaultStoreOption())
				if err != nil {
					c.fatalf("open target store: %v", err)
				}
				c.target = ts
			}
			got, _ := e.observe()
			e.checkAgainstModel(got, "after reopen")
			c.classes["reopen"] = true
			canon.WriteString("R;")
		}
		c.classes["op:"+op] = true
		c.counts["op:"+op]++
		// every reader that is still open, after whatever the step was
		c.judgeAllHeld("after " + when)
	}
	// the end of the long running queries: a last read each, then the tables nobody needs may go
	c.judgeAllHeld("at the end of the history")
	for len(c.held) > 0 {
		c.release(0, "end")
	}
	kv.VerifDeleteObsoleteFiles(c.family)
	got, _ := e.observe()
	e.checkAgainstModel(got, "after every snapshot was closed and the obsolete-file pass ran")
	c.closeTarget()
	e.close()

	classes := make([]string, 0, len(e.classes))
	for cl, on := range e.classes {
		if on {
			classes = append(classes, cl)
		}
	}
	sort.Strings(classes)
	ev.Case(heldGroup, canon.String(), c.nt, classes, map[string]any{
		"familyOption": fmt.Sprintf("%+v", e.famOpt), "history": e.history, "nonTrivial": c.nt, "counts": c.counts,
	})
	for k, n := range c.counts {
		ev.Class(heldGroup, "total:"+k, n)
	}
}

// TestCompactionHeldSnapshots: see the head of this file.
func TestCompactionHeldSnapshots(t *testing.T) {
	rapid.Check(t, runHeldCase)
}
