package c03

// Plain reproduction (no rapid) of the defect TestCompactionCommitWindows found on the unchanged tree.

import (
	"os"
	"path/filepath"
	"testing"

	"github.com/lindb/roaring"

	"github.com/lindb/lindb/kv"
	"github.com/lindb/lindb/kv/version"
	"github.com/lindb/lindb/series/field"
	"github.com/lindb/lindb/tsdb/tblstore/metricsdata"
)

// Two flushed files hold series 1 of metric 1 (sum field 0, slot 5: 1.5 and 2.25). The compaction
// merges them and writes its edit log ("delete files 4 and 5 of level 0, add file 6 to level 1")
// into the manifest writer; the fsync of the manifest reports an I/O error AFTER the record was
// handed to the kernel (bufioEntryWriter.Sync = bufio flush, then file.Sync).
//
// StoreVersionSet.CommitFamilyEditLog returns the error without installing the new version, the
// job fails (or, before the result of commitEditLog was looked at, "succeeds"), removes its outputs
// from the pending set and family.deleteObsoleteFiles deletes file 6: memory says "files 4 and 5",
// and reads are right. But the record stays in the manifest and every later record is appended
// behind it. After a close + reopen (or a crash) the replay installs file 6 - which no longer
// exists - and drops files 4 and 5, which the first obsolete-file pass then deletes:
// `open .../000006.sst: no such file or directory`, the data of the family is lost.
// If a second compaction ran in between, its output and the dead file 6 are both installed.
//
// kv/version/version_set.go CommitFamilyEditLog: persistEditLogs fails -> return; the manifest
// keeps the record and stays the journal all later commits are appended to. The same holds for
// the commit of a flush. Proposed repair: proposed_fix_failed_commit_starts_new_manifest.diff.
func TestRegression_CompactionCommitSyncFailureThenReopen(t *testing.T) {
	// signature SigCommitSyncFault: repaired in /repo (fix: commit whose manifest sync fails ...); fails if the defect returns
	for _, second := range []bool{false, true} {
		name := "reopen"
		if second {
			name = "second-compaction-then-reopen"
		}
		t.Run(name, func(t *testing.T) {
			dir, err := os.MkdirTemp("", "c03reg-")
			if err != nil {
				t.Fatal(err)
			}
			defer os.RemoveAll(dir)
			storePath := filepath.Join(dir, "store")
			armed, fired := false, false
			version.VerifSetFSHookWithSyncFaults(func(string, string, bool) {}, func(op, _ string) error {
				if armed && !fired && op == "manifestSync" {
					fired = true
					return errInjected
				}
				return nil
			})
			defer version.VerifSetFSHook(nil)
			open := func() kv.Family {
				s, err := kv.GetStoreManager().CreateStore(storePath, kv.DefaultStoreOption())
				if err != nil {
					t.Fatalf("open store: %v", err)
				}
				if f := s.GetFamily("1"); f != nil {
					return f
				}
				f, err := s.CreateFamily("1", kv.FamilyOption{Merger: string(metricsdata.MetricDataMerger)})
				if err != nil {
					t.Fatal(err)
				}
				return f
			}
			fam := open()
			closed := false
			defer func() {
				if !closed {
					_ = kv.GetStoreManager().CloseStore(storePath)
				}
			}()
			for _, v := range []float64{1.5, 2.25} {
				spec := &fileSpec{Metrics: []*fileMetric{{
					ID: 1, Fields: []fieldDef{{ID: 0, Type: field.SumField}}, Series: []uint32{1},
					Data: map[uint32]map[field.ID]map[uint16]float64{1: {0: {5: v}}},
				}}}
				if err := writeFile(fam, spec); err != nil {
					t.Fatal(err)
				}
			}
			query := queryFields(map[field.ID]field.Type{0: field.SumField})
			cell := pointKey{Metric: 1, Series: 1, Field: 0, Slot: 5}
			check := func(when string, f kv.Family) {
				t.Helper()
				snap := f.GetSnapshot()
				defer snap.Close()
				readers, err := openMetricReaders(snap, 1)
				if err != nil {
					t.Fatalf("%s: %v", when, err)
				}
				got := map[pointKey][]float64{}
				if err := loadPoints(1, readers, query, roaring.BitmapOf(1), got); err != nil {
					t.Fatalf("%s: %v", when, err)
				}
				if len(got) != 1 || aggregate(field.SumField, append([]float64{0}, got[cell]...)) != 3.75 {
					t.Fatalf("%s: reader shows %v, want %s with sum 3.75", when, got, cell)
				}
			}
			check("before compaction", fam)
			armed = true
			ran, err := kv.VerifCompactSync(fam, true)
			armed = false
			if !ran || !fired {
				t.Fatalf("harness: compaction ran=%v fault fired=%v err=%v", ran, fired, err)
			}
			check("after the compaction whose manifest sync failed", fam)
			if second {
				if ran, err := kv.VerifCompactSync(fam, true); err != nil || !ran {
					t.Fatalf("second compaction: ran=%v err=%v", ran, err)
				}
				check("after the second compaction", fam)
			}
			if err := kv.GetStoreManager().CloseStore(storePath); err != nil {
				t.Fatal(err)
			}
			closed = true
			fam = open()
			closed = false
			check("after close + reopen", fam)
		})
	}
}
