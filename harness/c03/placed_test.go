package c03

// Histories whose files are PLACED in the key space.
//
// The files of TestCompactionKeepsObservations take arbitrary subsets of 1-4 metrics, so nearly
// every level-0 file overlaps every level-1 file and each compaction merges everything into one
// run of key-disjoint, range-disjoint level-1 files. The statement quantifies over "every sequence
// of flush/compact steps ... with or without overlapping files one level up": a running shard
// flushes memory databases that hold only the metrics written in that window, far apart in the
// metric id space, and version.PickL0Compaction picks the level-1 inputs per level-0 FILE range.
// A compaction of a file left of and a file right of an existing level-1 file therefore leaves
// that file alone and writes an output whose [min,max] key range spans it: level-1 files are
// key-disjoint but not range-disjoint, and a reader's block lookup meets several candidate files
// per level. This generator builds such versions on purpose (rounds of 1-3 narrow flushes placed
// relative to the current level-1 files, then a compaction) and the observer repeats the block
// lookup (lookupRepeats, see model_test.go) because the file order of a level is a map order.

import (
	"fmt"
	"os"
	"path/filepath"
	"sort"
	"strings"
	"testing"

	"pgregory.net/rapid"

	"github.com/lindb/lindb/kv"
	"github.com/lindb/lindb/tsdb/tblstore/metricsdata"
	"github.com/lindb/lindb/verifharness/sim/ev"
)

// far-apart metric ids: neighbours, decades and the ends of the uint32 key space
var placedMetricPool = []uint32{0, 1, 2, 7, 8, 25, 100, 1000, 65536, 70000, 4000000000, 4294967295}

// band draws a contiguous run of 1..maxLen metrics out of the ascending candidates.
func band(t *rapid.T, lbl string, cands []uint32, maxLen int) []uint32 {
	if maxLen > len(cands) {
		maxLen = len(cands)
	}
	n := rapid.IntRange(1, maxLen).Draw(t, lbl+"bandLen")
	at := rapid.IntRange(0, len(cands)-n).Draw(t, lbl+"bandAt")
	return append([]uint32(nil), cands[at:at+n]...)
}

func metricsBelow(all []uint32, key uint32) (out []uint32) {
	for _, m := range all {
		if m < key {
			out = append(out, m)
		}
	}
	return out
}

func metricsAbove(all []uint32, key uint32) (out []uint32) {
	for _, m := range all {
		if m > key {
			out = append(out, m)
		}
	}
	return out
}

// placedRound decides the metric sets of the flushes of one round from the current level-1 files.
func placedRound(t *rapid.T, sc *schema, lay *layout, round int) (files [][]uint32, kind string) {
	lbl := fmt.Sprintf("r%d", round)
	// level-1 files that have schema metrics on both sides
	var around []fileRange
	for _, f := range lay.level1() {
		if len(metricsBelow(sc.Metrics, f.Min)) > 0 && len(metricsAbove(sc.Metrics, f.Max)) > 0 {
			around = append(around, f)
		}
	}
	place := rapid.IntRange(0, 9).Draw(t, lbl+"placement")
	switch {
	case len(lay.Files) == 0 && place < 7:
		// first round, usually: files in the middle of the key space, so that later files can land on both sides
		inner := sc.Metrics[1 : len(sc.Metrics)-1]
		n := rapid.SampledFrom([]int{1, 2, 2}).Draw(t, lbl+"flushes")
		for i := 0; i < n; i++ {
			files = append(files, band(t, fmt.Sprintf("%sm%d", lbl, i), inner, 2))
		}
		kind = "middle-bands"
	case place < 7 && len(around) > 0:
		x := around[rapid.IntRange(0, len(around)-1).Draw(t, lbl+"aroundFile")]
		left, right := metricsBelow(sc.Metrics, x.Min), metricsAbove(sc.Metrics, x.Max)
		switch rapid.IntRange(0, 9).Draw(t, lbl+"sides") {
		case 0:
			files = [][]uint32{band(t, lbl+"l", left, 2), band(t, lbl+"l2", left, 2)}
			kind = "left-left"
		case 1:
			files = [][]uint32{band(t, lbl+"r", right, 2), band(t, lbl+"r2", right, 2)}
			kind = "right-right"
		default:
			files = [][]uint32{band(t, lbl+"l", left, 2), band(t, lbl+"r", right, 2)}
			if rapid.Bool().Draw(t, lbl+"swap") {
				files[0], files[1] = files[1], files[0]
			}
			kind = "both-sides"
		}
		if rapid.IntRange(0, 4).Draw(t, lbl+"third") == 0 {
			// a third file anywhere: when it overlaps the file in the middle that file becomes an input again
			files = append(files, band(t, lbl+"x", sc.Metrics, 2))
			kind += "+any"
		}
	case place < 8:
		n := rapid.SampledFrom([]int{1, 2, 2, 2, 3}).Draw(t, lbl+"flushes")
		for i := 0; i < n; i++ {
			files = append(files, band(t, fmt.Sprintf("%sb%d", lbl, i), sc.Metrics, 2))
		}
		kind = "bands"
	default:
		n := rapid.IntRange(1, 2).Draw(t, lbl+"flushes")
		for i := 0; i < n; i++ {
			l := fmt.Sprintf("%ss%d", lbl, i)
			files = append(files, subset(t, l, sc.Metrics, 1, len(sc.Metrics)))
		}
		kind = "subsets"
	}
	return files, kind
}

func runPlacedCase(t *rapid.T) {
	const group = "TestCompactionPlacedFiles"
	dir, err := os.MkdirTemp("", "c03p-")
	if err != nil {
		t.Fatalf("harness: %v", err)
	}
	e := &env{t: t, dir: dir, storePath: filepath.Join(dir, "store"), model: newState(), classes: map[string]bool{}}
	defer func() {
		if e.store != nil {
			_ = kv.GetStoreManager().CloseStore(e.storePath)
		}
		_ = os.RemoveAll(dir)
	}()
	e.sc = genSchemaOf(t, subset(t, "metrics", placedMetricPool, 3, 6))
	e.famOpt = kv.FamilyOption{
		Merger:           string(metricsdata.MetricDataMerger),
		CompactThreshold: rapid.SampledFrom([]int{0, 0, 1, 2}).Draw(t, "compactThreshold"),
		// mostly one output file per compaction (split outputs are range-disjoint among themselves)
		MaxFileSize: rapid.SampledFrom([]uint32{0, 0, 0, 400, 1 << 20}).Draw(t, "maxFileSize"),
	}
	e.open()

	var canon strings.Builder
	fmt.Fprintf(&canon, "opt=%d/%d;", e.famOpt.CompactThreshold, e.famOpt.MaxFileSize)
	rounds := rapid.IntRange(2, 5).Draw(t, "rounds")
	fileNo := 0
	for r := 0; r < rounds; r++ {
		_, lay := e.observe()
		files, kind := placedRound(t, e.sc, lay, r)
		e.history = append(e.history, fmt.Sprintf("round %d: %s %v (level 1: %v)", r, kind, files, lay.level1()))
		e.classes["round-"+kind] = true
		for _, metrics := range files {
			f := genFileOf(t, e.sc, fileNo, metrics)
			fileNo++
			e.flush(f)
			fmt.Fprintf(&canon, "F:%s;", f.String())
		}
		last := r == rounds-1
		if last || rapid.IntRange(0, 7).Draw(t, "compactNow") > 0 {
			force := last || rapid.IntRange(0, 3).Draw(t, "force") > 0
			e.compact(force)
			fmt.Fprintf(&canon, "C%v;", force)
		}
		if rapid.IntRange(0, 9).Draw(t, "reopen") == 0 {
			e.history = append(e.history, "reopen")
			e.close()
			e.open()
			got, _ := e.observe()
			e.checkAgainstModel(got, "after reopen")
			e.classes["reopen"] = true
			canon.WriteString("R;")
		}
	}
	if rapid.Bool().Draw(t, "again") {
		e.compact(rapid.Bool().Draw(t, "againForce"))
		canon.WriteString("C2;")
	}
	e.close()

	classes := make([]string, 0, len(e.classes))
	for c := range e.classes {
		classes = append(classes, c)
	}
	sort.Strings(classes)
	ev.Case(group, canon.String(), e.nonTriv, classes, map[string]any{
		"familyOption": fmt.Sprintf("%+v", e.famOpt), "history": e.history, "nonTrivial": e.nonTriv,
	})
}

// TestCompactionPlacedFiles is the property over versions whose level-1 files overlap in key
// RANGE (not in keys): narrow flushes of far-apart metric ids placed left / right of existing
// level-1 files, compacted around them; every block lookup with more than one candidate file is
// repeated lookupRepeats times inside the snapshot.
func TestCompactionPlacedFiles(t *testing.T) {
	rapid.Check(t, runPlacedCase)
}
