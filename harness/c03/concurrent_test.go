package c03

// Compactions of DIFFERENT families running at the same time.
//
// One family runs at most one compaction job (family.compacting), but a storage node compacts
// many families at once: the periodic store job (kv store.compact) starts one goroutine per family
// that needs it, every shard has its own store, and tsdb calls Family.Compact() per data family.
// The statement "compacting a data family ... leaves the value of every (metric, series, field,
// time slot) unchanged" has no "while nothing else runs" clause, so it must hold for every family
// whatever the other families' jobs do at that moment. Whatever the merge path shares between
// jobs (pools, scratch buffers, caches, the store's manifest) is exercised only when jobs overlap
// in time, and the shared parts depend on the shape of the input (the down sampling step takes its
// target buffer from the stack up to 360 slots and from a shared pool above), so the generator
// draws 2-4 families with their own schemas and files whose union slot range per metric is
// narrow, just over 360, wide, or wide only as a union of far-apart narrow windows.
//
// The oracle is the unchanged per-family oracle (reader before == reader after == model, cell by
// cell) and is evaluated only while no job runs: it holds under every interleaving of the jobs,
// a failure can not be produced by scheduling alone. Whether two jobs really overlap is up to
// the scheduler, so this is a stress test: the detection rate per case is measured, not assumed.

import (
	"fmt"
	"os"
	"path/filepath"
	"sort"
	"strings"
	"sync"
	"testing"

	"pgregory.net/rapid"

	"github.com/lindb/roaring"

	"github.com/lindb/lindb/kv"
	"github.com/lindb/lindb/series/field"
	"github.com/lindb/lindb/tsdb/tblstore/metricsdata"
	"github.com/lindb/lindb/verifharness/sim/ev"
)

// concFamily is one family of a concurrent case with its own schema and model.
type concFamily struct {
	name      string
	storePath string
	family    kv.Family
	opt       kv.FamilyOption
	sc        *schema
	model     *state
	files     []string
	wideUnion bool // some metric's union slot range over the files is longer than 360 slots
	before    *state
	layBefore *layout
}

func (cf *concFamily) querySeries() *roaring.Bitmap {
	bm := roaring.New()
	for _, ss := range cf.sc.Series {
		bm.AddMany(ss)
	}
	bm.AddMany([]uint32{65399, 262144})
	return bm
}

func (cf *concFamily) observe() (*state, *layout, error) {
	return observeFamily(cf.family, cf.sc.Metrics, func(id uint32) field.Metas {
		defs := map[field.ID]field.Type{}
		for _, fd := range cf.sc.Fields[id] {
			defs[fd.ID] = fd.Type
		}
		return queryFields(defs)
	}, cf.querySeries(), ev.Known(SigSingleFieldBlock))
}

// genSchemaConc: 1-2 metrics, 1-2 fields each, a run of consecutive series ids (optionally
// across the 65536 container boundary).
func genSchemaConc(t *rapid.T, lbl string) *schema {
	s := &schema{Fields: map[uint32][]fieldDef{}, Series: map[uint32][]uint32{}, hot: map[uint32][2]int{}}
	s.Metrics = subset(t, lbl+"metrics", []uint32{1, 2, 70000}, 1, 2)
	for _, m := range s.Metrics {
		l := fmt.Sprintf("%sm%d", lbl, m)
		for _, id := range subset(t, l+"fieldIDs", []field.ID{0, 1, 2, 200}, 1, 2) {
			s.Fields[m] = append(s.Fields[m], fieldDef{ID: id, Type: rapid.SampledFrom(fieldTypes).Draw(t, l+"type")})
		}
		n := rapid.SampledFrom([]int{8, 40, 120, 300}).Draw(t, l+"seriesN")
		base := rapid.SampledFrom([]uint32{0, 65400, 65500}).Draw(t, l+"seriesBase")
		ids := make([]uint32, n)
		for i := range ids {
			ids[i] = base + uint32(i)
		}
		s.Series[m] = ids
	}
	return s
}

// genWindowConc draws the slot window of one metric in one file of a concurrent case.
// shape is the family level plan: 0 narrow windows close together (union <= 360 most of the time),
// 1 just over 360, 2 wide, 3 narrow windows far apart (wide only as a union).
func genWindowConc(t *rapid.T, lbl string, shape, fileNo int) (start, width int) {
	switch shape {
	case 0:
		return rapid.IntRange(0, 40).Draw(t, lbl+"start"), rapid.IntRange(1, 300).Draw(t, lbl+"width")
	case 1:
		return rapid.IntRange(0, 5).Draw(t, lbl+"start"), rapid.IntRange(355, 400).Draw(t, lbl+"width")
	case 2:
		return rapid.IntRange(0, 40).Draw(t, lbl+"start"), rapid.SampledFrom([]int{500, 720, 1000, 1440, 1800}).Draw(t, lbl+"width") - rapid.IntRange(0, 9).Draw(t, lbl+"less")
	default:
		return fileNo*rapid.SampledFrom([]int{350, 500, 900}).Draw(t, lbl+"far") + rapid.IntRange(0, 9).Draw(t, lbl+"start"), rapid.IntRange(1, 60).Draw(t, lbl+"width")
	}
}

// genFileConc generates one flushed file of a family: every metric of the schema (or a subset),
// series with data on a stride, slots on a stride inside the window; the content is a function of
// the parameters named in the label.
func genFileConc(t *rapid.T, sc *schema, lbl string, shape, fileNo int) *fileSpec {
	f := &fileSpec{}
	var label strings.Builder
	metrics := sc.Metrics
	if fileNo > 0 {
		metrics = subset(t, lbl+"metrics", sc.Metrics, 1, len(sc.Metrics))
	}
	for _, m := range metrics {
		l := fmt.Sprintf("%sm%d", lbl, m)
		fm := &fileMetric{ID: m, Data: map[uint32]map[field.ID]map[uint16]float64{}}
		fm.Fields = subset(t, l+"fields", sc.Fields[m], 1, 2)
		if len(fm.Fields) > 1 && rapid.Bool().Draw(t, l+"swap") {
			fm.Fields[0], fm.Fields[1] = fm.Fields[1], fm.Fields[0]
		}
		start, width := genWindowConc(t, l, shape, fileNo)
		seriesStride := rapid.SampledFrom([]int{1, 1, 2, 3}).Draw(t, l+"seriesStride")
		// long runs of series make the job long enough to overlap with the others; they get sparse slots
		// (the cost of the harness is proportional to the number of points, the job's to series x window)
		strides := []int{3, 7, 16, 50}
		if len(sc.Series[m]) >= 120 {
			strides = []int{50, 100, 250}
		}
		slotStride := rapid.SampledFrom(strides).Draw(t, l+"slotStride")
		seed := rapid.IntRange(0, 48).Draw(t, l+"seed")
		all := sc.Series[m]
		for i, sid := range all {
			if i%seriesStride != 0 {
				if i%2 == 1 {
					fm.Series = append(fm.Series, sid) // series of the shard index without data in this file
				}
				continue
			}
			fm.Series = append(fm.Series, sid)
			byField := map[field.ID]map[uint16]float64{}
			for fi, fd := range fm.Fields {
				if fi == 1 && sid%5 == 0 {
					continue // second field absent for some series
				}
				bySlot := map[uint16]float64{}
				for w := (int(sid) + fi) % slotStride; w < width; w += slotStride {
					sl := uint16(start + w)
					bySlot[sl] = valueAt(fd.Type, seed+int(sid%3), sl)
				}
				if i == 0 && fi == 0 {
					// the first series pins the window: memdb's metric range is the tight min/max
					bySlot[uint16(start)] = valueAt(fd.Type, seed, uint16(start))
					bySlot[uint16(start+width-1)] = valueAt(fd.Type, seed, uint16(start+width-1))
				}
				if len(bySlot) > 0 {
					byField[fd.ID] = bySlot
				}
			}
			if len(byField) > 0 {
				fm.Data[sid] = byField
			}
		}
		if len(fm.Fields) == 1 && ev.Known(SigEmptyBucket) {
			withData := map[uint32]bool{}
			for sid := range fm.Data {
				withData[sid>>16] = true
			}
			kept := fm.Series[:0]
			for _, sid := range fm.Series {
				if withData[sid>>16] {
					kept = append(kept, sid)
				}
			}
			fm.Series = kept
		}
		fmt.Fprintf(&label, "m%d[fields %v series %d+%d/%d(%d declared) slots %d+%d/%d seed %d] ",
			m, fm.Fields, all[0], len(all), seriesStride, len(fm.Series), start, width, slotStride, seed)
		f.Metrics = append(f.Metrics, fm)
	}
	f.Label = label.String()
	return f
}

// unionWiderThan360 tells whether some metric's union slot range in the model exceeds 360 slots
// and the metric sits in more than one file (only then the merge aggregates over the union).
func unionWiderThan360(st *state) bool {
	for _, mi := range st.Metrics {
		if mi.Files > 1 && int(mi.Range.End)-int(mi.Range.Start)+1 > 360 {
			return true
		}
	}
	return false
}

const (
	startBarrier       = iota // one goroutine per family released by a barrier, kv.VerifCompactSync (the job on that goroutine)
	startFamilyAPI            // Family.Compact() on every family back to back (background goroutines), then wait
	startStoreJob             // the periodic store job kv.VerifStoreCompact per store (one goroutine per family that needs it), then wait
	startOneAfterOther        // control: the same jobs one after the other
)

var firstConcFailure sync.Once

var startNames = []string{"barrier-sync-jobs", "family-compact-api", "store-periodic-job", "one-after-the-other"}

func runConcurrentCase(t *rapid.T) {
	const group = "TestConcurrentFamilyCompactions"
	dir, err := os.MkdirTemp("", "c03c-")
	if err != nil {
		t.Fatalf("harness: %v", err)
	}
	var history []string
	var opened []string
	fatalf := func(format string, args ...any) {
		t.Helper()
		msg := fmt.Sprintf(format+"\nhistory:\n  %s", append(args, strings.Join(history, "\n  "))...)
		// whether the jobs overlap again in rapid's replay of the case is up to the scheduler: the
		// first occurrence goes to stderr, so that the log shows it even when rapid calls the test flaky
		firstConcFailure.Do(func() {
			fmt.Fprintf(os.Stderr, "TestConcurrentFamilyCompactions, first failing case as it happened:\n%s\n", msg)
		})
		t.Fatalf("%s", msg)
	}
	defer func() {
		for _, p := range opened {
			_ = kv.GetStoreManager().CloseStore(p)
		}
		_ = os.RemoveAll(dir)
	}()

	nFam := rapid.SampledFrom([]int{2, 2, 3, 4}).Draw(t, "families")
	nStores := rapid.IntRange(1, 2).Draw(t, "stores")
	mode := rapid.SampledFrom([]int{startBarrier, startBarrier, startBarrier, startFamilyAPI, startFamilyAPI, startStoreJob, startStoreJob, startOneAfterOther}).Draw(t, "start")
	stores := map[string]kv.Store{}
	var storeOrder []string
	for i := 0; i < nStores; i++ {
		p := filepath.Join(dir, fmt.Sprintf("shard%d", i))
		s, err := kv.GetStoreManager().CreateStore(p, kv.DefaultStoreOption())
		if err != nil {
			fatalf("open store: %v", err)
		}
		opened = append(opened, p)
		stores[p] = s
		storeOrder = append(storeOrder, p)
	}
	var canon strings.Builder
	fmt.Fprintf(&canon, "start=%s;stores=%d;", startNames[mode], nStores)
	classes := map[string]bool{"start-" + startNames[mode]: true}
	var fams []*concFamily
	// plan of the family shapes: mostly >= 2 families whose merge works on > 360 slots
	plan := rapid.IntRange(0, 9).Draw(t, "shapePlan")
	for i := 0; i < nFam; i++ {
		lbl := fmt.Sprintf("fam%d", i)
		cf := &concFamily{name: fmt.Sprintf("2019070%d", 4+i), storePath: storeOrder[i%nStores], model: newState()}
		cf.sc = genSchemaConc(t, lbl)
		cf.opt = kv.FamilyOption{
			Merger:           string(metricsdata.MetricDataMerger),
			CompactThreshold: rapid.SampledFrom([]int{1, 2}).Draw(t, lbl+"compactThreshold"),
			MaxFileSize:      rapid.SampledFrom([]uint32{0, 0, 1 << 14}).Draw(t, lbl+"maxFileSize"),
		}
		cf.family, err = stores[cf.storePath].CreateFamily(cf.name, cf.opt)
		if err != nil {
			fatalf("create family: %v", err)
		}
		var shape int
		switch {
		case plan < 6: // every family wide in some way
			shape = rapid.IntRange(1, 3).Draw(t, lbl+"shape")
		case plan < 9: // any mix
			shape = rapid.IntRange(0, 3).Draw(t, lbl+"shape")
		default: // all narrow
			shape = 0
		}
		nFiles := rapid.IntRange(2, 3).Draw(t, lbl+"files")
		fmt.Fprintf(&canon, "family %s@%s opt=%d/%d:", cf.name, filepath.Base(cf.storePath), cf.opt.CompactThreshold, cf.opt.MaxFileSize)
		for j := 0; j < nFiles; j++ {
			f := genFileConc(t, cf.sc, fmt.Sprintf("%sf%d", lbl, j), shape, j)
			history = append(history, fmt.Sprintf("flush %s@%s: %s", cf.name, filepath.Base(cf.storePath), f.String()))
			if err := writeFile(cf.family, f); err != nil {
				fatalf("flush failed: %v", err)
			}
			cf.model.addFile(f)
			fmt.Fprintf(&canon, "F:%s;", f.String())
		}
		cf.wideUnion = unionWiderThan360(cf.model)
		fams = append(fams, cf)
	}
	// quiet: what every family shows before the jobs
	wide := 0
	for _, cf := range fams {
		cf.before, cf.layBefore, err = cf.observe()
		if err != nil {
			fatalf("reading family %s failed: %v", cf.name, err)
		}
		if err := compareStates(cf.model, cf.before, cf.sc.typeOf, true, "model", "reader"); err != nil {
			fatalf("family %s after its flushes: reader differs from the model of what was written:\n  %v", cf.name, err)
		}
		if cf.wideUnion {
			wide++
		}
	}

	// the jobs
	ran := make([]bool, len(fams))
	errs := make([]error, len(fams))
	switch mode {
	case startBarrier:
		var wg sync.WaitGroup
		barrier := make(chan struct{})
		for i, cf := range fams {
			wg.Add(1)
			go func(i int, cf *concFamily) {
				defer wg.Done()
				defer func() {
					if r := recover(); r != nil {
						errs[i] = fmt.Errorf("compaction job panicked: %v", r)
					}
				}()
				<-barrier
				ran[i], errs[i] = kv.VerifCompactSync(cf.family, true)
			}(i, cf)
		}
		close(barrier)
		wg.Wait()
	case startFamilyAPI:
		for i, cf := range fams {
			cf.family.Compact()
			ran[i] = true // more than one level-0 file: Family.Compact starts the job
		}
		for _, cf := range fams {
			kv.VerifWaitIdle(cf.family)
		}
	case startStoreJob:
		for _, p := range storeOrder {
			kv.VerifStoreCompact(stores[p])
		}
		for i, cf := range fams {
			kv.VerifWaitIdle(cf.family)
			ran[i] = true // level-0 files >= 2 >= CompactThreshold: needCompact says yes
		}
	default:
		for i, cf := range fams {
			ran[i], errs[i] = kv.VerifCompactSync(cf.family, true)
		}
	}
	history = append(history, fmt.Sprintf("compact %d families, start=%s: ran=%v errs=%v", len(fams), startNames[mode], ran, errs))

	// quiet again: every family on its own
	nonTriv := false
	for i, cf := range fams {
		if errs[i] != nil {
			fatalf("compaction of family %s failed: %v", cf.name, errs[i])
		}
		after, layAfter, err := cf.observe()
		if err != nil {
			fatalf("reading family %s after the compactions failed: %v", cf.name, err)
		}
		if err := compareStates(cf.before, after, cf.sc.typeOf, false, "reader before compaction", "reader after compaction"); err != nil {
			fatalf("compaction of family %s (one of %d jobs, start=%s) changed what the reader observes:\n  %v", cf.name, len(fams), startNames[mode], err)
		}
		// (reader before == model was checked above, so reader after == model follows)
		if !ran[i] {
			fatalf("harness: family %s had %d level-0 files but the guard refused the job", cf.name, cf.layBefore.Level0)
		}
		if layAfter.Level0 != 0 {
			fatalf("family %s: the compaction job did not complete, %d files are still in level 0 (before: L0=%d; start=%s; a failed background job is only logged)",
				cf.name, layAfter.Level0, cf.layBefore.Level0, startNames[mode])
		}
		for id, n := range layAfter.FilesPerMetric {
			if n != 1 {
				fatalf("family %s: after compaction metric %d is held by %d files", cf.name, id, n)
			}
		}
		for _, vs := range cf.before.Points {
			if len(vs) > 1 {
				nonTriv = true
				break
			}
		}
		if len(layAfter.Files) > 1 {
			classes["split-output"] = true
		}
	}
	concurrent := mode != startOneAfterOther
	switch {
	case wide >= 2 && concurrent:
		classes["concurrent-jobs-with-union-range-over-360: >=2"] = true
	case wide == 1 && concurrent:
		classes["concurrent-jobs-with-union-range-over-360: 1"] = true
	case concurrent:
		classes["concurrent-jobs-with-union-range-over-360: 0"] = true
	}
	classes[fmt.Sprintf("families-%d", len(fams))] = true
	classes[fmt.Sprintf("stores-%d", nStores)] = true
	for _, p := range opened {
		if err := kv.GetStoreManager().CloseStore(p); err != nil {
			fatalf("close store: %v", err)
		}
	}
	opened = nil
	cl := make([]string, 0, len(classes))
	for c := range classes {
		cl = append(cl, c)
	}
	sort.Strings(cl)
	ev.Case(group, canon.String(), nonTriv && concurrent, cl, map[string]any{"history": history})
}

// TestConcurrentFamilyCompactions: 2-4 families (one or two stores) are compacted at the same
// time; every family must show the same cells before and after, whatever the other jobs do.
func TestConcurrentFamilyCompactions(t *testing.T) {
	rapid.Check(t, runConcurrentCase)
}
