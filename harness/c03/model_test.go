package c03

// Reference model, block builder (memdb's calling protocol of metricsdata.Flusher) and the
// observer (production read path of tsdb/data_family.go fileFilter + query/operator/data_load.go).

import (
	"fmt"
	"math"
	"sort"
	"strings"
	"sync"

	"github.com/lindb/roaring"

	"github.com/lindb/lindb/aggregation"
	"github.com/lindb/lindb/flow"
	"github.com/lindb/lindb/kv"
	"github.com/lindb/lindb/kv/version"
	"github.com/lindb/lindb/pkg/bit"
	"github.com/lindb/lindb/pkg/encoding"
	"github.com/lindb/lindb/pkg/timeutil"
	"github.com/lindb/lindb/series/field"
	"github.com/lindb/lindb/tsdb/tblstore/metricsdata"
	"github.com/lindb/lindb/verifharness/sim/ev"
)

var knownOnce sync.Once

func knownFindingOnce() {
	knownOnce.Do(func() {
		ev.KnownFinding("C03", "a metric block declaring one field is read under query field index 0 by a multi-field query (metricsdata/reader.go readSeriesData) "+SigSingleFieldBlock)
	})
}

// ---- model ----------------------------------------------------------------------------------

// fieldDef is one field of a metric's schema: the id and type never change once assigned.
type fieldDef struct {
	ID   field.ID
	Type field.Type
}

// pointKey identifies one observable cell.
type pointKey struct {
	Metric uint32
	Series uint32
	Field  field.ID
	Slot   uint16
}

func (p pointKey) String() string {
	return fmt.Sprintf("(metric %d, series %d, field %d, slot %d)", p.Metric, p.Series, p.Field, p.Slot)
}

// fileMetric is what one memory database holds for one metric when it is flushed:
// the fields in the order the flush declares them, every series the shard knows for the metric
// (with or without data in this file) and the written points.
type fileMetric struct {
	ID     uint32
	Fields []fieldDef                                 // declared order (memdb: sync.Map range order = arbitrary)
	Series []uint32                                   // ascending, may include series without any data
	Data   map[uint32]map[field.ID]map[uint16]float64 // series -> field -> slot -> value
}

// slotRange is the metric level slot range memdb records: min/max slot written for the metric.
func (fm *fileMetric) slotRange() (timeutil.SlotRange, bool) {
	first := true
	var r timeutil.SlotRange
	for _, byField := range fm.Data {
		for _, bySlot := range byField {
			for s := range bySlot {
				if first {
					r.Start, r.End = s, s
					first = false
					continue
				}
				if s < r.Start {
					r.Start = s
				}
				if s > r.End {
					r.End = s
				}
			}
		}
	}
	return r, !first
}

func (fm *fileMetric) numPoints() int {
	n := 0
	for _, byField := range fm.Data {
		for _, bySlot := range byField {
			n += len(bySlot)
		}
	}
	return n
}

// fileSpec is one flushed file: metrics in ascending id order.
type fileSpec struct {
	Metrics []*fileMetric
	// Label, when set, replaces the full dump in String (large generated files whose content is
	// a function of the parameters named in the label).
	Label string
}

// String renders the file canonically (used for case identity and failure messages).
func (f *fileSpec) String() string {
	if f.Label != "" {
		return f.Label
	}
	var sb strings.Builder
	for _, m := range f.Metrics {
		fmt.Fprintf(&sb, "m%d[fields", m.ID)
		for _, fd := range m.Fields {
			fmt.Fprintf(&sb, " %d:%s", fd.ID, fd.Type)
		}
		sb.WriteString("]{")
		for _, s := range m.Series {
			fmt.Fprintf(&sb, "s%d(", s)
			for _, fd := range m.Fields {
				bySlot := m.Data[s][fd.ID]
				if len(bySlot) == 0 {
					continue
				}
				slots := make([]int, 0, len(bySlot))
				for sl := range bySlot {
					slots = append(slots, int(sl))
				}
				sort.Ints(slots)
				fmt.Fprintf(&sb, "f%d:", fd.ID)
				for _, sl := range slots {
					fmt.Fprintf(&sb, "%d=%g,", sl, bySlot[uint16(sl)])
				}
			}
			sb.WriteString(")")
		}
		sb.WriteString("} ")
	}
	return sb.String()
}

// metricInfo is the metric level part of a state (model or observed).
type metricInfo struct {
	Series map[uint32]bool
	Fields map[field.ID]field.Type
	Range  timeutil.SlotRange
	Files  int
}

// state is the content of a family in model form: every cell with the values contributed by
// the files that hold it, plus the metric level sets.
type state struct {
	Points  map[pointKey][]float64
	Metrics map[uint32]*metricInfo
	// evidence only (observed states): metrics whose lookup was repeated because >= 2 live files
	// cover the id with their key range / >= 2 level-1 files do
	RepeatedLookups, CoveredByTwoLevel1Ranges int
}

func newState() *state {
	return &state{Points: map[pointKey][]float64{}, Metrics: map[uint32]*metricInfo{}}
}

func (st *state) metric(id uint32) *metricInfo {
	mi, ok := st.Metrics[id]
	if !ok {
		mi = &metricInfo{Series: map[uint32]bool{}, Fields: map[field.ID]field.Type{}}
		st.Metrics[id] = mi
	}
	return mi
}

func (mi *metricInfo) addRange(r timeutil.SlotRange) {
	if mi.Files == 0 {
		mi.Range = r
	} else {
		if r.Start < mi.Range.Start {
			mi.Range.Start = r.Start
		}
		if r.End > mi.Range.End {
			mi.Range.End = r.End
		}
	}
	mi.Files++
}

// addFile applies one flushed file to the model.
func (st *state) addFile(f *fileSpec) {
	for _, m := range f.Metrics {
		mi := st.metric(m.ID)
		r, _ := m.slotRange()
		mi.addRange(r)
		for _, fd := range m.Fields {
			mi.Fields[fd.ID] = fd.Type
		}
		for _, s := range m.Series {
			mi.Series[s] = true
		}
		for s, byField := range m.Data {
			for fid, bySlot := range byField {
				for sl, v := range bySlot {
					k := pointKey{m.ID, s, fid, sl}
					st.Points[k] = append(st.Points[k], v)
				}
			}
		}
	}
}

// aggregate folds values the way the storage and the query combine values of one cell.
// Written from the documented meaning of the field types (series/field/type.go String/AggType):
// sum and histogram add, min/max take the extreme; first/last are order dependent, the
// property only requires membership, so they are not folded here.
func aggregate(t field.Type, vs []float64) float64 {
	switch t {
	case field.SumField, field.HistogramField:
		s := 0.0
		for _, v := range vs {
			s += v
		}
		return s
	case field.MinField:
		m := vs[0]
		for _, v := range vs[1:] {
			if v < m {
				m = v
			}
		}
		return m
	case field.MaxField:
		m := vs[0]
		for _, v := range vs[1:] {
			if v > m {
				m = v
			}
		}
		return m
	default:
		panic("aggregate: order dependent type")
	}
}

func orderDependent(t field.Type) bool { return t == field.FirstField || t == field.LastField }

func contains(vs []float64, v float64) bool {
	for _, x := range vs {
		if x == v {
			return true
		}
	}
	return false
}

func sortedKeys(m map[pointKey][]float64) []pointKey {
	ks := make([]pointKey, 0, len(m))
	for k := range m {
		ks = append(ks, k)
	}
	sort.Slice(ks, func(i, j int) bool {
		a, b := ks[i], ks[j]
		if a.Metric != b.Metric {
			return a.Metric < b.Metric
		}
		if a.Series != b.Series {
			return a.Series < b.Series
		}
		if a.Field != b.Field {
			return a.Field < b.Field
		}
		return a.Slot < b.Slot
	})
	return ks
}

// compareStates checks got against want. exactMultiset additionally demands the same number
// of contributions per cell (true when no compaction happened between model and reader:
// every file shows exactly what was written into it).
// For sum/min/max/histogram the aggregate must be equal; for first/last every observed value
// must be one of the wanted (contributed) values. Cells, series, fields must match in both directions.
func compareStates(want, got *state, typeOf func(metric uint32, f field.ID) (field.Type, bool), exactMultiset bool, wantName, gotName string) error {
	var errs []string
	add := func(format string, args ...any) {
		if len(errs) < 12 {
			errs = append(errs, fmt.Sprintf(format, args...))
		}
	}
	for _, k := range sortedKeys(want.Points) {
		wv := want.Points[k]
		gv, ok := got.Points[k]
		if !ok {
			add("%s disappeared: %s has %v, %s has nothing", k, wantName, wv, gotName)
			continue
		}
		t, known := typeOf(k.Metric, k.Field)
		if !known {
			add("%s: field type unknown to the model", k)
			continue
		}
		if exactMultiset && len(wv) != len(gv) {
			add("%s: %s has %d contributions %v, %s has %d %v", k, wantName, len(wv), wv, gotName, len(gv), gv)
			continue
		}
		if orderDependent(t) {
			for _, v := range gv {
				if !contains(wv, v) {
					add("%s (%s): %s shows %v which is none of the values of %s %v", k, t, gotName, v, wantName, wv)
					break
				}
			}
			continue
		}
		if w, g := aggregate(t, wv), aggregate(t, gv); w != g {
			add("%s (%s): %s aggregate %v %v, %s aggregate %v %v", k, t, wantName, w, wv, gotName, g, gv)
		}
	}
	for _, k := range sortedKeys(got.Points) {
		if _, ok := want.Points[k]; !ok {
			add("%s appeared: %s has nothing, %s has %v", k, wantName, gotName, got.Points[k])
		}
	}
	// metric level sets
	mids := map[uint32]bool{}
	for id := range want.Metrics {
		mids[id] = true
	}
	for id := range got.Metrics {
		mids[id] = true
	}
	ids := make([]uint32, 0, len(mids))
	for id := range mids {
		ids = append(ids, id)
	}
	sort.Slice(ids, func(i, j int) bool { return ids[i] < ids[j] })
	for _, id := range ids {
		w, g := want.Metrics[id], got.Metrics[id]
		switch {
		case w == nil:
			add("metric %d appeared in %s", id, gotName)
			continue
		case g == nil:
			add("metric %d disappeared in %s", id, gotName)
			continue
		}
		for s := range w.Series {
			if !g.Series[s] {
				add("metric %d: series %d is in the series bitmaps of %s but not of %s", id, s, wantName, gotName)
			}
		}
		for s := range g.Series {
			if !w.Series[s] {
				add("metric %d: series %d is in the series bitmaps of %s but not of %s", id, s, gotName, wantName)
			}
		}
		for f, t := range w.Fields {
			if gt, ok := g.Fields[f]; !ok || gt != t {
				add("metric %d: field %d:%s of %s is %v/%v in %s", id, f, t, wantName, ok, gt, gotName)
			}
		}
		for f, t := range g.Fields {
			if _, ok := w.Fields[f]; !ok {
				add("metric %d: field %d:%s only in %s", id, f, t, gotName)
			}
		}
		if w.Range != g.Range {
			add("metric %d: slot range of %s %v, of %s %v", id, wantName, w.Range, gotName, g.Range)
		}
	}
	if len(errs) > 0 {
		return fmt.Errorf("%s", strings.Join(errs, "\n  "))
	}
	return nil
}

// ---- builder: memdb's calling protocol ------------------------------------------------------

// writeFile flushes one file through the production metricsdata.Flusher exactly the way
// tsdb/data_family.go flushMemoryDatabase + memdb.FlushFamilyTo do:
//
//	kvFlusher := family.NewFlusher(); metricsdata.NewFlusher(kvFlusher)
//	for metric ascending: PrepareMetric(id, fields)
//	  for every series the shard knows for the metric, ascending:
//	    for every declared field in order: page exists -> encoder := GetEncoder(idx);
//	      RestWithStartTime(range.Start); one AppendTime(+AppendValue) per slot of the metric range;
//	      FlushField(BytesWithoutTime())   |  no page -> FlushField(nil)
//	    FlushSeries(seriesID)
//	  CommitMetric(range)
//	Close()  (commits the kv flusher);  kvFlusher.Release()
func writeFile(family kv.Family, f *fileSpec) error {
	kvFlusher := family.NewFlusher()
	defer kvFlusher.Release()
	dataFlusher, err := metricsdata.NewFlusher(kvFlusher)
	if err != nil {
		return err
	}
	if err := flushSpecTo(dataFlusher, f); err != nil {
		return err
	}
	return dataFlusher.Close()
}

func flushSpecTo(dataFlusher metricsdata.Flusher, f *fileSpec) error {
	for _, m := range f.Metrics {
		slotRange, ok := m.slotRange()
		if !ok {
			return fmt.Errorf("harness: metric %d without any point cannot be flushed by memdb", m.ID)
		}
		metas := make(field.Metas, len(m.Fields))
		for i, fd := range m.Fields {
			metas[i] = field.Meta{ID: fd.ID, Type: fd.Type, Name: field.Name(fmt.Sprintf("f%d", fd.ID)), Index: uint8(i), Persisted: true}
		}
		dataFlusher.PrepareMetric(m.ID, metas)
		for _, seriesID := range m.Series {
			for idx, fd := range m.Fields {
				bySlot := m.Data[seriesID][fd.ID]
				if len(bySlot) == 0 {
					_ = dataFlusher.FlushField(nil)
					continue
				}
				encoder := dataFlusher.GetEncoder(idx)
				encoder.RestWithStartTime(slotRange.Start)
				for s := int(slotRange.Start); s <= int(slotRange.End); s++ {
					if v, has := bySlot[uint16(s)]; has {
						encoder.AppendTime(bit.One)
						encoder.AppendValue(math.Float64bits(v))
					} else {
						encoder.AppendTime(bit.Zero)
					}
				}
				data, err := encoder.BytesWithoutTime()
				if err != nil {
					return err
				}
				if err := dataFlusher.FlushField(data); err != nil {
					return err
				}
			}
			if err := dataFlusher.FlushSeries(seriesID); err != nil {
				return err
			}
		}
		if err := dataFlusher.CommitMetric(slotRange); err != nil {
			return err
		}
	}
	return nil
}

// ---- observer: the production read path -----------------------------------------------------

// queryFields builds the field list of a query: sorted by field id (StorageExecuteContext.Fields).
func queryFields(defs map[field.ID]field.Type) field.Metas {
	ids := make([]int, 0, len(defs))
	for id := range defs {
		ids = append(ids, int(id))
	}
	sort.Ints(ids)
	metas := make(field.Metas, len(ids))
	for i, id := range ids {
		metas[i] = field.Meta{ID: field.ID(id), Type: defs[field.ID(id)], Name: field.Name(fmt.Sprintf("f%d", id))}
	}
	return metas
}

// SigSingleFieldBlock is the signature of the reader defect found by this check: a block that
// declares exactly one field delivers its data under query field index 0 whatever the field is.
const SigSingleFieldBlock = "C03/single-field-block-read-by-multi-field-query"

// SigEmptyBucket is the signature of the compaction defect found by this check: memdb flushes a
// single-field block whose roaring container holds only series without data in that memory
// database; the flusher writes nothing for that container and the merger's scanner refuses the
// block ("series entries length too short: 0"), so every compaction of the family fails.
const SigEmptyBucket = "C03/single-field-block-container-without-data-fails-compaction"

// openMetricReaders: Snapshot.FindReaders -> table.Reader.Get -> metricsdata.NewReader (tsdb/data_family.go fileFilter).
func openMetricReaders(snap version.Snapshot, metricID uint32) ([]metricsdata.MetricReader, error) {
	tableReaders, err := snap.FindReaders(metricID)
	if err != nil {
		return nil, fmt.Errorf("FindReaders(%d): %w", metricID, err)
	}
	var metricReaders []metricsdata.MetricReader
	for _, tr := range tableReaders {
		value, err0 := tr.Get(metricID)
		if err0 != nil {
			continue // metric not in this file (key range only covers it)
		}
		r, err := metricsdata.NewReader(tr.Path(), value)
		if err != nil {
			return nil, fmt.Errorf("metric %d: block of %s does not open: %w", metricID, tr.Path(), err)
		}
		metricReaders = append(metricReaders, r)
	}
	return metricReaders, nil
}

// lookupRepeats is the number of times the block lookup of a metric is repeated inside one
// snapshot when more than one live file covers the metric id with its key range. A level hands
// out its files in the iteration order of a Go map (kv/version/level.go getFiles), so one read
// sees one of several possible file orders; for the 2..8 files of a small map a given relative
// order of two files comes up with probability 1/8..7/8 per call. What the reader observes is a
// function of the SET of blocks the lookup returns, so repeating the (cheap) lookup and comparing
// the set of files with the one the full observation was made from is equivalent to repeating
// the whole observation.
const lookupRepeats = 24

// lookupFiles is the block lookup of the read path alone: Snapshot.FindReaders + table.Reader.Get
// (tsdb/data_family.go fileFilter); it returns the paths of the files that delivered a block.
func lookupFiles(snap version.Snapshot, metricID uint32) ([]string, error) {
	tableReaders, err := snap.FindReaders(metricID)
	if err != nil {
		return nil, fmt.Errorf("FindReaders(%d): %w", metricID, err)
	}
	var paths []string
	for _, tr := range tableReaders {
		if _, err0 := tr.Get(metricID); err0 == nil {
			paths = append(paths, tr.Path())
		}
	}
	sort.Strings(paths)
	return paths, nil
}

// coveringFiles counts the live files of the snapshot's version whose [minKey,maxKey] range
// covers the metric id (read from the file metas, not through the lookup under test).
func coveringFiles(snap version.Snapshot, metricID uint32) (all, level1 int) {
	for level := 0; level < 2; level++ {
		for _, fm := range snap.GetCurrent().GetFiles(level) {
			if metricID >= fm.GetMinKey() && metricID <= fm.GetMaxKey() {
				all++
				if level == 1 {
					level1++
				}
			}
		}
	}
	return all, level1
}

// repeatLookups repeats the block lookup of one metric in the same snapshot (see lookupRepeats):
// every lookup must find the blocks in the same files as the lookup the observation is made
// from, and Snapshot.Load must deliver as many blocks.
func repeatLookups(snap version.Snapshot, metricID uint32, first []metricsdata.MetricReader, out *state) error {
	all, level1 := coveringFiles(snap, metricID)
	if all < 2 {
		return nil
	}
	out.RepeatedLookups++
	if level1 >= 2 {
		out.CoveredByTwoLevel1Ranges++
	}
	want := make([]string, 0, len(first))
	for _, r := range first {
		want = append(want, r.Path())
	}
	sort.Strings(want)
	for i := 2; i <= lookupRepeats; i++ {
		got, err := lookupFiles(snap, metricID)
		if err != nil {
			return err
		}
		if fmt.Sprint(got) != fmt.Sprint(want) {
			return fmt.Errorf("metric %d: lookup #%d in the same snapshot finds its blocks in files %v, lookup #1 found them in %v "+
				"(%d live files cover the key with their range, %d of them in level 1): what a reader observes depends on the order in which the level hands out its files",
				metricID, i, got, want, all, level1)
		}
		n := 0
		if err := snap.Load(metricID, func([]byte) error { n++; return nil }); err != nil {
			return fmt.Errorf("Snapshot.Load(%d): %w", metricID, err)
		}
		if n != len(want) {
			return fmt.Errorf("metric %d: Snapshot.Load #%d in the same snapshot delivers %d blocks, the lookup the observation was made from found %d (%v; %d live files cover the key, %d in level 1)",
				metricID, i, n, len(want), want, all, level1)
		}
	}
	return nil
}

// loadPoints runs one query (field list sorted by id, series bitmap) over the blocks the way the
// storage side of a query does: NewFilter(...).Filter -> FilterResultSet.Load(ctx) per roaring
// high key -> DataLoader.Load(ctx) with a DownSampling callback that decodes through
// aggregation.DownSampling (query/stage/shard_scan_stage.go, query/operator/data_load.go).
// Values of one cell coming from different files are kept separately.
func loadPoints(metricID uint32, metricReaders []metricsdata.MetricReader, fields field.Metas,
	querySeries *roaring.Bitmap, out map[pointKey][]float64,
) error {
	if len(metricReaders) == 0 || len(fields) == 0 {
		return nil
	}
	filter := metricsdata.NewFilter(0, nopSnapshot{}, metricReaders)
	resultSets, err := filter.Filter(querySeries, fields)
	if err != nil {
		return nil // constants.ErrNotFound: nothing matches
	}
	storageCtx := &flow.StorageExecuteContext{Fields: fields}
	shardCtx := flow.NewShardExecuteContext(storageCtx)
	for _, rs := range resultSets {
		shardCtx.SeriesIDsAfterFiltering.Or(rs.SeriesIDs())
	}
	seriesIDs := shardCtx.SeriesIDsAfterFiltering
	highKeys := seriesIDs.GetHighKeys()
	for hkIdx, highKey := range highKeys {
		for _, rs := range resultSets {
			// one context per (container, file): fresh bookkeeping, like one dataLoad operator each
			ctx := &flow.DataLoadContext{
				ShardExecuteCtx:       shardCtx,
				LowSeriesIDsContainer: seriesIDs.GetContainerAtIndex(hkIdx),
				SeriesIDHighKey:       highKey,
				IsMultiField:          len(fields) > 1,
			}
			ctx.Grouping()
			if roaring.FastAnd(seriesIDs, rs.SeriesIDs()).IsEmpty() {
				continue
			}
			loader := rs.Load(ctx)
			if loader == nil {
				continue
			}
			seen := map[pointKey]bool{}
			var cbErr error
			hk := highKey
			ident := rs.Identifier()
			ctx.Decoder = encoding.GetTSDDecoder()
			ctx.DownSampling = func(slotRange timeutil.SlotRange, lowSeriesIdx uint16, fieldIdx int, getter encoding.TSDValueGetter) {
				seriesID := uint32(hk)<<16 | uint32(ctx.MinSeriesID+lowSeriesIdx)
				if fieldIdx < 0 || fieldIdx >= len(fields) {
					cbErr = fmt.Errorf("metric %d: callback with field index %d of %d query fields", metricID, fieldIdx, len(fields))
					return
				}
				fid := fields[fieldIdx].ID
				aggregation.DownSampling(slotRange, timeutil.SlotRange{Start: 0, End: math.MaxUint16}, 1, 0, getter,
					func(slot int, value float64) {
						k := pointKey{metricID, seriesID, fid, uint16(slot)}
						if seen[k] {
							cbErr = fmt.Errorf("%s delivered twice from file %s", k, ident)
						}
						seen[k] = true
						if slot < int(slotRange.Start) || slot > int(slotRange.End) {
							cbErr = fmt.Errorf("%s outside the block's slot range %v (%s)", k, slotRange, ident)
						}
						out[k] = append(out[k], value)
					})
			}
			loader.Load(ctx)
			encoding.ReleaseTSDDecoder(ctx.Decoder)
			if cbErr != nil {
				return cbErr
			}
		}
	}
	return nil
}

func canonPoints(m map[pointKey][]float64) string {
	var sb strings.Builder
	for _, k := range sortedKeys(m) {
		vs := append([]float64(nil), m[k]...)
		sort.Slice(vs, func(i, j int) bool { // total order: -0 before +0
			return vs[i] < vs[j] || (vs[i] == vs[j] && math.Signbit(vs[i]) && !math.Signbit(vs[j]))
		})
		fmt.Fprintf(&sb, "%s=%v\n", k, vs)
	}
	return sb.String()
}

// observeMetric reads everything the snapshot holds for one metric in two ways and
// cross-checks them: one query per field (`select f`), and one query over all fields of the
// schema (`select f0, f1, ...`, field list sorted by id). known tells whether
// SigSingleFieldBlock is a listed finding: then blocks of that shape are read with a
// single-field query in the second pass (shape excluded by construction).
func observeMetric(snap version.Snapshot, metricID uint32, fields field.Metas, querySeries *roaring.Bitmap, out *state, known bool) error {
	metricReaders, err := openMetricReaders(snap, metricID)
	if err != nil {
		return err
	}
	if err := repeatLookups(snap, metricID, metricReaders, out); err != nil {
		return err
	}
	for _, r := range metricReaders {
		mi := out.metric(metricID)
		mi.addRange(r.GetTimeRange())
		it := r.GetSeriesIDs().Iterator()
		for it.HasNext() {
			mi.Series[it.Next()] = true
		}
		for _, fm := range r.GetFields() {
			if old, dup := mi.Fields[fm.ID]; dup && old != fm.Type {
				return fmt.Errorf("metric %d: field %d has type %s and %s in different files", metricID, fm.ID, old, fm.Type)
			}
			mi.Fields[fm.ID] = fm.Type
		}
	}
	single := map[pointKey][]float64{}
	for _, f := range fields {
		if err := loadPoints(metricID, metricReaders, field.Metas{f}, querySeries, single); err != nil {
			return err
		}
	}
	if len(fields) > 1 {
		multi := map[pointKey][]float64{}
		var normal []metricsdata.MetricReader
		affectedShape := false
		for _, r := range metricReaders {
			bf := r.GetFields()
			if len(bf) == 1 && bf[0].ID != fields[0].ID {
				affectedShape = true
				if known {
					for _, qf := range fields {
						if qf.ID == bf[0].ID {
							if err := loadPoints(metricID, []metricsdata.MetricReader{r}, field.Metas{qf}, querySeries, multi); err != nil {
								return err
							}
						}
					}
					continue
				}
			}
			normal = append(normal, r)
		}
		if err := loadPoints(metricID, normal, fields, querySeries, multi); err != nil {
			return err
		}
		if a, b := canonPoints(single), canonPoints(multi); a != b {
			hint := ""
			if affectedShape {
				hint = " [signature " + SigSingleFieldBlock + ": a block declaring a single field that is not the first query field is involved]"
			}
			return fmt.Errorf("metric %d: one query over fields %v shows\n%sbut one query per field shows\n%s%s", metricID, fields, b, a, hint)
		}
		if affectedShape && known {
			knownFindingOnce()
		}
	}
	for k, vs := range single {
		out.Points[k] = append(out.Points[k], vs...)
	}
	return nil
}

// nopSnapshot satisfies the snapshot parameter of NewFilter (only closed by FilterResultSet.Close,
// which the observer never calls; the real snapshot is owned by the caller).
type nopSnapshot struct{ version.Snapshot }

func (nopSnapshot) Close() {}

// layout describes where the files of a family are.
type layout struct {
	Level0, Level1 int
	// FilesPerMetric counts the files holding each metric.
	FilesPerMetric map[uint32]int
	// FileLevel maps every live file number to its level.
	FileLevel map[int64]int
	// Files lists every live file with its key range (file meta), ascending file number.
	Files []fileRange
}

// fileRange is the meta data of one live file.
type fileRange struct {
	Number   int64
	Level    int
	Min, Max uint32
}

func (a fileRange) overlaps(b fileRange) bool { return a.Min <= b.Max && b.Min <= a.Max }

// level1 returns the level-1 files.
func (l *layout) level1() []fileRange {
	var out []fileRange
	for _, f := range l.Files {
		if f.Level == 1 {
			out = append(out, f)
		}
	}
	return out
}

// level1RangesOverlap tells whether two level-1 files have intersecting [min,max] key ranges.
func (l *layout) level1RangesOverlap() bool {
	up := l.level1()
	for i := range up {
		for j := i + 1; j < len(up); j++ {
			if up[i].overlaps(up[j]) {
				return true
			}
		}
	}
	return false
}

// observeFamily reads the whole family through one snapshot.
func observeFamily(family kv.Family, metricIDs []uint32, fieldsOf func(uint32) field.Metas, querySeries *roaring.Bitmap, known bool) (*state, *layout, error) {
	snap := family.GetSnapshot()
	defer snap.Close()
	return observeSnapshot(snap, metricIDs, fieldsOf, querySeries, known)
}

// observeSnapshot reads everything one (caller owned) snapshot shows.
func observeSnapshot(snap version.Snapshot, metricIDs []uint32, fieldsOf func(uint32) field.Metas, querySeries *roaring.Bitmap, known bool) (*state, *layout, error) {
	out := newState()
	for _, id := range metricIDs {
		if err := observeMetric(snap, id, fieldsOf(id), querySeries, out, known); err != nil {
			return nil, nil, err
		}
	}
	lay := &layout{
		Level0:         snap.GetCurrent().NumberOfFilesInLevel(0),
		Level1:         snap.GetCurrent().NumberOfFilesInLevel(1),
		FilesPerMetric: map[uint32]int{},
		FileLevel:      map[int64]int{},
	}
	for level := 0; level < 2; level++ {
		for _, fm := range snap.GetCurrent().GetFiles(level) {
			lay.FileLevel[fm.GetFileNumber().Int64()] = level
			lay.Files = append(lay.Files, fileRange{Number: fm.GetFileNumber().Int64(), Level: level, Min: fm.GetMinKey(), Max: fm.GetMaxKey()})
		}
	}
	sort.Slice(lay.Files, func(i, j int) bool { return lay.Files[i].Number < lay.Files[j].Number })
	for id, mi := range out.Metrics {
		lay.FilesPerMetric[id] = mi.Files
	}
	return out, lay, nil
}
