package c03

// What a reader observes WHILE a compaction commits, after a compaction whose commit (or output
// file) was hit by an I/O fault, and in a crash image taken inside the commit.
//
// The statement "compacting a data family ... leaves the value of every (metric, series, field,
// time slot) unchanged ... no series, field or slot appears or disappears" has no "once the job
// has returned" clause: queries take their kv snapshot whenever they arrive (tsdb/data_family.go
// Filter -> family.GetSnapshot), also while kv.compactJob.installCompactionResults ->
// StoreVersionSet.CommitFamilyEditLog runs, and a storage node can lose the manifest write, the
// fsync or the whole process at any of these moments. The model of the family is not changed by
// a compaction at all, so at EVERY moment - before, inside and after the commit, with or without
// a fault, in the live store and in the store recovered from the files - a fresh snapshot must
// show exactly the model: the aggregate of the flushed inputs, never a mixture of inputs and
// outputs, never both.
//
// Owned interleaving: the compaction runs on the test goroutine (kv.VerifCompactSync); the
// file-system seams of kv, kv/version and kv/table call back into the harness at every
// table create/write/close, manifest write/sync and at the directory listing / removals of the
// obsolete-file pass. At such a seam the harness
//
//   - starts a reader on ANOTHER goroutine which takes a fresh snapshot (family.GetSnapshot needs
//     the family version's lock only, not the version set's mutex that CommitFamilyEditLog holds
//     at the manifest seams) and reads every (metric, series, field, slot) through the production
//     read path; the compaction waits for it with a bounded rendezvous. A reader that does not
//     finish within the bound is counted as serialised behind the compaction (lock held at that
//     seam), the compaction goes on and the reader is joined - and judged - afterwards. The oracle
//     is interleaving independent, so the bound never decides a verdict;
//   - copies the store directory (crash image: "the process dies here"); every image is later
//     opened through the production open path (StoreManager.CreateStore -> version set recovery)
//     and read with the same oracle, some are compacted once more and read again;
//   - may fail ONE operation: the k-th manifest record write, the k-th manifest sync (fsync reports
//     an error after the record was handed to the kernel), or the creation / a write / the close of
//     an output table. Afterwards a fresh snapshot, a further compaction, a close + reopen and a
//     compaction after the reopen must all show the model.
//
// Besides the value oracle a cell may never have MORE contributions (one per live file holding
// it) than files were flushed with it: a merge replaces n >= 1 values of a cell by one, so this
// catches a double count also for min/max/first/last cells whose value would not change.

import (
	"errors"
	"fmt"
	"os"
	"path/filepath"
	"sort"
	"strings"
	"testing"
	"time"

	"pgregory.net/rapid"

	"github.com/lindb/lindb/kv"
	"github.com/lindb/lindb/kv/table"
	"github.com/lindb/lindb/kv/version"
	"github.com/lindb/lindb/series/field"
	"github.com/lindb/lindb/tsdb/tblstore/metricsdata"
	"github.com/lindb/lindb/verifharness/sim/crash"
	"github.com/lindb/lindb/verifharness/sim/ev"
)

const commitGroup = "TestCompactionCommitWindows"

// rendezvousBound is how long the compaction waits at a seam for the reader started there. On the
// unchanged tree a reader needs about a millisecond and no lock the compaction holds; the bound only
// keeps a change that makes readers wait for the commit from dead-locking the case. It classifies
// (serialised or not), it never judges.
const rendezvousBound = 3 * time.Second

// Once a reader was found serialised at some kind of seam, later readers at that kind of seam are
// given a short bound only (a tree whose readers wait for the commit would otherwise cost seconds
// per case); they are still joined and judged after the job.
const rendezvousBoundAfterSerialised = 50 * time.Millisecond

var serialisedAt = map[string]bool{} // test goroutine only

var errInjected = errors.New("verif: injected I/O fault")

// SigCommitSyncFault is the signature of the defect this test found (repaired in /repo, listed as
// fixed): see TestRegression_CompactionCommitSyncFailureThenReopen.
const SigCommitSyncFault = "C03/compaction-commit-sync-failure-record-stays-in-manifest"

// seamPoint is one intercepted file-system operation of the compaction under observation.
type seamPoint struct {
	no         int
	op         string
	before     bool
	nth        int // running number of this operation kind inside the compaction (0 = first)
	file       string
	afterFault bool // the injected fault fired earlier in this compaction

	// reader started here
	read       bool
	acquired   chan struct{} // closed once the reader holds its snapshot
	done       chan struct{} // closed once the reader finished
	st         *state
	lay        *layout
	err        error
	serialised string

	img string // directory of the crash image taken here ("" = none)
}

func (p *seamPoint) String() string {
	ph := "after"
	if p.before {
		ph = "before"
	}
	s := fmt.Sprintf("seam #%d: %s %s #%d (%s)", p.no, ph, p.op, p.nth+1, p.file)
	if p.afterFault {
		s += " [after the injected fault]"
	}
	return s
}

// insideCommit: the seam lies between the first and the last manifest operation of the job.
func (p *seamPoint) insideCommit() bool { return strings.HasPrefix(p.op, "manifest") }

type faultPlan struct {
	op    string
	at    int
	fired bool
}

func (f *faultPlan) String() string {
	if f == nil {
		return "none"
	}
	return fmt.Sprintf("%s#%d", f.op, f.at+1)
}

type commitEnv struct {
	*env
	imgDir string

	// plan of the compaction under observation
	readers   bool
	images    bool
	writeSalt int // which of the many table writes are seams
	fault     *faultPlan

	armed  bool
	seq    int
	nthOp  map[string]int // hook side count of operations per kind (before-calls)
	nthAsk map[string]int // fault side count of operations per kind
	points []*seamPoint
	counts map[string]int // evidence totals of this case
	nt     bool           // non-trivial by the rule of this test
}

// eligible tells whether the event is a seam, and whether an image is taken there.
// Manifest records are written into a user-space buffer (bufioutil) and reach the file in Sync:
// the files are the same before and after manifestWrite, and before manifestSync.
func (c *commitEnv) eligible(op string, before bool, nth int) (seam, image bool) {
	switch op {
	case "tableCreate":
		return !before, !before
	case "tableWrite":
		return before && (nth+c.writeSalt)%6 == 0, false
	case "tableClose", "listDir", "removeDir":
		return true, !before
	case "manifestWrite":
		return true, before
	case "manifestSync":
		return true, !before
	}
	return false, false
}

func (c *commitEnv) hook(op, path string, before bool) {
	if !c.armed {
		return
	}
	nth := c.nthOp[op]
	if !before {
		nth-- // the after-call belongs to the operation counted by its before-call
	} else {
		c.nthOp[op]++
	}
	seam, image := c.eligible(op, before, nth)
	if !seam {
		return
	}
	p := &seamPoint{no: c.seq, op: op, before: before, nth: nth, file: filepath.Base(path), afterFault: c.fault != nil && c.fault.fired}
	c.seq++
	c.points = append(c.points, p)
	c.counts["seam:"+op]++
	if c.images && image {
		p.img = filepath.Join(c.imgDir, fmt.Sprintf("img-%03d", p.no))
		if err := crash.CopyTree(c.storePath, p.img); err != nil {
			panic(fmt.Sprintf("harness: copy image: %v", err))
		}
	}
	if c.readers {
		c.readAt(p)
	}
}

// readAt starts the reader of a seam and waits (bounded) for it.
func (c *commitEnv) readAt(p *seamPoint) {
	p.read = true
	p.acquired, p.done = make(chan struct{}), make(chan struct{})
	fam, metrics, series, known := c.family, c.sc.Metrics, c.querySeries(), ev.Known(SigSingleFieldBlock)
	fieldsOf := c.fieldsOf
	go func() {
		defer close(p.done)
		defer func() {
			if r := recover(); r != nil {
				p.err = fmt.Errorf("reader panicked: %v", r)
			}
		}()
		snap := fam.GetSnapshot()
		close(p.acquired)
		defer snap.Close()
		p.st, p.lay, p.err = observeSnapshot(snap, metrics, fieldsOf, series, known)
	}()
	bound := rendezvousBound
	if serialisedAt[p.op] {
		bound = rendezvousBoundAfterSerialised
	}
	timer := time.NewTimer(bound)
	defer timer.Stop()
	select {
	case <-p.done:
	case <-timer.C:
		serialisedAt[p.op] = true
		select {
		case <-p.acquired:
			p.serialised = "while-reading"
		default:
			p.serialised = "before-snapshot"
		}
	}
}

func (c *commitEnv) fieldsOf(id uint32) field.Metas {
	defs := map[field.ID]field.Type{}
	for _, fd := range c.sc.Fields[id] {
		defs[fd.ID] = fd.Type
	}
	return queryFields(defs)
}

// faultHook is asked once per table-file / manifest operation (after the before-call of the hook).
func (c *commitEnv) faultHook(op, _ string) error {
	if !c.armed {
		return nil
	}
	n := c.nthAsk[op]
	c.nthAsk[op]++
	if f := c.fault; f != nil && !f.fired && f.op == op && f.at == n {
		f.fired = true
		return errInjected
	}
	return nil
}

func (c *commitEnv) install() func() {
	kv.VerifSetFSHook(c.hook)
	version.VerifSetFSHookWithSyncFaults(c.hook, c.faultHook)
	table.VerifSetFSHookWithFaults(c.hook, c.faultHook)
	return func() {
		kv.VerifSetFSHook(nil)
		version.VerifSetFSHook(nil)
		table.VerifSetFSHook(nil)
	}
}

// checkNoExtraContributions: a cell is delivered once per live file that holds it; a merge replaces
// the n >= 1 values of a cell by one, so no snapshot can deliver a cell more often than files were
// flushed with it.
func checkNoExtraContributions(model, got *state) error {
	var errs []string
	for _, k := range sortedKeys(got.Points) {
		if w, ok := model.Points[k]; ok && len(got.Points[k]) > len(w) {
			errs = append(errs, fmt.Sprintf("%s is delivered by %d live files %v, but only %d flushed files ever held it %v: inputs and outputs of a compaction are visible together",
				k, len(got.Points[k]), got.Points[k], len(w), w))
			if len(errs) == 6 {
				break
			}
		}
	}
	if len(errs) > 0 {
		return errors.New(strings.Join(errs, "\n  "))
	}
	return nil
}

// judge compares one observation with the model: values, sets and the contribution bound.
func (c *commitEnv) judge(got *state, who string) {
	if err := compareStates(c.model, got, c.sc.typeOf, false, "model", who); err != nil {
		c.fatalf("%s differs from the model of what was flushed:\n  %v", who, err)
	}
	if err := checkNoExtraContributions(c.model, got); err != nil {
		c.fatalf("%s: %v", who, err)
	}
}

func sameFiles(a, b *layout) bool { return fmt.Sprint(a.FileLevel) == fmt.Sprint(b.FileLevel) }

// probedCompact runs one compaction under observation and judges everything seen at its seams.
// It returns whether the compaction changed the files and whether a manifestSync fault fired
// (the shape of SigCommitSyncFault); the images taken are recovered by the caller.
func (c *commitEnv) probedCompact(force bool) (changed bool, syncFaulted bool) {
	before, layBefore := c.observe()
	c.checkAgainstModel(before, "before the observed compaction")
	c.judge(before, "reader before the observed compaction")

	c.seq, c.points = 0, nil
	c.nthOp, c.nthAsk = map[string]int{}, map[string]int{}
	c.armed = true
	ran, err := kv.VerifCompactSync(c.family, force)
	c.armed = false
	for _, p := range c.points {
		if p.read {
			<-p.done // a reader that stays blocked for ever is a dead-lock: the test times out
		}
	}
	fired := c.fault != nil && c.fault.fired
	c.history = append(c.history, fmt.Sprintf("OBSERVED compact force=%v (L0=%d L1=%d before) readers=%v images=%v fault=%s fired=%v ran=%v err=%v seams=%d",
		force, layBefore.Level0, layBefore.Level1, c.readers, c.images, c.fault, fired, ran, err, len(c.points)))
	if err != nil && !fired {
		c.fatalf("compaction failed although no fault was injected: %v", err)
	}
	if !ran {
		c.classes["observed-compaction-nothing-to-do"] = true
	}
	if c.fault != nil && !fired {
		c.classes["fault-planned-but-operation-not-reached:"+c.fault.op] = true
	}

	// the live store right after the job
	after, layAfter := c.observe()
	changed = !sameFiles(layBefore, layAfter)
	if err := compareStates(before, after, c.sc.typeOf, !changed, "reader before compaction", "reader after compaction"); err != nil {
		c.fatalf("compaction (fault %s fired=%v) changed what the reader observes:\n  %v", c.fault, fired, err)
	}
	c.judge(after, "reader after the observed compaction")

	// classes of the job
	shared := false
	for _, vs := range before.Points {
		if len(vs) > 1 {
			shared = true
			break
		}
	}
	merge := changed && !(layBefore.Level0 == 1 && layAfter.Level1 == layBefore.Level1+1 && len(layAfter.FileLevel) == len(layBefore.FileLevel))
	if changed && !merge {
		c.classes["observed-trivial-move"] = true
	}
	if merge {
		c.classes["observed-merge"] = true
		if layBefore.Level1 > 0 {
			for _, n := range layBefore.FilesPerMetric {
				if n > 1 && layBefore.Level0 > 0 {
					c.classes["observed-merge-with-level1-overlap"] = true
				}
			}
		}
		newFiles := 0
		for fn := range layAfter.FileLevel {
			if _, old := layBefore.FileLevel[fn]; !old {
				newFiles++
			}
		}
		if newFiles > 1 {
			c.classes["observed-merge-split-output"] = true
		}
	}
	if fired {
		c.classes["fault:"+c.fault.op] = true
		c.classes[fmt.Sprintf("fault:%s#%d", c.fault.op, c.fault.at+1)] = true
		switch {
		case err != nil:
			c.classes["fault-reported-by-the-job"] = true
		case strings.HasPrefix(c.fault.op, "manifest"):
			c.classes["fault-in-commit-not-reported-by-the-job"] = true
		}
		if changed {
			c.classes["faulted-compaction-changed-the-files"] = true
		} else {
			c.classes["faulted-compaction-left-the-inputs"] = true
		}
		syncFaulted = c.fault.op == "manifestSync"
	}

	// what the readers at the seams saw
	inside, reads := 0, 0
	for _, p := range c.points {
		if !p.read {
			continue
		}
		reads++
		who := "reader with a fresh snapshot at " + p.String() + " of the running compaction"
		if p.serialised != "" {
			c.classes["seam-reader-serialised-"+p.serialised] = true
			c.counts["seam-readers-serialised"]++
			who += " (serialised behind the job, blocked " + p.serialised + ")"
		}
		if p.err != nil {
			c.fatalf("%s failed: %v", who, p.err)
		}
		c.judge(p.st, who)
		switch {
		case sameFiles(p.lay, layBefore) && sameFiles(p.lay, layAfter):
			c.counts["seam-reads-files-unchanged-by-job"]++
		case sameFiles(p.lay, layBefore):
			c.counts["seam-reads-of-the-input-files"]++
			if err := compareStates(before, p.st, c.sc.typeOf, true, "reader before compaction", who); err != nil {
				c.fatalf("%s sees the files of before the compaction but not their content:\n  %v", who, err)
			}
		case sameFiles(p.lay, layAfter):
			c.counts["seam-reads-of-the-output-files"]++
			if err := compareStates(after, p.st, c.sc.typeOf, true, "reader after compaction", who); err != nil {
				c.fatalf("%s sees the files of after the compaction but not their content:\n  %v", who, err)
			}
		default:
			// legal as long as the values are right (judged above); counted so that it shows up
			c.counts["seam-reads-of-another-file-set"]++
			c.classes["seam-read-of-a-file-set-that-is-neither-before-nor-after"] = true
		}
		if p.insideCommit() {
			inside++
		}
		if p.afterFault {
			c.counts["seam-reads-after-the-fault"]++
		}
	}
	c.counts["seam-reads"] += reads
	c.counts["seam-reads-inside-commit"] += inside
	if reads > 0 {
		c.classes["seam-readers"] = true
	}
	if inside > 0 && merge {
		c.classes["seam-readers-inside-the-commit-of-a-merge"] = true
	}
	if shared && ran && (inside > 0 || fired) {
		c.nt = true
	}
	if changed {
		c.compacted = true
	}
	return changed, syncFaulted
}

// recoverImages opens every crash image of the observed compaction through the production open
// path and reads it with the same oracle; deep images are compacted once more and read again.
func (c *commitEnv) recoverImages(shared bool, deepOf func(i int) bool) {
	n := 0
	for _, p := range c.points {
		if p.img == "" {
			continue
		}
		who := "store recovered from the crash image taken at " + p.String()
		s, err := kv.GetStoreManager().CreateStore(p.img, kv.DefaultStoreOption())
		if err != nil {
			c.fatalf("%s cannot be opened: %v", who, err)
		}
		func() {
			defer func() {
				if err := kv.GetStoreManager().CloseStore(p.img); err != nil {
					c.fatalf("%s: close: %v", who, err)
				}
				_ = os.RemoveAll(p.img)
			}()
			f := s.GetFamily(familyName)
			if f == nil {
				c.fatalf("%s: the family vanished", who)
			}
			st, lay, err := observeFamily(f, c.sc.Metrics, c.fieldsOf, c.querySeries(), ev.Known(SigSingleFieldBlock))
			if err != nil {
				c.fatalf("%s cannot be read: %v", who, err)
			}
			c.judge(st, "reader of the "+who)
			c.counts["images-recovered"]++
			c.counts["images-recovered:"+p.op]++
			if p.insideCommit() {
				c.counts["images-recovered-inside-commit"]++
				c.classes["crash-image-inside-the-commit"] = true
			}
			if p.afterFault {
				c.classes["crash-image-after-the-fault"] = true
			}
			if deepOf(n) && lay.Level0 > 0 {
				if _, err := kv.VerifCompactSync(f, lay.Level0 > 1); err != nil {
					c.fatalf("%s: compaction after the recovery failed: %v", who, err)
				}
				st2, _, err := observeFamily(f, c.sc.Metrics, c.fieldsOf, c.querySeries(), ev.Known(SigSingleFieldBlock))
				if err != nil {
					c.fatalf("%s cannot be read after a compaction: %v", who, err)
				}
				c.judge(st2, "reader after a compaction of the "+who)
				c.counts["images-compacted-after-recovery"]++
				c.classes["crash-image-compacted-after-recovery"] = true
			}
			n++
		}()
	}
	if n > 0 {
		c.classes["crash-images"] = true
		if shared {
			c.nt = true
		}
	}
}

var faultKinds = []string{"", "", "", "manifestWrite", "manifestWrite", "manifestSync", "manifestSync", "tableCreate", "tableWrite", "tableClose"}

func runCommitCase(t *rapid.T) {
	dir, err := os.MkdirTemp("", "c03c-")
	if err != nil {
		t.Fatalf("harness: %v", err)
	}
	e := &env{t: t, dir: dir, storePath: filepath.Join(dir, "store"), model: newState(), classes: map[string]bool{}}
	c := &commitEnv{env: e, imgDir: filepath.Join(dir, "img"), counts: map[string]int{}}
	restore := c.install() // before the store opens: the manifest writer is wrapped when it is created
	defer func() {
		c.armed = false
		if e.store != nil {
			_ = kv.GetStoreManager().CloseStore(e.storePath)
		}
		restore()
		_ = os.RemoveAll(dir)
	}()
	e.sc = genSchemaOf(t, subset(t, "metrics", metricPool, 1, 3))
	// one case in ten observes the compaction of a single level-0 file (threshold 1, periodic guard):
	// without an overlapping level-1 file that is the "trivial move" whose commit only relinks the file
	single := rapid.IntRange(0, 9).Draw(t, "singleFile") == 0
	e.famOpt = kv.FamilyOption{
		Merger:           string(metricsdata.MetricDataMerger),
		CompactThreshold: rapid.SampledFrom([]int{0, 0, 1, 2}).Draw(t, "compactThreshold"),
		MaxFileSize:      rapid.SampledFrom([]uint32{0, 0, 1, 150, 1 << 20}).Draw(t, "maxFileSize"),
	}
	if single {
		e.famOpt.CompactThreshold = 1
	}
	e.open()
	var canon strings.Builder
	fmt.Fprintf(&canon, "opt=%d/%d;", e.famOpt.CompactThreshold, e.famOpt.MaxFileSize)
	fileNo := 0
	flushN := func(n int) {
		for i := 0; i < n; i++ {
			f := genFile(t, e.sc, fileNo)
			fileNo++
			e.flush(f)
			fmt.Fprintf(&canon, "F:%s;", f.String())
		}
	}
	// optional earlier, plain compaction: the observed one then merges level 0 with level 1
	if rapid.IntRange(0, 2).Draw(t, "earlier") == 0 {
		flushN(rapid.IntRange(1, 2).Draw(t, "earlierFiles"))
		e.compact(true)
		canon.WriteString("C;")
	}
	if single {
		flushN(1)
	} else {
		flushN(rapid.IntRange(2, 4).Draw(t, "files"))
	}

	// the plan of the observed compaction
	c.readers = rapid.IntRange(0, 9).Draw(t, "readers") < 8
	c.images = rapid.IntRange(0, 9).Draw(t, "images") < 5
	c.writeSalt = rapid.IntRange(0, 5).Draw(t, "tableWriteSeams")
	if op := rapid.SampledFrom(faultKinds).Draw(t, "fault"); op != "" {
		at := 0
		switch op {
		case "manifestWrite", "manifestSync":
			// the unchanged tree commits with ONE record; later records exist when a commit is split
			at = rapid.SampledFrom([]int{0, 0, 0, 1, 1, 2}).Draw(t, "faultAt")
		case "tableWrite":
			at = rapid.IntRange(0, 12).Draw(t, "faultAt")
		default: // most jobs write one output table (several with a tiny MaxFileSize)
			at = rapid.SampledFrom([]int{0, 0, 0, 1, 2}).Draw(t, "faultAt")
		}
		c.fault = &faultPlan{op: op, at: at}
	}
	// sensitivity measurements only: VERIF_C03_PLAN=readers|images|faults restricts the plan to one class
	switch os.Getenv("VERIF_C03_PLAN") {
	case "readers":
		c.readers, c.images, c.fault = true, false, nil
	case "images":
		c.readers, c.images, c.fault = false, true, nil
	case "faults":
		c.readers, c.images = false, false
	}
	if !c.readers && !c.images && c.fault == nil {
		c.readers = true
	}
	force := !single && rapid.IntRange(0, 3).Draw(t, "force") > 0
	fmt.Fprintf(&canon, "OBS r=%v i=%v s=%d f=%s force=%v;", c.readers, c.images, c.writeSalt, c.fault, force)
	shared := false
	for _, vs := range e.model.Points {
		if len(vs) > 1 {
			shared = true
			break
		}
	}
	_, syncFaulted := c.probedCompact(force)

	if syncFaulted {
		// the record of the failed commit reached the manifest file: reopen and the images taken after
		// the fault are judged like every other (a store that kept appending to that manifest fails here,
		// see TestRegression_CompactionCommitSyncFailureThenReopen). Exactly ONE operation fails per case,
		// so the replacement of the manifest that follows a failed persist is never hit by a second fault.
		c.classes["reopen-and-images-after-a-commit-sync-fault"] = true
	}
	deepSalt := rapid.IntRange(0, 2).Draw(t, "imagesCompactedAfterRecovery")
	c.recoverImages(shared, func(i int) bool { return (i+deepSalt)%3 == 0 })

	// afterwards: more files, a further compaction, close + reopen, a compaction after the reopen
	steps := rapid.IntRange(0, 7).Draw(t, "afterwards")
	if steps&1 != 0 {
		flushN(rapid.IntRange(1, 2).Draw(t, "laterFiles"))
	}
	e.compact(true)
	canon.WriteString("C;")
	c.classes["further-compaction"] = true
	e.history = append(e.history, "reopen")
	e.close()
	e.open()
	got, _ := e.observe()
	e.checkAgainstModel(got, "after reopen")
	c.judge(got, "reader after close + reopen")
	c.classes["reopen"] = true
	canon.WriteString("R;")
	if steps&2 != 0 {
		flushN(1)
	}
	e.compact(steps&4 != 0)
	got, _ = e.observe()
	c.judge(got, "reader after the compaction that followed the reopen")
	canon.WriteString("C;")
	e.close()

	classes := make([]string, 0, len(e.classes))
	for cl := range e.classes {
		classes = append(classes, cl)
	}
	sort.Strings(classes)
	ev.Case(commitGroup, canon.String(), c.nt, classes, map[string]any{
		"familyOption": fmt.Sprintf("%+v", e.famOpt), "history": e.history, "nonTrivial": c.nt, "counts": c.counts,
	})
	for k, n := range c.counts {
		ev.Class(commitGroup, "total:"+k, n)
	}
}

// TestCompactionCommitWindows: see the head of this file.
func TestCompactionCommitWindows(t *testing.T) {
	rapid.Check(t, runCommitCase)
}
