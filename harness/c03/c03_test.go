// Package c03 checks property C03: compaction of metric data never changes what a reader can observe.
package c03

import (
	"fmt"
	"math"
	"os"
	"path/filepath"
	"sort"
	"strings"
	"testing"
	"time"

	"github.com/lindb/common/pkg/logger"
	"github.com/lindb/roaring"
	"go.uber.org/zap/zapcore"
	"pgregory.net/rapid"

	"github.com/lindb/lindb/kv"
	"github.com/lindb/lindb/series/field"
	"github.com/lindb/lindb/tsdb/tblstore/metricsdata"
	"github.com/lindb/lindb/verifharness/sim/ev"
)

func TestMain(m *testing.M) { ev.Main(m) }

func init() {
	time.Local = time.UTC
	// lindb logs every store/family/edit-log event at info level to stdout
	logger.RunningAtomicLevel.SetLevel(zapcore.FatalLevel)
}

// ---- generators -----------------------------------------------------------------------------

var (
	metricPool = []uint32{1, 2, 3, 5, 9, 100, 70000}
	// series ids around the roaring container boundaries (high key = id >> 16)
	seriesLow      = []uint32{0, 1, 2, 3, 4, 7}
	seriesBoundary = []uint32{65534, 65535, 65536, 65537, 131071, 131072, 131073, 196608}
	fieldTypes     = []field.Type{field.SumField, field.MinField, field.MaxField, field.FirstField, field.LastField, field.HistogramField}
	fieldIDPool    = []field.ID{0, 1, 2, 3, 4, 5, 6, 7, 200, 254}
)

// schema is the part that never changes during a case: which metrics exist, their fields
// (id -> type, as the metadata database assigns them) and the series the shard knows.
type schema struct {
	Metrics []uint32
	Fields  map[uint32][]fieldDef
	Series  map[uint32][]uint32
	// hot is the slot window of the first file of each metric: later files reuse, shift or
	// ignore it, which yields identical, nested, overlapping and disjoint windows
	hot map[uint32][2]int
}

func (s *schema) typeOf(metric uint32, f field.ID) (field.Type, bool) {
	for _, fd := range s.Fields[metric] {
		if fd.ID == f {
			return fd.Type, true
		}
	}
	return field.Unknown, false
}

func subset[T any](t *rapid.T, label string, all []T, min, max int) []T {
	if max > len(all) {
		max = len(all)
	}
	if min > max {
		min = max
	}
	n := rapid.IntRange(min, max).Draw(t, label+"N")
	if n == len(all) {
		return append([]T(nil), all...)
	}
	// choose n distinct indexes (partial Fisher-Yates on a copy), then restore pool order
	idx := make([]int, len(all))
	for i := range idx {
		idx[i] = i
	}
	for i := 0; i < n; i++ {
		j := rapid.IntRange(i, len(idx)-1).Draw(t, label+"I")
		idx[i], idx[j] = idx[j], idx[i]
	}
	chosen := append([]int(nil), idx[:n]...)
	sort.Ints(chosen)
	out := make([]T, n)
	for i, c := range chosen {
		out[i] = all[c]
	}
	return out
}

func permute[T any](t *rapid.T, label string, in []T) []T {
	out := append([]T(nil), in...)
	for i := 0; i < len(out)-1; i++ {
		j := rapid.IntRange(i, len(out)-1).Draw(t, label)
		out[i], out[j] = out[j], out[i]
	}
	return out
}

func genSchema(t *rapid.T) *schema {
	return genSchemaOf(t, subset(t, "metrics", metricPool, 1, 4))
}

func genSchemaOf(t *rapid.T, metrics []uint32) *schema {
	s := &schema{Fields: map[uint32][]fieldDef{}, Series: map[uint32][]uint32{}, hot: map[uint32][2]int{}}
	s.Metrics = metrics
	for _, m := range s.Metrics {
		lbl := fmt.Sprintf("m%d", m)
		ids := subset(t, lbl+"fieldIDs", fieldIDPool, 1, 5)
		for _, id := range ids {
			s.Fields[m] = append(s.Fields[m], fieldDef{ID: id, Type: rapid.SampledFrom(fieldTypes).Draw(t, lbl+"type")})
		}
		var series []uint32
		switch rapid.IntRange(0, 3).Draw(t, lbl+"seriesKind") {
		case 0: // one container
			series = subset(t, lbl+"seriesLow", seriesLow, 1, 4)
		case 1: // only boundary ids
			series = subset(t, lbl+"seriesB", seriesBoundary, 1, 4)
		default: // both
			series = append(subset(t, lbl+"seriesLow", seriesLow, 1, 3), subset(t, lbl+"seriesB", seriesBoundary, 1, 3)...)
		}
		s.Series[m] = series
	}
	return s
}

// valueAt derives the value of a slot from one drawn seed: dyadic rationals k/8, |k| <= 24,
// so sums of the few contributions of a cell are exact in float64. Histogram buckets are only
// written when > 0 (memdb.writeCompoundField), so they get k in 1..24.
//
// Seeds >= 49 select, for the types whose values are never added (min/max/first/last), a second
// class of arbitrary finite floats (extremes, denormals, -0, values with a full mantissa): the
// merge re-encodes every value (XOR compression), which must be lossless for any bit pattern
// ingestion accepts.
func valueAt(t field.Type, seed int, slot uint16) float64 {
	if seed >= 49 && t != field.SumField && t != field.HistogramField {
		return oddFloats[(seed-49+int(slot))%len(oddFloats)]
	}
	k := (seed+int(slot)*7)%49 - 24
	if t == field.HistogramField {
		if k < 0 {
			k = -k
		}
		if k == 0 {
			k = 1
		}
	}
	return float64(k) / 8
}

var oddFloats = []float64{
	math.MaxFloat64, -math.MaxFloat64, math.SmallestNonzeroFloat64, -math.SmallestNonzeroFloat64,
	math.Copysign(0, -1), math.Pi, -math.E, 1 << 53, 1<<53 + 2, 0.1, 1e-300, 123456789.987654321,
}

// genWindow draws the slot window of one metric in one file. Small bases make the windows of
// different files overlap, nest or be disjoint; large bases / widths cross the 360-slot stack
// buffer of the down sampling code.
func genWindow(t *rapid.T, lbl string) (start, width int) {
	switch rapid.IntRange(0, 9).Draw(t, lbl+"winKind") {
	case 0:
		return rapid.SampledFrom([]int{340, 355, 3580}).Draw(t, lbl+"base"), rapid.IntRange(1, 12).Draw(t, lbl+"width")
	case 1:
		return rapid.IntRange(0, 20).Draw(t, lbl+"base"), rapid.IntRange(350, 400).Draw(t, lbl+"wide")
	default:
		return rapid.IntRange(0, 16).Draw(t, lbl+"base"), rapid.IntRange(1, 12).Draw(t, lbl+"width")
	}
}

func genFileMetric(t *rapid.T, sc *schema, metricID uint32, lbl string) *fileMetric {
	fm := &fileMetric{ID: metricID, Data: map[uint32]map[field.ID]map[uint16]float64{}}
	universe := sc.Fields[metricID]
	// fields/series that carry data in this file
	dataFields := subset(t, lbl+"dataFields", universe, 1, 3)
	dataSeries := subset(t, lbl+"dataSeries", sc.Series[metricID], 1, 3)
	// declared: a superset (memdb declares every field with a write store of the same index, and
	// every series of the shard's index, with or without data in this memory database)
	declared := map[field.ID]fieldDef{}
	for _, fd := range dataFields {
		declared[fd.ID] = fd
	}
	known := map[uint32]bool{}
	for _, s := range dataSeries {
		known[s] = true
	}
	if rapid.IntRange(0, 2).Draw(t, lbl+"extra") == 0 {
		for _, fd := range subset(t, lbl+"extraFields", universe, 0, 2) {
			declared[fd.ID] = fd
		}
		for _, s := range subset(t, lbl+"extraSeries", sc.Series[metricID], 0, 3) {
			known[s] = true
		}
	}
	for _, fd := range universe { // universe order, then permuted
		if d, ok := declared[fd.ID]; ok {
			fm.Fields = append(fm.Fields, d)
		}
	}
	if len(fm.Fields) > 1 && rapid.Bool().Draw(t, lbl+"permute") {
		fm.Fields = permute(t, lbl+"perm", fm.Fields)
	}
	var start, width int
	if hot, ok := sc.hot[metricID]; !ok {
		start, width = genWindow(t, lbl)
		sc.hot[metricID] = [2]int{start, width}
	} else {
		switch rapid.IntRange(0, 3).Draw(t, lbl+"winRel") {
		case 0: // same window
			start, width = hot[0], hot[1]
		case 1: // nested / overlapping: shifted start, own small width
			start, width = hot[0]+rapid.IntRange(0, 3).Draw(t, lbl+"shift"), rapid.IntRange(1, 12).Draw(t, lbl+"width")
		case 2: // directly before/after or disjoint
			start, width = hot[0]+hot[1]+rapid.IntRange(0, 2).Draw(t, lbl+"gap"), rapid.IntRange(1, 6).Draw(t, lbl+"width")
		default:
			start, width = genWindow(t, lbl)
		}
	}
	points := 0
	for si, s := range dataSeries {
		for fi, fd := range dataFields {
			first := si == 0 && fi == 0
			if !first && rapid.IntRange(0, 3).Draw(t, lbl+"skip") == 0 {
				continue // this series has no page for this field
			}
			seed := rapid.IntRange(0, 60).Draw(t, lbl+"seed")
			var slots []int
			if width <= 12 {
				mask := rapid.IntRange(1, 1<<width-1).Draw(t, lbl+"mask")
				for b := 0; b < width; b++ {
					if mask&(1<<b) != 0 {
						slots = append(slots, start+b)
					}
				}
			} else {
				n := rapid.IntRange(1, 3).Draw(t, lbl+"wideN")
				for i := 0; i < n; i++ {
					slots = append(slots, start+rapid.SampledFrom([]int{0, 1, 359, 360, 361, width - 1}).Draw(t, lbl+"wideSlot"))
				}
			}
			for _, sl := range slots {
				if fm.Data[s] == nil {
					fm.Data[s] = map[field.ID]map[uint16]float64{}
				}
				if fm.Data[s][fd.ID] == nil {
					fm.Data[s][fd.ID] = map[uint16]float64{}
				}
				fm.Data[s][fd.ID][uint16(sl)] = valueAt(fd.Type, seed, uint16(sl))
				points++
			}
		}
	}
	if points == 0 {
		t.Fatalf("harness: generated a metric without points")
	}
	if len(fm.Fields) == 1 && ev.Known(SigEmptyBucket) {
		// listed finding: a single-field block whose roaring container holds only series
		// without data makes every compaction of the file fail; exclude exactly that shape
		withData := map[uint32]bool{}
		for s := range fm.Data {
			withData[s>>16] = true
		}
		for s := range known {
			if !withData[s>>16] {
				delete(known, s)
			}
		}
	}
	for s := range known {
		fm.Series = append(fm.Series, s)
	}
	sort.Slice(fm.Series, func(i, j int) bool { return fm.Series[i] < fm.Series[j] })
	return fm
}

func genFile(t *rapid.T, sc *schema, fileNo int) *fileSpec {
	lbl := fmt.Sprintf("f%d", fileNo)
	return genFileOf(t, sc, fileNo, subset(t, lbl+"metrics", sc.Metrics, 1, len(sc.Metrics)))
}

// genFileOf generates one flushed file holding exactly the given metrics (ascending).
func genFileOf(t *rapid.T, sc *schema, fileNo int, metrics []uint32) *fileSpec {
	lbl := fmt.Sprintf("f%d", fileNo)
	f := &fileSpec{}
	for _, m := range metrics {
		f.Metrics = append(f.Metrics, genFileMetric(t, sc, m, fmt.Sprintf("%sm%d", lbl, m)))
	}
	return f
}

// ---- the case runner ------------------------------------------------------------------------

type env struct {
	t         *rapid.T
	dir       string
	storePath string
	store     kv.Store
	family    kv.Family
	famOpt    kv.FamilyOption
	sc        *schema
	model     *state
	history   []string
	classes   map[string]bool
	compacted bool // some compaction changed the files already
	nonTriv   bool
}

const familyName = "20190704"

func (e *env) fatalf(format string, args ...any) {
	e.t.Helper()
	e.t.Fatalf(format+"\nfamily option: %+v\nhistory:\n  %s", append(args, e.famOpt, strings.Join(e.history, "\n  "))...)
}

func (e *env) open() {
	s, err := kv.GetStoreManager().CreateStore(e.storePath, kv.DefaultStoreOption())
	if err != nil {
		e.fatalf("open store: %v", err)
	}
	e.store = s
	f := s.GetFamily(familyName)
	if f == nil {
		f, err = s.CreateFamily(familyName, e.famOpt)
		if err != nil {
			e.fatalf("create family: %v", err)
		}
	}
	e.family = f
}

func (e *env) close() {
	if e.store != nil {
		if err := kv.GetStoreManager().CloseStore(e.storePath); err != nil {
			e.fatalf("close store: %v", err)
		}
		e.store, e.family = nil, nil
	}
}

func (e *env) querySeries() *roaring.Bitmap {
	bm := roaring.New()
	for _, ss := range e.sc.Series {
		bm.AddMany(ss)
	}
	// ids nobody ever wrote: must never show up
	bm.AddMany([]uint32{9, 65533, 262144})
	return bm
}

func (e *env) observe() (*state, *layout) {
	st, lay, err := observeFamily(e.family, e.sc.Metrics, func(id uint32) field.Metas {
		defs := map[field.ID]field.Type{}
		for _, fd := range e.sc.Fields[id] {
			defs[fd.ID] = fd.Type
		}
		return queryFields(defs)
	}, e.querySeries(), ev.Known(SigSingleFieldBlock))
	if err != nil {
		e.fatalf("reading the family failed: %v", err)
	}
	if st.RepeatedLookups > 0 {
		e.classes["lookup-repeated"] = true
	}
	if st.CoveredByTwoLevel1Ranges > 0 {
		e.classes["metric-covered-by-2-level1-ranges"] = true
	}
	return st, lay
}

// checkAgainstModel compares what the reader sees with the model.
func (e *env) checkAgainstModel(got *state, when string) {
	if err := compareStates(e.model, got, e.sc.typeOf, !e.compacted, "model", "reader"); err != nil {
		e.fatalf("%s: reader differs from the model of what was written:\n  %v", when, err)
	}
}

func (e *env) flush(f *fileSpec) {
	e.history = append(e.history, "flush "+f.String())
	if err := writeFile(e.family, f); err != nil {
		e.fatalf("flush failed: %v", err)
	}
	e.model.addFile(f)
	// classes of the written file
	for _, m := range f.Metrics {
		hk := map[uint32]bool{}
		for _, s := range m.Series {
			hk[s>>16] = true
			if len(m.Data[s]) == 0 {
				e.classes["series-without-data-in-file"] = true
			}
		}
		if len(hk) > 1 {
			e.classes["container-boundary-crossed"] = true
		}
		for _, fd := range m.Fields {
			has := false
			for _, byField := range m.Data {
				if len(byField[fd.ID]) > 0 {
					has = true
				}
			}
			if !has {
				e.classes["declared-field-without-data"] = true
			}
		}
		if len(m.Fields) == 1 {
			e.classes["single-field-block"] = true
		}
		if r, _ := m.slotRange(); int(r.End)-int(r.Start)+1 > 360 {
			e.classes["range-wider-than-360"] = true
		}
	}
	got, _ := e.observe()
	e.checkAgainstModel(got, "after flush")
}

func (e *env) compact(force bool) {
	before, layBefore := e.observe()
	ran, err := kv.VerifCompactSync(e.family, force)
	e.history = append(e.history, fmt.Sprintf("compact force=%v (L0=%d L1=%d before) ran=%v err=%v", force, layBefore.Level0, layBefore.Level1, ran, err))
	if err != nil {
		hint := ""
		if strings.Contains(err.Error(), "series entries length too short") {
			hint = " [signature " + SigEmptyBucket + "]"
		}
		e.fatalf("compaction failed: %v%s", err, hint)
	}
	after, layAfter := e.observe()
	changed := ran && fmt.Sprint(layAfter.FileLevel) != fmt.Sprint(layBefore.FileLevel)
	// a job that ran (the guard found work: level-0 files at or above the threshold) and reported no error
	// has moved every level-0 file up - merged, or relinked when it is a single file without an overlapping
	// level-1 file. Judged on "ran", not on "the files changed": a job that silently does nothing must not
	// pass as "nothing to do".
	if ran && layBefore.Level0 > 0 && layAfter.Level0 != 0 {
		e.fatalf("the compaction job ran without an error but %d file(s) are still in level 0 (before: L0=%d L1=%d, after: L1=%d)",
			layAfter.Level0, layBefore.Level0, layBefore.Level1, layAfter.Level1)
	}
	if err := compareStates(before, after, e.sc.typeOf, !changed, "reader before compaction", "reader after compaction"); err != nil {
		e.fatalf("compaction changed what the reader observes:\n  %v", err)
	}
	if !changed {
		e.classes["compact-nothing-to-do"] = true
		e.checkAgainstModel(after, "after no-op compaction")
		return
	}
	// classes and the non-trivial rule, from the state before
	shared := false
	for _, vs := range before.Points {
		if len(vs) > 1 {
			shared = true
			break
		}
	}
	if shared {
		e.nonTriv = true
		e.classes["cell-in-several-inputs"] = true
	}
	if layBefore.Level1 > 0 && layBefore.Level0 > 0 {
		for _, n := range layBefore.FilesPerMetric {
			if n > 1 {
				e.classes["level1-overlap"] = true // some metric sits in level 0 and level 1 (level-1 keys are disjoint)
			}
		}
	}
	if layBefore.Level0 == 1 && layAfter.Level1 == layBefore.Level1+1 {
		e.classes["trivial-move"] = true
	}
	if e.compacted {
		e.classes["repeated-compaction"] = true
	}
	newFiles := 0
	for fn := range layAfter.FileLevel {
		if _, old := layBefore.FileLevel[fn]; !old {
			newFiles++
		}
	}
	if newFiles > 1 {
		e.classes["split-output"] = true
	}
	// level-1 inputs are picked per level-0 FILE range (version.PickL0Compaction): a level-1 file
	// between two far-apart level-0 files is left alone and the output's key range spans it
	for _, old := range layBefore.level1() {
		if _, kept := layAfter.FileLevel[old.Number]; !kept || layBefore.Level0 < 2 {
			continue
		}
		e.classes["level1-file-untouched-by-merge"] = true
		for _, nf := range layAfter.level1() {
			if _, isOld := layBefore.FileLevel[nf.Number]; !isOld && nf.overlaps(old) {
				e.classes["output-range-spans-untouched-level1-file"] = true
				e.nonTriv = true
			}
		}
	}
	if layAfter.level1RangesOverlap() {
		e.classes["level1-key-ranges-intersect"] = true
	}
	// fields present in only some of the inputs
	for id, mi := range before.Metrics {
		if mi.Files > 1 {
			e.classes["metric-in-several-inputs"] = true
			_ = id
		}
	}
	e.compacted = true
	// structure: all level-0 files moved up, and level-1 files never share a key
	if layAfter.Level0 != 0 {
		e.fatalf("after a compaction that ran, %d files are still in level 0 (before: L0=%d L1=%d, after: L1=%d)",
			layAfter.Level0, layBefore.Level0, layBefore.Level1, layAfter.Level1)
	}
	for id, n := range layAfter.FilesPerMetric {
		if n != 1 {
			e.fatalf("after compaction metric %d is held by %d files", id, n)
		}
	}
	e.checkAgainstModel(after, "after compaction")
}

// caseGen is the generator side of a case.
type caseGen struct {
	group    string
	schema   func(t *rapid.T) *schema
	file     func(t *rapid.T, sc *schema, fileNo int) *fileSpec
	maxFiles int
	sizes    []uint32 // MaxFileSize choices
}

var smallCases = caseGen{
	group: "TestCompactionKeepsObservations", schema: genSchema, file: genFile, maxFiles: 6,
	// 0 = production default (256 MiB); tiny values split the compaction output over several files
	sizes: []uint32{0, 1, 150, 400, 1 << 20},
}

func runCase(t *rapid.T) { runCaseWith(t, smallCases) }

func runCaseWith(t *rapid.T, gen caseGen) {
	dir, err := os.MkdirTemp("", "c03-")
	if err != nil {
		t.Fatalf("harness: %v", err)
	}
	e := &env{t: t, dir: dir, storePath: filepath.Join(dir, "store"), model: newState(), classes: map[string]bool{}}
	defer func() {
		if e.store != nil {
			_ = kv.GetStoreManager().CloseStore(e.storePath)
		}
		_ = os.RemoveAll(dir)
	}()
	e.sc = gen.schema(t)
	e.famOpt = kv.FamilyOption{
		Merger:           string(metricsdata.MetricDataMerger),
		CompactThreshold: rapid.SampledFrom([]int{0, 0, 1, 2}).Draw(t, "compactThreshold"),
		MaxFileSize:      rapid.SampledFrom(gen.sizes).Draw(t, "maxFileSize"),
	}
	e.open()

	nFiles := rapid.IntRange(2, gen.maxFiles).Draw(t, "nFiles")
	var canon strings.Builder
	fmt.Fprintf(&canon, "opt=%d/%d;", e.famOpt.CompactThreshold, e.famOpt.MaxFileSize)
	fieldSets := map[uint32]map[string]bool{}
	for i := 0; i < nFiles; i++ {
		f := gen.file(t, e.sc, i)
		for _, m := range f.Metrics {
			ids := make([]int, 0, len(m.Fields))
			for _, fd := range m.Fields {
				ids = append(ids, int(fd.ID))
			}
			sort.Ints(ids)
			if fieldSets[m.ID] == nil {
				fieldSets[m.ID] = map[string]bool{}
			}
			fieldSets[m.ID][fmt.Sprint(ids)] = true
		}
		e.flush(f)
		fmt.Fprintf(&canon, "F:%s;", f.String())
		last := i == nFiles-1
		if last || rapid.IntRange(0, 3).Draw(t, "compactNow") == 0 {
			force := last || rapid.Bool().Draw(t, "force")
			e.compact(force)
			fmt.Fprintf(&canon, "C%v;", force)
		}
		if rapid.IntRange(0, 9).Draw(t, "reopen") == 0 {
			e.history = append(e.history, "reopen")
			e.close()
			e.open()
			got, _ := e.observe()
			e.checkAgainstModel(got, "after reopen")
			e.classes["reopen"] = true
			canon.WriteString("R;")
		}
	}
	// repeated compaction: nothing (or a single level-0 file) left to do must not change anything
	if rapid.Bool().Draw(t, "again") {
		e.compact(rapid.Bool().Draw(t, "againForce"))
		canon.WriteString("C2;")
	}
	for _, sets := range fieldSets {
		if len(sets) > 1 {
			e.classes["field-only-in-some-files"] = true
		}
	}
	e.close()

	classes := make([]string, 0, len(e.classes))
	for c := range e.classes {
		classes = append(classes, c)
	}
	sort.Strings(classes)
	ev.Case(gen.group, canon.String(), e.nonTriv, classes, map[string]any{
		"familyOption": fmt.Sprintf("%+v", e.famOpt), "history": e.history, "nonTrivial": e.nonTriv,
	})
}

// ---- dense series sets -----------------------------------------------------------------------

// Dense cases: one or two metrics whose series ids form long runs, so the roaring containers of
// the series bitmaps are bitmap containers (> 4096 ids) or full containers, blocks exceed 64 KiB
// (3-byte offsets) and more than 65536 series cross a container boundary the way a real shard
// fills up. Files take every id, every second id or a sub-range, so that the merge meets series
// present in one, the other or both inputs.
func genSchemaDense(t *rapid.T) *schema {
	s := &schema{Fields: map[uint32][]fieldDef{}, Series: map[uint32][]uint32{}, hot: map[uint32][2]int{}}
	s.Metrics = subset(t, "metrics", []uint32{1, 2}, 1, 2)
	for _, m := range s.Metrics {
		lbl := fmt.Sprintf("m%d", m)
		for _, id := range subset(t, lbl+"fieldIDs", []field.ID{0, 1, 2}, 1, 2) {
			s.Fields[m] = append(s.Fields[m], fieldDef{ID: id, Type: rapid.SampledFrom(fieldTypes).Draw(t, lbl+"type")})
		}
		n := rapid.SampledFrom([]int{4095, 4096, 4097, 5000, 9000, 65536, 65537, 70000}).Draw(t, lbl+"seriesN")
		base := rapid.SampledFrom([]uint32{0, 61000}).Draw(t, lbl+"seriesBase")
		ids := make([]uint32, n)
		for i := range ids {
			ids[i] = base + uint32(i)
		}
		s.Series[m] = ids
	}
	return s
}

func genFileDense(t *rapid.T, sc *schema, fileNo int) *fileSpec {
	f := &fileSpec{}
	var label strings.Builder
	for _, m := range subset(t, fmt.Sprintf("f%dmetrics", fileNo), sc.Metrics, 1, len(sc.Metrics)) {
		lbl := fmt.Sprintf("f%dm%d", fileNo, m)
		fm := &fileMetric{ID: m, Data: map[uint32]map[field.ID]map[uint16]float64{}}
		fm.Fields = subset(t, lbl+"fields", sc.Fields[m], 1, 2)
		if len(fm.Fields) > 1 && rapid.Bool().Draw(t, lbl+"swap") {
			fm.Fields[0], fm.Fields[1] = fm.Fields[1], fm.Fields[0]
		}
		all := sc.Series[m]
		stride := rapid.SampledFrom([]int{1, 1, 2, 3}).Draw(t, lbl+"stride")
		offset := rapid.IntRange(0, stride-1).Draw(t, lbl+"offset")
		from := rapid.SampledFrom([]int{0, 0, 1, len(all) / 2}).Draw(t, lbl+"from")
		to := rapid.SampledFrom([]int{len(all), len(all), len(all) - 1, len(all)/2 + 1}).Draw(t, lbl+"to")
		if to <= from {
			from, to = 0, len(all)
		}
		start := rapid.IntRange(0, 3).Draw(t, lbl+"start")
		width := rapid.IntRange(1, 3).Draw(t, lbl+"width")
		seed := rapid.IntRange(0, 60).Draw(t, lbl+"seed")
		declareAll := rapid.Bool().Draw(t, lbl+"declareAll") // series of the shard index without data in this file
		for i := from; i < to; i++ {
			sid := all[i]
			hasData := (i-from)%stride == offset
			if !hasData && !declareAll {
				continue
			}
			fm.Series = append(fm.Series, sid)
			if !hasData {
				continue
			}
			byField := map[field.ID]map[uint16]float64{}
			for fi, fd := range fm.Fields {
				if fi == 1 && sid%5 == 0 {
					continue // second field absent for some series
				}
				bySlot := map[uint16]float64{}
				for w := 0; w < width; w++ {
					if (int(sid)+w)%4 == 3 {
						continue // sparse
					}
					sl := uint16(start + w)
					bySlot[sl] = valueAt(fd.Type, seed+int(sid%3), sl)
				}
				if len(bySlot) > 0 {
					byField[fd.ID] = bySlot
				}
			}
			if len(byField) > 0 {
				fm.Data[sid] = byField
			}
		}
		if fm.numPoints() == 0 {
			continue
		}
		if len(fm.Fields) == 1 && ev.Known(SigEmptyBucket) {
			withData := map[uint32]bool{}
			for sid := range fm.Data {
				withData[sid>>16] = true
			}
			kept := fm.Series[:0]
			for _, sid := range fm.Series {
				if withData[sid>>16] {
					kept = append(kept, sid)
				}
			}
			fm.Series = kept
		}
		fmt.Fprintf(&label, "m%d[fields %v series %d..%d(%d declared, %d with data) stride %d/%d slots %d+%d seed %d] ",
			m, fm.Fields, all[from], all[to-1], len(fm.Series), len(fm.Data), stride, offset, start, width, seed)
		f.Metrics = append(f.Metrics, fm)
	}
	if len(f.Metrics) == 0 {
		// every drawn metric came out empty (sparse rule): fall back to one dense point set
		m := sc.Metrics[0]
		fd := sc.Fields[m][0]
		fm := &fileMetric{ID: m, Fields: []fieldDef{fd}, Data: map[uint32]map[field.ID]map[uint16]float64{}}
		for _, sid := range sc.Series[m] {
			fm.Series = append(fm.Series, sid)
			fm.Data[sid] = map[field.ID]map[uint16]float64{fd.ID: {0: valueAt(fd.Type, 1, 0)}}
		}
		fmt.Fprintf(&label, "m%d[fallback: field %v all %d series slot 0] ", m, fd, len(fm.Series))
		f.Metrics = append(f.Metrics, fm)
	}
	f.Label = label.String()
	return f
}

var denseCases = caseGen{
	group: "TestCompactionDenseSeries", schema: genSchemaDense, file: genFileDense, maxFiles: 3,
	sizes: []uint32{0, 1, 1 << 18},
}

// TestCompactionDenseSeries is the same property over long runs of series ids (bitmap / full
// roaring containers, > 65536 series, blocks larger than 64 KiB).
func TestCompactionDenseSeries(t *testing.T) {
	rapid.Check(t, func(t *rapid.T) { runCaseWith(t, denseCases) })
}

// TestCompactionKeepsObservations is the property: after every flush the reader shows exactly
// what the model says was written, and every compaction leaves every (metric, series, field,
// slot) with the same aggregate (sum/min/max/histogram) or one of the contributed values
// (first/last), with identical sets of cells, series and fields.
func TestCompactionKeepsObservations(t *testing.T) {
	rapid.Check(t, runCase)
}
