package c03

// Other jobs of the SAME family running between the output files of ONE compaction job.
//
// A level-0 compaction whose output is split over several files (family MaxFileSize reached) writes
// output 1, finishes it, writes output 2, ... and only then commits ONE edit log (delete the inputs,
// add all outputs). Until that commit a finished output belongs to no version. Production runs other
// work of the same family at any of these moments:
//
//   - store.compact() (the store's periodic tick) starts family.compact() AND family.rollup() for a
//     family in the same tick and ends with a cleanup of the reader cache;
//   - the rollup goroutine of the family ends - in its defer, whatever it did - with
//     family.deleteObsoleteFiles(), which lists the family directory and removes every table that is
//     neither part of a live version, nor a pending output, nor waiting for a rollup;
//   - the memory database is flushed (family.NewFlusher ... Commit: a new level-0 file and an edit
//     log of its own) while the compaction runs;
//   - queries take a fresh snapshot.
//
// The statement of C03 has no "while nothing else happens" clause: the model of the family is changed
// by a flush only, so after the job, at every moment inside it and after a close + reopen a reader
// must observe exactly the model.
//
// Owned interleaving (DESIGN 3.2): the compaction runs on the test goroutine (kv.VerifCompactSync).
// The table seams of kv/table call back into the harness at the creation / every write / the close
// of each output table, the manifest seam right before the job's commit record is written. At the
// seams chosen by a generated plan the harness runs, re-entrantly and to completion, one or more
// production jobs of the same family:
//
//	obsolete-pass     kv.VerifDeleteObsoleteFiles(family)   = family.deleteObsoleteFiles()
//	rollup-goroutine  kv.VerifRollup(family) + wait         = the production goroutine of family.rollup():
//	                  nothing to roll up / target store not open / a real rollup of the level-0 files
//	                  into an open target store; ends with the deferred obsolete-file pass
//	store-tick        kv.VerifStoreCompact(store) + wait    = store.compact(): needCompact (a job is
//	                  running), needRollup -> rollup goroutine, cache cleanup
//	cache-cleanup     kv.VerifCacheCleanup(store)           (store TTL already expired or not)
//	flush-commit      a further file through the production metricsdata flusher + kv flusher commit
//	reader            nothing but the observation below
//
// Locks: at a table seam the compaction holds its snapshot and nothing else, every job above is
// legal there. At the commit seam CommitFamilyEditLog holds the version set's mutex: only the
// obsolete-file pass and the cache cleanup (family version lock / cache lock) run there, no job that
// commits an edit log of its own.
//
// After each nested job at a table seam a fresh snapshot is read completely (every metric, series,
// field, slot through the production read path) and, if drawn, the store directory is copied as a
// crash image. Everything is judged after the job against the model AS OF THAT SEAM (the files
// flushed until then), then the live store after the job, every recovered image, a further
// compaction, a close + reopen and a compaction after the reopen.

import (
	"fmt"
	"os"
	"path/filepath"
	"runtime"
	"sort"
	"strings"
	"testing"
	"time"

	"github.com/lindb/common/pkg/ltoml"
	"pgregory.net/rapid"

	"github.com/lindb/lindb/kv"
	"github.com/lindb/lindb/kv/table"
	"github.com/lindb/lindb/kv/version"
	"github.com/lindb/lindb/pkg/timeutil"
	"github.com/lindb/lindb/series/field"
	"github.com/lindb/lindb/tsdb/tblstore/metricsdata"
	"github.com/lindb/lindb/verifharness/sim/crash"
	"github.com/lindb/lindb/verifharness/sim/ev"
)

const nestedGroup = "TestCompactionNestedFamilyJobs"

// store / family names laid out as tsdb does (kv family.rollup derives the target store from them):
// source = day store 20190702 with 10 s slots, family = hour 10; target = month store 201907 (5 min).
const (
	nestedSourceInterval = timeutil.Interval(10 * 1000)
	nestedTargetInterval = timeutil.Interval(5 * 60 * 1000)
	nestedFamilyName     = "10"
	nestedSlotsPerFamily = 360 // an hour of 10 s slots: what a real rollup may be fed with
)

var (
	nestedJobKinds = []string{
		"obsolete-pass", "obsolete-pass", "obsolete-pass", "obsolete-pass",
		"rollup-goroutine", "rollup-goroutine", "rollup-goroutine",
		"store-tick", "store-tick", "cache-cleanup", "flush-commit", "flush-commit", "reader",
	}
	nestedSeamKinds = []string{
		"tableCreate", "tableCreate", "tableCreate", "tableWrite", "tableWrite",
		"tableCloseBefore", "tableCloseBefore", "tableCloseAfter", "tableCloseAfter", "commit", "commit",
	}
)

// nestedStep is one entry of the plan: run job at the seam (op, out, w) of the observed compaction.
type nestedStep struct {
	op    string // tableCreate (after) | tableWrite (before) | tableCloseBefore | tableCloseAfter | commit
	out   int    // 0-based number of the output table the seam belongs to (ignored for commit)
	w     int    // tableWrite: number of the write inside that output
	job   string
	file  *fileSpec // flush-commit: the file, generated before the job starts
	fired bool
}

func (s *nestedStep) String() string {
	switch s.op {
	case "commit":
		return fmt.Sprintf("%s@commit", s.job)
	case "tableWrite":
		return fmt.Sprintf("%s@%s#%d.%d", s.job, s.op, s.out+1, s.w+1)
	}
	return fmt.Sprintf("%s@%s#%d", s.job, s.op, s.out+1)
}

// nestedSeam is a seam of the observed compaction at which something was run.
type nestedSeam struct {
	no       int
	op       string
	out, w   int
	finished int // output tables the job had closed when the seam was reached
	jobs     []string
	removed  []string // tables removed by the nested jobs here (diagnostics)
	nFiles   int      // files flushed so far (after the nested jobs): the model of this seam
	st       *state
	lay      *layout
	err      error
	img      string
}

func (p *nestedSeam) String() string {
	where := ""
	switch p.op {
	case "commit":
		where = "right before the commit record of the job is written"
	case "tableWrite":
		where = fmt.Sprintf("before write #%d into output table #%d", p.w+1, p.out+1)
	case "tableCreate":
		where = fmt.Sprintf("after the creation of output table #%d", p.out+1)
	case "tableCloseBefore":
		where = fmt.Sprintf("before the close of output table #%d", p.out+1)
	case "tableCloseAfter":
		where = fmt.Sprintf("after the close of output table #%d", p.out+1)
	}
	s := fmt.Sprintf("seam #%d (%s; %d output table(s) finished, none committed) after the nested %v", p.no, where, p.finished, p.jobs)
	if len(p.removed) > 0 {
		s += fmt.Sprintf(" [tables removed by them: %v]", p.removed)
	}
	return s
}

type nestedEnv struct {
	*env
	base       string
	targetPath string
	imgDir     string
	storeOpt   kv.StoreOption
	rollupCfg  string // none | target-closed | target-open
	target     kv.Store
	files      []*fileSpec // every flushed file in flush order (the model of a seam = a prefix)

	plan   []*nestedStep
	dense  string // "" or the job run at EVERY table-create/close seam from output #2 on and at the commit
	images bool

	armed    bool
	inNested bool
	out      int // current output table (-1 before the first)
	w        int
	finished int
	seams    []*nestedSeam
	cur      *nestedSeam
	counts   map[string]int
	nt       bool
}

func (c *nestedEnv) open() {
	s, err := kv.GetStoreManager().CreateStore(c.storePath, c.storeOpt)
	if err != nil {
		c.fatalf("open store: %v", err)
	}
	c.store = s
	f := s.GetFamily(nestedFamilyName)
	if f == nil {
		if f, err = s.CreateFamily(nestedFamilyName, c.famOpt); err != nil {
			c.fatalf("create family: %v", err)
		}
	}
	c.family = f
}

func (c *nestedEnv) flushFile(f *fileSpec) {
	c.flush(f)
	c.files = append(c.files, f)
}

func modelOf(files []*fileSpec) *state {
	st := newState()
	for _, f := range files {
		st.addFile(f)
	}
	return st
}

func (c *nestedEnv) waitFamilyIdle() {
	kv.VerifWaitIdle(c.family)
	for !kv.VerifRollupIdle(c.family) {
		runtime.Gosched()
	}
}

// runJob runs one nested job to completion. Errors are recorded, never raised inside production code.
func (c *nestedEnv) runJob(p *nestedSeam, s *nestedStep) {
	job := s.job
	if p.op == "commit" && job != "cache-cleanup" {
		job = "obsolete-pass" // the version set's mutex is held: no job that commits an edit log
	}
	switch job {
	case "obsolete-pass":
		kv.VerifDeleteObsoleteFiles(c.family)
	case "rollup-goroutine":
		kv.VerifRollup(c.family)
		c.waitFamilyIdle()
	case "store-tick":
		kv.VerifStoreCompact(c.store)
		c.waitFamilyIdle()
	case "cache-cleanup":
		kv.VerifCacheCleanup(c.store)
	case "flush-commit":
		if s.file == nil || s.fired {
			job = "reader" // dense mode re-uses the step: one file only
			break
		}
		if err := writeFile(c.family, s.file); err != nil {
			if p.err == nil {
				p.err = fmt.Errorf("nested flush failed: %w", err)
			}
			break
		}
		c.model.addFile(s.file)
		c.files = append(c.files, s.file)
		c.history = append(c.history, "  nested flush "+s.file.String())
	case "reader":
	}
	s.fired = true
	p.jobs = append(p.jobs, job)
	c.counts["nested:"+job]++
	if p.finished > 0 {
		c.counts["nested-with-finished-uncommitted-output:"+job]++
	}
	if p.out >= 1 || p.op == "commit" {
		c.counts["nested-from-the-2nd-output-on"]++
	}
}

func (c *nestedEnv) atSeam(op string) {
	var due []*nestedStep
	for _, s := range c.plan {
		if s.fired || s.op != op {
			continue
		}
		if op == "commit" || (s.out == c.out && (op != "tableWrite" || s.w == c.w)) {
			due = append(due, s)
		}
	}
	if c.dense != "" && op != "tableWrite" && (c.out >= 1 || op == "commit") {
		due = append(due, &nestedStep{op: op, out: c.out, job: c.dense})
	}
	if len(due) == 0 {
		return
	}
	p := &nestedSeam{no: len(c.seams), op: op, out: c.out, w: c.w, finished: c.finished}
	c.seams = append(c.seams, p)
	c.cur, c.inNested = p, true
	for _, s := range due {
		c.runJob(p, s)
	}
	c.cur, c.inNested = nil, false
	p.nFiles = len(c.files)
	c.counts["seam:"+op]++
	if op != "commit" {
		// a query arriving now: fresh snapshot, everything read (family version lock and cache lock only)
		c.inNested = true
		st, lay, err := observeFamily(c.family, c.sc.Metrics, c.fieldsOfSchema, c.querySeries(), ev.Known(SigSingleFieldBlock))
		c.inNested = false
		p.st, p.lay = st, lay
		if err != nil && p.err == nil {
			p.err = fmt.Errorf("reading a fresh snapshot failed: %w", err)
		}
		c.counts["seam-reads"]++
		if c.images {
			p.img = filepath.Join(c.imgDir, fmt.Sprintf("img-%03d", p.no))
			if err := crash.CopyTree(c.storePath, p.img); err != nil {
				panic(fmt.Sprintf("harness: copy image: %v", err))
			}
		}
	}
}

func (c *nestedEnv) fieldsOfSchema(id uint32) field.Metas {
	defs := map[field.ID]field.Type{}
	for _, fd := range c.sc.Fields[id] {
		defs[fd.ID] = fd.Type
	}
	return queryFields(defs)
}

// hook: seams of the observed compaction. Operations of the nested jobs themselves (tables of a nested
// flush or of the rollup's target family, their commits, the removals of a nested pass - possibly on the
// rollup goroutine while the test goroutine waits for it) are not seams.
func (c *nestedEnv) hook(op, path string, before bool) {
	if !c.armed {
		return
	}
	if c.inNested {
		if op == "removeDir" && before && c.cur != nil && strings.HasSuffix(path, ".sst") && filepath.Dir(path) == filepath.Join(c.storePath, nestedFamilyName) {
			c.cur.removed = append(c.cur.removed, filepath.Base(path))
			c.counts["tables-removed-by-nested-jobs"]++
		}
		return
	}
	switch {
	case op == "tableCreate" && !before:
		c.out++
		c.w = 0
		c.atSeam("tableCreate")
	case op == "tableWrite" && before:
		c.atSeam("tableWrite")
		c.w++
	case op == "tableClose" && before:
		c.atSeam("tableCloseBefore")
	case op == "tableClose" && !before:
		c.finished++
		c.atSeam("tableCloseAfter")
	case op == "manifestWrite" && before:
		c.atSeam("commit")
	}
}

func (c *nestedEnv) install() func() {
	kv.VerifSetFSHook(c.hook)
	version.VerifSetFSHook(c.hook)
	table.VerifSetFSHook(c.hook)
	return func() {
		kv.VerifSetFSHook(nil)
		version.VerifSetFSHook(nil)
		table.VerifSetFSHook(nil)
	}
}

func (c *nestedEnv) judgeAgainst(model, got *state, who string) {
	if err := compareStates(model, got, c.sc.typeOf, false, "model", who); err != nil {
		c.fatalf("%s differs from the model of what was flushed:\n  %v", who, err)
	}
	if err := checkNoExtraContributions(model, got); err != nil {
		c.fatalf("%s: %v", who, err)
	}
}

// everyLiveTableExists: a version may only name tables that are on disk (a reader of a metric that the
// generated query does not touch would hit the missing file).
func (c *nestedEnv) everyLiveTableExists(lay *layout, when string) {
	for _, f := range lay.Files {
		name := filepath.Join(c.storePath, nestedFamilyName, version.Table(table.FileNumber(f.Number)))
		if _, err := os.Stat(name); err != nil {
			c.fatalf("%s: the current version names table %d (level %d, keys %d..%d) but its file is gone: %v", when, f.Number, f.Level, f.Min, f.Max, err)
		}
	}
}

// observedCompact runs one compaction with the planned jobs nested at its seams and judges everything.
func (c *nestedEnv) observedCompact(force bool) {
	before, layBefore := c.observe()
	c.checkAgainstModel(before, "before the observed compaction")
	nBefore := len(c.files)

	c.out, c.w, c.finished, c.seams = -1, 0, 0, nil
	c.armed = true
	ran, err := kv.VerifCompactSync(c.family, force)
	c.armed = false
	c.waitFamilyIdle()
	var plan []string
	for _, s := range c.plan {
		plan = append(plan, s.String())
	}
	c.history = append(c.history, fmt.Sprintf("OBSERVED compact force=%v (L0=%d L1=%d before) plan=%v dense=%q rollup=%s images=%v ran=%v err=%v outputs=%d seams-with-nested-jobs=%d",
		force, layBefore.Level0, layBefore.Level1, plan, c.dense, c.rollupCfg, c.images, ran, err, c.out+1, len(c.seams)))
	for _, p := range c.seams {
		c.history = append(c.history, "  "+p.String())
	}
	if err != nil {
		c.fatalf("the compaction failed although no fault was injected: %v", err)
	}

	after, layAfter := c.observe()
	changed := !sameFiles(layBefore, layAfter)
	if changed {
		c.compacted = true
	}
	who := "reader after the compaction with nested jobs of the same family"
	c.judgeAgainst(c.model, after, who)
	if nested := len(c.files) - nBefore; ran && layAfter.Level0 != nested {
		c.fatalf("the compaction job ran without an error: its %d level-0 inputs should have moved up and the %d file(s) flushed inside the job should be in level 0, but level 0 holds %d file(s)",
			layBefore.Level0, nested, layAfter.Level0)
	}
	c.everyLiveTableExists(layAfter, who)
	if len(c.files) == nBefore {
		// no nested flush: the strict before/after comparison of the property
		if err := compareStates(before, after, c.sc.typeOf, !changed, "reader before compaction", "reader after compaction"); err != nil {
			c.fatalf("the compaction changed what the reader observes:\n  %v", err)
		}
	}

	// what fresh snapshots saw between the outputs
	for _, p := range c.seams {
		who := "reader with a fresh snapshot at " + p.String() + " of the running compaction"
		if p.err != nil {
			c.fatalf("%s: %v", who, p.err)
		}
		if p.st == nil {
			continue
		}
		c.judgeAgainst(modelOf(c.files[:p.nFiles]), p.st, who)
	}

	// classes
	outputs := c.out + 1
	merge := ran && changed && outputs > 0
	shared := false
	for _, vs := range before.Points {
		if len(vs) > 1 {
			shared = true
			break
		}
	}
	switch {
	case !ran:
		c.classes["observed-compaction-nothing-to-do"] = true
	case !merge:
		c.classes["observed-trivial-move"] = true
	default:
		c.classes["observed-merge"] = true
		if outputs > 1 {
			c.classes["observed-merge-split-output"] = true
			c.classes[fmt.Sprintf("outputs:%d", min(outputs, 4))] = true
		}
		if layBefore.Level1 > 0 {
			c.classes["observed-merge-with-level1-files"] = true
		}
		if shared {
			c.classes["observed-merge-of-shared-cells"] = true
		}
	}
	window, between := false, false
	for _, p := range c.seams {
		for _, j := range p.jobs {
			c.classes["nested:"+j] = true
			c.classes["nested:"+j+"@"+p.op] = true
			if p.finished > 0 {
				window = true
				c.classes["in-window:"+j] = true
			}
			if p.out >= 1 && p.op != "commit" {
				between = true
			}
		}
		if len(p.jobs) > 1 {
			c.classes["several-jobs-at-one-seam"] = true
		}
		if len(p.removed) > 0 {
			c.classes["nested-job-removed-tables"] = true
		}
	}
	if window {
		c.classes["nested-job-while-a-finished-output-is-uncommitted"] = true
	}
	if between {
		c.classes["nested-job-between-outputs-of-a-split-merge"] = true
	}
	if len(c.files) > nBefore {
		c.classes["flush-committed-inside-the-job"] = true
	}
	for _, s := range c.plan {
		if !s.fired {
			c.classes["planned-but-seam-not-reached"] = true
			c.counts["planned-but-seam-not-reached"]++
		}
	}
	if c.rollupCfg == "target-open" && c.counts["nested:rollup-goroutine"]+c.counts["nested:store-tick"] > 0 {
		c.classes["real-rollup-of-the-inputs-inside-the-job"] = true
	}
	c.counts["outputs"] += outputs
	// non-trivial (this test): a merge during which a job of the same family ran while at least one
	// finished output table was neither committed nor abandoned
	if merge && window {
		c.nt = true
	}
}

func (c *nestedEnv) recoverImages(deepOf func(i int) bool) {
	n := 0
	for _, p := range c.seams {
		if p.img == "" {
			continue
		}
		who := "store recovered from the crash image taken at " + p.String()
		s, err := kv.GetStoreManager().CreateStore(p.img, c.storeOpt)
		if err != nil {
			c.fatalf("%s cannot be opened: %v", who, err)
		}
		func() {
			defer func() {
				if err := kv.GetStoreManager().CloseStore(p.img); err != nil {
					c.fatalf("%s: close: %v", who, err)
				}
				_ = os.RemoveAll(p.img)
			}()
			f := s.GetFamily(nestedFamilyName)
			if f == nil {
				c.fatalf("%s: the family vanished", who)
			}
			model := modelOf(c.files[:p.nFiles])
			st, lay, err := observeFamily(f, c.sc.Metrics, c.fieldsOfSchema, c.querySeries(), ev.Known(SigSingleFieldBlock))
			if err != nil {
				c.fatalf("%s cannot be read: %v", who, err)
			}
			c.judgeAgainst(model, st, "reader of the "+who)
			c.counts["images-recovered"]++
			if deepOf(n) && lay.Level0 > 0 {
				if _, err := kv.VerifCompactSync(f, lay.Level0 > 1); err != nil {
					c.fatalf("%s: compaction after the recovery failed: %v", who, err)
				}
				st2, _, err := observeFamily(f, c.sc.Metrics, c.fieldsOfSchema, c.querySeries(), ev.Known(SigSingleFieldBlock))
				if err != nil {
					c.fatalf("%s cannot be read after a compaction: %v", who, err)
				}
				c.judgeAgainst(model, st2, "reader after a compaction of the "+who)
				c.counts["images-compacted-after-recovery"]++
			}
			n++
		}()
	}
	if n > 0 {
		c.classes["crash-images-between-outputs"] = true
	}
}

func runNestedCase(t *rapid.T) {
	dir, err := os.MkdirTemp("", "c03n-")
	if err != nil {
		t.Fatalf("harness: %v", err)
	}
	base := filepath.Join(dir, "db", "shard", "1", "segment")
	e := &env{t: t, dir: dir, storePath: filepath.Join(base, "day", "20190702"), model: newState(), classes: map[string]bool{}}
	c := &nestedEnv{env: e, base: base, targetPath: filepath.Join(base, "month", "201907"), imgDir: filepath.Join(dir, "img"), counts: map[string]int{}}
	restore := c.install() // before the store opens: the manifest writer is wrapped when it is created
	defer func() {
		c.armed = false
		if e.family != nil {
			c.waitFamilyIdle()
		}
		if c.target != nil {
			_ = kv.GetStoreManager().CloseStore(c.targetPath)
		}
		if e.store != nil {
			_ = kv.GetStoreManager().CloseStore(e.storePath)
		}
		restore()
		_ = os.RemoveAll(dir)
	}()

	e.sc = genSchemaOf(t, subset(t, "metrics", metricPool, 2, 4))
	e.famOpt = kv.FamilyOption{
		Merger:           string(metricsdata.MetricDataMerger),
		CompactThreshold: rapid.SampledFrom([]int{0, 0, 1, 2}).Draw(t, "compactThreshold"),
		// 1: one output table per metric; 150/400: an output is closed once a few blocks are in it
		MaxFileSize:     rapid.SampledFrom([]uint32{1, 1, 1, 150, 400, 0}).Draw(t, "maxFileSize"),
		RollupThreshold: rapid.SampledFrom([]int{1, 1, 0}).Draw(t, "rollupThreshold"),
	}
	c.storeOpt = kv.DefaultStoreOption()
	c.rollupCfg = rapid.SampledFrom([]string{"none", "target-closed", "target-closed", "target-open", "target-open"}).Draw(t, "rollup")
	if c.rollupCfg != "none" {
		c.storeOpt.Source = nestedSourceInterval
		c.storeOpt.Rollup = []timeutil.Interval{nestedTargetInterval}
	}
	if rapid.Bool().Draw(t, "cacheTTLExpired") {
		// stand-in for "more than the cache TTL has passed since the reader was used": every unreferenced
		// reader counts as expired, the cleanup evicts (unmaps, closes) it. No oracle depends on it.
		c.storeOpt.TTL = ltoml.Duration(-time.Hour)
		c.classes["reader-cache-ttl-expired"] = true
	}
	if c.rollupCfg == "target-open" {
		// a real family of 10 s slots holds 360 of them: start every metric in a small window (later files
		// still leave it now and then; the target store is opened only if no flushed slot is beyond 359)
		for _, m := range e.sc.Metrics {
			e.sc.hot[m] = [2]int{rapid.IntRange(0, 16).Draw(t, "hotBase"), rapid.IntRange(1, 12).Draw(t, "hotWidth")}
		}
	}
	c.open()
	var canon strings.Builder
	fmt.Fprintf(&canon, "opt=%d/%d/%d/%s/%v;", e.famOpt.CompactThreshold, e.famOpt.MaxFileSize, e.famOpt.RollupThreshold, c.rollupCfg, c.storeOpt.TTL)
	fileNo := 0
	nextFile := func() *fileSpec {
		f := genFile(t, e.sc, fileNo)
		fileNo++
		return f
	}
	flushN := func(n int) {
		for i := 0; i < n; i++ {
			f := nextFile()
			c.flushFile(f)
			fmt.Fprintf(&canon, "F:%s;", f.String())
		}
	}
	// optional earlier, plain compaction: the observed one then merges level 0 with level 1
	if rapid.IntRange(0, 2).Draw(t, "earlier") == 0 {
		flushN(rapid.IntRange(1, 2).Draw(t, "earlierFiles"))
		e.compact(true)
		canon.WriteString("C;")
	}
	flushN(rapid.IntRange(2, 4).Draw(t, "files"))

	// the plan
	if rapid.IntRange(0, 3).Draw(t, "dense") == 0 {
		c.dense = rapid.SampledFrom([]string{"obsolete-pass", "obsolete-pass", "rollup-goroutine", "store-tick", "cache-cleanup"}).Draw(t, "denseJob")
	}
	nSteps := rapid.IntRange(1, 4).Draw(t, "steps")
	if c.dense != "" {
		nSteps = rapid.IntRange(0, 2).Draw(t, "stepsBesidesDense")
	}
	for i := 0; i < nSteps; i++ {
		s := &nestedStep{
			op:  rapid.SampledFrom(nestedSeamKinds).Draw(t, "seam"),
			out: rapid.SampledFrom([]int{0, 1, 1, 1, 2, 2, 3}).Draw(t, "output"),
			job: rapid.SampledFrom(nestedJobKinds).Draw(t, "job"),
		}
		if s.op == "tableWrite" {
			s.w = rapid.IntRange(0, 7).Draw(t, "write")
		}
		if s.op == "commit" {
			s.out = 0
			if s.job != "cache-cleanup" {
				s.job = "obsolete-pass"
			}
		}
		if s.job == "flush-commit" {
			s.file = nextFile()
		}
		c.plan = append(c.plan, s)
		fmt.Fprintf(&canon, "N:%s", s)
		if s.file != nil {
			fmt.Fprintf(&canon, "=%s", s.file)
		}
		canon.WriteString(";")
	}
	c.images = rapid.IntRange(0, 9).Draw(t, "images") < 4
	// a real rollup reads the level-0 files as an hour of 10 s slots: only slots a real family can hold
	if c.rollupCfg == "target-open" {
		ok := true
		check := func(f *fileSpec) {
			for _, m := range f.Metrics {
				if r, has := m.slotRange(); has && int(r.End) >= nestedSlotsPerFamily {
					ok = false
				}
			}
		}
		for _, f := range c.files {
			check(f)
		}
		for _, s := range c.plan {
			if s.file != nil {
				check(s.file)
			}
		}
		if !ok {
			c.rollupCfg = "target-closed"
			c.classes["target-store-kept-closed-slots-beyond-the-family"] = true
		} else {
			ts, err := kv.GetStoreManager().CreateStore(c.targetPath, kv.DefaultStoreOption())
			if err != nil {
				c.fatalf("open target store: %v", err)
			}
			c.target = ts
		}
	}
	c.classes["rollup:"+c.rollupCfg] = true
	force := rapid.IntRange(0, 3).Draw(t, "force") > 0
	fmt.Fprintf(&canon, "OBS dense=%s i=%v force=%v;", c.dense, c.images, force)

	c.observedCompact(force)

	deepSalt := rapid.IntRange(0, 2).Draw(t, "imagesCompactedAfterRecovery")
	c.recoverImages(func(i int) bool { return (i+deepSalt)%3 == 0 })

	// afterwards: more files, a further compaction, close + reopen, a compaction after the reopen
	// (two later files or one after a nested flush: the further compaction merges the outputs of the observed job)
	steps := rapid.IntRange(0, 7).Draw(t, "afterwards")
	if steps&1 != 0 {
		flushN(rapid.IntRange(1, 2).Draw(t, "laterFiles"))
	}
	e.classes["compact-nothing-to-do"] = false
	e.compact(true)
	if !e.classes["compact-nothing-to-do"] {
		c.classes["further-compaction-merged-the-outputs"] = true
	}
	delete(e.classes, "compact-nothing-to-do")
	canon.WriteString("C;")
	e.history = append(e.history, "reopen")
	if c.target != nil {
		if err := kv.GetStoreManager().CloseStore(c.targetPath); err != nil {
			c.fatalf("close target store: %v", err)
		}
		c.target = nil
	}
	e.close()
	c.open()
	got, lay := e.observe()
	c.judgeAgainst(e.model, got, "reader after close + reopen")
	c.everyLiveTableExists(lay, "after close + reopen")
	c.classes["reopen"] = true
	canon.WriteString("R;")
	if steps&2 != 0 {
		flushN(1)
	}
	e.compact(steps&4 != 0)
	got, _ = e.observe()
	c.judgeAgainst(e.model, got, "reader after the compaction that followed the reopen")
	canon.WriteString("C;")
	e.close()

	classes := make([]string, 0, len(e.classes))
	for cl := range e.classes {
		classes = append(classes, cl)
	}
	sort.Strings(classes)
	ev.Case(nestedGroup, canon.String(), c.nt, classes, map[string]any{
		"familyOption": fmt.Sprintf("%+v", e.famOpt), "history": e.history, "nonTrivial": c.nt, "counts": c.counts,
	})
	for k, n := range c.counts {
		ev.Class(nestedGroup, "total:"+k, n)
	}
}

// TestCompactionNestedFamilyJobs: see the head of this file.
func TestCompactionNestedFamilyJobs(t *testing.T) {
	rapid.Check(t, runNestedCase)
}
