package c03

// Harness self-check: the block builder of model_test.go (writeFile) must produce byte-identical
// metric blocks to a real memdb flush (memdb.NewMemoryDatabase + WriteRow + FlushFamilyTo) of the
// same content. If this fails the harness is wrong, not lindb.
//
// The memory database, its metadata database (memdb.NewMetadataDatabase), the time series index
// (memdb.NewTimeSeriesIndex), the write buffers and the whole flush are production code. Faked:
// the persistent id generators (index.MetricMetaDatabase: metric/field ids are parsed from the
// names, so the case chooses them) and the shard index worker (memdb.IndexDatabase.Notify links a
// new memory series to the global series id given by the row's tag instead of asking the index
// files), which lets a case place series ids on both sides of a roaring container boundary
// without writing 65536 series.

import (
	"bytes"
	"fmt"
	"math"
	"os"
	"path/filepath"
	"sort"
	"strconv"
	"strings"
	"sync"
	"testing"

	protoMetricsV1 "github.com/lindb/common/proto/gen/v1/linmetrics"
	"pgregory.net/rapid"

	"github.com/lindb/lindb/index"
	"github.com/lindb/lindb/kv"
	"github.com/lindb/lindb/models"
	"github.com/lindb/lindb/pkg/timeutil"
	"github.com/lindb/lindb/series/field"
	"github.com/lindb/lindb/series/metric"
	"github.com/lindb/lindb/tsdb/memdb"
	"github.com/lindb/lindb/tsdb/tblstore/metricsdata"
	"github.com/lindb/lindb/verifharness/sim/ev"
)

// ---- fakes ----------------------------------------------------------------------------------

var histogramFieldIDs = map[string]field.ID{
	"HistogramMin": 10, "HistogramMax": 11, "HistogramSum": 12, "HistogramCount": 13,
	"__bucket_1": 14, "__bucket_2": 15, "__bucket_+Inf": 16,
}

// fakeMetaDB generates the ids the case wants: metric "m<ID>", field "f<ID>".
type fakeMetaDB struct {
	index.MetricMetaDatabase
}

func (fakeMetaDB) GenMetricID(_, metricName []byte) (metric.ID, error) {
	id, err := strconv.ParseUint(strings.TrimPrefix(string(metricName), "m"), 10, 32)
	return metric.ID(id), err
}

func (fakeMetaDB) GenFieldID(_ metric.ID, f field.Meta) (field.ID, error) {
	if id, ok := histogramFieldIDs[string(f.Name)]; ok {
		return id, nil
	}
	id, err := strconv.ParseUint(strings.TrimPrefix(string(f.Name), "f"), 10, 8)
	return field.ID(id), err
}

// fakeIndexDB is the shard level memory index with a synchronous "index worker".
type fakeIndexDB struct {
	metaDB memdb.MetadataDatabase
	mu     sync.Mutex
	byName map[uint64]memdb.TimeSeriesIndex
	seq    uint32
}

func (db *fakeIndexDB) GetOrCreateTimeSeriesIndex(row *metric.StorageRow) memdb.TimeSeriesIndex {
	db.mu.Lock()
	defer db.mu.Unlock()
	idx, ok := db.byName[row.NameHash()]
	if !ok {
		idx = memdb.NewTimeSeriesIndex()
		db.byName[row.NameHash()] = idx
	}
	return idx
}

func (db *fakeIndexDB) GenMemSeriesID() uint32 {
	db.mu.Lock()
	defer db.mu.Unlock()
	db.seq++
	return db.seq
}

func (db *fakeIndexDB) GetMetadataDatabase() memdb.MetadataDatabase { return db.metaDB }

func (db *fakeIndexDB) GetTimeSeriesIndex(memMetricID uint64) (memdb.TimeSeriesIndex, bool) {
	db.mu.Lock()
	defer db.mu.Unlock()
	idx, ok := db.byName[memMetricID]
	return idx, ok
}

func (db *fakeIndexDB) Cleanup(m memdb.MemoryDatabase) {
	db.mu.Lock()
	defer db.mu.Unlock()
	for _, idx := range db.byName {
		idx.ClearTimeRange(m.CreatedTime())
	}
}

// Notify is what indexDatabase.handleRow does, minus the index files: link the new memory
// series id to the global series id (taken from the tag "s") and release the row.
func (db *fakeIndexDB) Notify(event any) {
	row, ok := event.(*metric.StorageRow)
	if !ok {
		return
	}
	defer row.Done()
	it := row.NewKeyValueIterator()
	for it.HasNext() {
		if string(it.NextKey()) == "s" {
			id, _ := strconv.ParseUint(string(it.NextValue()), 10, 32)
			db.GetOrCreateTimeSeriesIndex(row).IndexTimeSeries(uint32(id), row.MemSeriesID)
		}
	}
}

func (db *fakeIndexDB) Close() {}

// ---- the self-check -------------------------------------------------------------------------

const (
	scInterval   = int64(10 * 1000)
	scFamilyTime = int64(1_700_000_000_000 / 3_600_000 * 3_600_000)
)

type scRow struct {
	Metric uint32
	Series uint32
	Slot   uint16
	Fields []fieldDef // simple fields
	Values []float64
	Histo  bool
	HVals  [3]float64 // bucket values for bounds 1, 2, +Inf
	HMin   float64
	HMax   float64
}

func simpleType(t field.Type) protoMetricsV1.SimpleFieldType {
	switch t {
	case field.SumField:
		return protoMetricsV1.SimpleFieldType_DELTA_SUM
	case field.MinField:
		return protoMetricsV1.SimpleFieldType_Min
	case field.MaxField:
		return protoMetricsV1.SimpleFieldType_Max
	case field.FirstField:
		return protoMetricsV1.SimpleFieldType_FIRST
	default:
		return protoMetricsV1.SimpleFieldType_LAST
	}
}

// memShard is the shard level state memory databases share: metadata database, memory index
// and write buffers.
type memShard struct {
	bufMgr  memdb.BufferManager
	metaDB  memdb.MetadataDatabase
	indexDB *fakeIndexDB
	conv    *metric.BrokerRowProtoConverter
}

func newMemShard(dir string) *memShard {
	sh := &memShard{
		bufMgr: memdb.NewBufferManager(filepath.Join(dir, "buffer")),
		metaDB: memdb.NewMetadataDatabase(&models.DatabaseConfig{Name: "db"}, fakeMetaDB{}),
		conv:   metric.NewProtoConverter(models.NewDefaultLimits()),
	}
	sh.indexDB = &fakeIndexDB{metaDB: sh.metaDB, byName: map[uint64]memdb.TimeSeriesIndex{}}
	return sh
}

func (sh *memShard) close() {
	sh.metaDB.Close()
	sh.bufMgr.GarbageCollect()
}

// newDB creates the memory database of one data family (tsdb/data_family.go GetOrCreateMemoryDatabase).
func (sh *memShard) newDB(familyTime int64) (memdb.MemoryDatabase, error) {
	return memdb.NewMemoryDatabase(&memdb.MemoryDatabaseCfg{
		FamilyTime: familyTime, Name: "db", IntervalCalc: timeutil.Interval(scInterval).Calculator(),
		Interval: timeutil.Interval(scInterval), IndexDatabase: sh.indexDB, BufferMgr: sh.bufMgr,
	})
}

// write converts the proto metric with the production converter and writes it the way
// tsdb/data_family.go WriteRows does (one row, wait for metadata and index workers).
func (sh *memShard) write(mdb memdb.MemoryDatabase, pm *protoMetricsV1.Metric) error {
	block, err := sh.conv.MarshalProtoMetricV1(pm)
	if err != nil {
		return fmt.Errorf("row rejected by the production converter: %w (%+v)", err, pm)
	}
	batch := metric.NewStorageBatchRows()
	batch.UnmarshalRows(append([]byte(nil), block...))
	if batch.Len() != 1 {
		return fmt.Errorf("%d rows decoded", batch.Len())
	}
	row := batch.Rows()[0]
	mdb.AcquireWrite()
	defer mdb.CompleteWrite()
	if err := mdb.WriteRow(row); err != nil {
		return err
	}
	row.Wait()
	return nil
}

// flush is tsdb/data_family.go flushMemoryDatabase.
func (sh *memShard) flush(mdb memdb.MemoryDatabase, family kv.Family) error {
	kvFlusher := family.NewFlusher()
	defer kvFlusher.Release()
	dataFlusher, err := metricsdata.NewFlusher(kvFlusher)
	if err != nil {
		return err
	}
	if err := mdb.FlushFamilyTo(dataFlusher); err != nil {
		return err
	}
	return mdb.Close()
}

func simpleRow(metricID, seriesID uint32, familyTime int64, slot uint16, fields map[field.ID]float64, types map[field.ID]field.Type) *protoMetricsV1.Metric {
	pm := &protoMetricsV1.Metric{
		Name: fmt.Sprintf("m%d", metricID), Namespace: "ns",
		Timestamp: familyTime + int64(slot)*scInterval,
		Tags:      []*protoMetricsV1.KeyValue{{Key: "s", Value: strconv.Itoa(int(seriesID))}},
	}
	ids := make([]int, 0, len(fields))
	for id := range fields {
		ids = append(ids, int(id))
	}
	sort.Ints(ids)
	for _, id := range ids {
		pm.SimpleFields = append(pm.SimpleFields, &protoMetricsV1.SimpleField{
			Name: fmt.Sprintf("f%d", id), Type: simpleType(types[field.ID(id)]), Value: fields[field.ID(id)]})
	}
	return pm
}

func rawBlocksOfNewestFile(f kv.Family) (map[uint32][]byte, error) {
	snap := f.GetSnapshot()
	defer snap.Close()
	files := snap.GetCurrent().GetAllFiles()
	if len(files) == 0 {
		return map[uint32][]byte{}, nil
	}
	newest := files[0]
	for _, fm := range files {
		if fm.GetFileNumber() > newest.GetFileNumber() {
			newest = fm
		}
	}
	r, err := snap.GetReader(newest.GetFileNumber())
	if err != nil {
		return nil, err
	}
	out := map[uint32][]byte{}
	it := r.Iterator()
	for it.HasNext() {
		out[it.Key()] = append([]byte(nil), it.Value()...)
	}
	return out, nil
}

func runSelfCheck(t *rapid.T) {
	dir, err := os.MkdirTemp("", "c03sc-")
	if err != nil {
		t.Fatalf("harness: %v", err)
	}
	storePath := filepath.Join(dir, "store")
	store, err := kv.GetStoreManager().CreateStore(storePath, kv.DefaultStoreOption())
	if err != nil {
		t.Fatalf("harness: %v", err)
	}
	shard := newMemShard(dir)
	defer func() {
		shard.close()
		_ = kv.GetStoreManager().CloseStore(storePath)
		_ = os.RemoveAll(dir)
	}()
	opt := kv.FamilyOption{Merger: string(metricsdata.MetricDataMerger)}
	famReal, err := store.CreateFamily("real", opt)
	if err != nil {
		t.Fatalf("harness: %v", err)
	}
	famBuilt, err := store.CreateFamily("built", opt)
	if err != nil {
		t.Fatalf("harness: %v", err)
	}

	// schema: simple fields only from the generator's pools, plus an optional histogram
	sc := &schema{Fields: map[uint32][]fieldDef{}, Series: map[uint32][]uint32{}, hot: map[uint32][2]int{}}
	sc.Metrics = subset(t, "metrics", metricPool, 1, 3)
	simpleTypes := []field.Type{field.SumField, field.MinField, field.MaxField, field.FirstField, field.LastField}
	for _, m := range sc.Metrics {
		lbl := fmt.Sprintf("m%d", m)
		for _, id := range subset(t, lbl+"fields", []field.ID{0, 1, 2, 3, 4, 5, 6, 7}, 1, 4) {
			sc.Fields[m] = append(sc.Fields[m], fieldDef{ID: id, Type: rapid.SampledFrom(simpleTypes).Draw(t, lbl+"type")})
		}
		sc.Series[m] = append(subset(t, lbl+"low", seriesLow, 1, 3), subset(t, lbl+"high", seriesBoundary, 0, 3)...)
	}
	typeOfID := func(m uint32, id field.ID) field.Type {
		switch id {
		case 10:
			return field.MinField
		case 11:
			return field.MaxField
		case 12, 13:
			return field.SumField
		case 14, 15, 16:
			return field.HistogramField
		}
		tp, _ := sc.typeOf(m, id)
		return tp
	}

	knownSeries := map[uint32]map[uint32]bool{} // series the shard index knows per metric (never forgets in this case)
	var classes = map[string]bool{}
	var canon strings.Builder
	nDBs := rapid.IntRange(1, 3).Draw(t, "memdbs")
	for d := 0; d < nDBs; d++ {
		mdb, err := shard.newDB(scFamilyTime)
		if err != nil {
			t.Fatalf("harness: %v", err)
		}
		// expected content of this memory database
		data := map[uint32]map[uint32]map[field.ID]map[uint16]float64{}
		used := map[string]bool{}
		nRows := rapid.IntRange(1, 10).Draw(t, "rows")
		var rows []scRow
		for i := 0; i < nRows; i++ {
			m := rapid.SampledFrom(sc.Metrics).Draw(t, "rowMetric")
			s := rapid.SampledFrom(sc.Series[m]).Draw(t, "rowSeries")
			var slot int
			if rapid.IntRange(0, 5).Draw(t, "farSlot") == 0 {
				slot = rapid.IntRange(0, 359).Draw(t, "slotFar") // outside the 15-slot page window: memdb compacts the page
			} else {
				slot = rapid.IntRange(0, 20).Draw(t, "slot")
			}
			key := fmt.Sprintf("%d/%d/%d", m, s, slot)
			if used[key] {
				continue // one write per (metric, series, slot): aggregation inside memdb is not what is checked here
			}
			used[key] = true
			r := scRow{Metric: m, Series: s, Slot: uint16(slot)}
			r.Fields = subset(t, "rowFields", sc.Fields[m], 0, 3)
			r.Histo = len(r.Fields) == 0 || rapid.IntRange(0, 4).Draw(t, "histo") == 0
			for range r.Fields {
				r.Values = append(r.Values, float64(rapid.IntRange(-24, 24).Draw(t, "k"))/8)
			}
			if r.Histo {
				for b := range r.HVals {
					r.HVals[b] = float64(rapid.IntRange(0, 8).Draw(t, "bucket")) / 8
				}
				r.HMin = float64(rapid.IntRange(0, 8).Draw(t, "hmin")) / 8
				r.HMax = r.HMin + float64(rapid.IntRange(0, 8).Draw(t, "hmax"))/8
			}
			rows = append(rows, r)
		}
		// Points reach a memory database in time order here. (Writing an earlier slot of the same
		// page window after a later one makes memdb forget the later point - see
		// TestSideFinding_MemdbLaterSlotLostAfterEarlierWrite; that is not what this check is about.)
		sort.SliceStable(rows, func(i, j int) bool { return rows[i].Slot < rows[j].Slot })
		for _, r := range rows {
			pm := &protoMetricsV1.Metric{
				Name: fmt.Sprintf("m%d", r.Metric), Namespace: "ns",
				Timestamp: scFamilyTime + int64(r.Slot)*scInterval,
				Tags:      []*protoMetricsV1.KeyValue{{Key: "s", Value: strconv.Itoa(int(r.Series))}},
			}
			put := func(id field.ID, v float64) {
				if data[r.Metric] == nil {
					data[r.Metric] = map[uint32]map[field.ID]map[uint16]float64{}
				}
				if data[r.Metric][r.Series] == nil {
					data[r.Metric][r.Series] = map[field.ID]map[uint16]float64{}
				}
				if data[r.Metric][r.Series][id] == nil {
					data[r.Metric][r.Series][id] = map[uint16]float64{}
				}
				data[r.Metric][r.Series][id][r.Slot] = v
			}
			for i, fd := range r.Fields {
				pm.SimpleFields = append(pm.SimpleFields, &protoMetricsV1.SimpleField{
					Name: fmt.Sprintf("f%d", fd.ID), Type: simpleType(fd.Type), Value: r.Values[i]})
				put(fd.ID, r.Values[i])
			}
			if r.Histo {
				sum, count := r.HVals[0]+2*r.HVals[1]+4*r.HVals[2], r.HVals[0]+r.HVals[1]+r.HVals[2]
				pm.CompoundField = &protoMetricsV1.CompoundField{
					Min: r.HMin, Max: r.HMax, Sum: sum, Count: count,
					ExplicitBounds: []float64{1, 2, math.Inf(1)}, Values: r.HVals[:],
				}
				put(10, r.HMin)
				put(11, r.HMax)
				put(12, sum)
				put(13, count)
				for b, v := range r.HVals {
					if v > 0 { // memdb writes buckets only when > 0
						put(field.ID(14+b), v)
					}
				}
				classes["histogram"] = true
			}
			if err := shard.write(mdb, pm); err != nil {
				t.Fatalf("harness: %v", err)
			}
			if knownSeries[r.Metric] == nil {
				knownSeries[r.Metric] = map[uint32]bool{}
			}
			knownSeries[r.Metric][r.Series] = true
		}
		// the real flush (tsdb/data_family.go flushMemoryDatabase)
		if err := shard.flush(mdb, famReal); err != nil {
			t.Fatalf("memdb flush failed: %v", err)
		}
		real, err := rawBlocksOfNewestFile(famReal)
		if err != nil {
			t.Fatalf("harness: %v", err)
		}
		if len(rows) == 0 {
			continue
		}
		// what the model expects, with the declared field list (arbitrary order in memdb) taken from the real block
		spec := &fileSpec{}
		mids := make([]uint32, 0, len(data))
		for m := range data {
			mids = append(mids, m)
		}
		sort.Slice(mids, func(i, j int) bool { return mids[i] < mids[j] })
		for _, m := range mids {
			blk, ok := real[m]
			if !ok {
				t.Fatalf("memdb flush wrote no block for metric %d although rows were written: %+v", m, rows)
			}
			rd, err := metricsdata.NewReader("real", blk)
			if err != nil {
				t.Fatalf("block written by memdb for metric %d does not open: %v", m, err)
			}
			fm := &fileMetric{ID: m, Data: data[m]}
			declared := map[field.ID]bool{}
			for _, f := range rd.GetFields() {
				if f.Type != typeOfID(m, f.ID) {
					t.Fatalf("harness: memdb declared field %d as %s, the case wrote it as %s", f.ID, f.Type, typeOfID(m, f.ID))
				}
				fm.Fields = append(fm.Fields, fieldDef{ID: f.ID, Type: f.Type})
				declared[f.ID] = true
			}
			for _, byField := range data[m] {
				for id := range byField {
					if !declared[id] {
						t.Fatalf("memdb flush does not declare field %d of metric %d that has data (declared %v)", id, m, rd.GetFields())
					}
				}
			}
			for s := range knownSeries[m] {
				fm.Series = append(fm.Series, s)
			}
			sort.Slice(fm.Series, func(i, j int) bool { return fm.Series[i] < fm.Series[j] })
			spec.Metrics = append(spec.Metrics, fm)
			// classes
			hk := map[uint32]bool{}
			for _, s := range fm.Series {
				hk[s>>16] = true
				if len(data[m][s]) == 0 {
					classes["series-without-data-in-file"] = true
				}
			}
			if len(hk) > 1 {
				classes["container-boundary-crossed"] = true
			}
			for _, fd := range fm.Fields {
				has := false
				for _, byField := range data[m] {
					if len(byField[fd.ID]) > 0 {
						has = true
					}
				}
				if !has {
					classes["declared-field-without-data"] = true
				}
			}
			if len(fm.Fields) == 1 {
				classes["single-field-block"] = true
				withData := map[uint32]bool{}
				for s := range data[m] {
					withData[s>>16] = true
				}
				for hkey := range hk {
					if !withData[hkey] {
						classes["single-field-block-container-without-data"] = true // shape of SigEmptyBucket, from real memdb
					}
				}
			}
			if len(fm.Fields) == 1 && fm.Fields[0].ID != sc.Fields[m][0].ID {
				classes["single-field-block-not-lowest-field"] = true // shape of SigSingleFieldBlock, from real memdb
			}
		}
		if len(real) != len(spec.Metrics) {
			t.Fatalf("memdb flush wrote %d blocks, the model expects %d (%s)", len(real), len(spec.Metrics), spec)
		}
		if err := writeFile(famBuilt, spec); err != nil {
			t.Fatalf("harness: builder failed: %v (%s)", err, spec)
		}
		built, err := rawBlocksOfNewestFile(famBuilt)
		if err != nil {
			t.Fatalf("harness: %v", err)
		}
		for _, m := range mids {
			if !bytes.Equal(real[m], built[m]) {
				t.Fatalf("harness builder unsound: metric %d block differs from the memdb flush\nrows: %+v\nspec: %s\nmemdb  : %x\nbuilder: %x", m, rows, spec, real[m], built[m])
			}
		}
		fmt.Fprintf(&canon, "%s|", spec)
		if d > 0 {
			classes["later-memdb-of-same-shard"] = true
		}
	}
	cl := make([]string, 0, len(classes))
	for c := range classes {
		cl = append(cl, c)
	}
	sort.Strings(cl)
	ev.Case("TestBuilderMatchesMemdbFlush", canon.String(), classes["series-without-data-in-file"] || classes["container-boundary-crossed"], cl, nil)
}

// TestBuilderMatchesMemdbFlush proves the generator's block builder sound against a real memdb flush.
func TestBuilderMatchesMemdbFlush(t *testing.T) {
	rapid.Check(t, runSelfCheck)
}
