package c03

import (
	"strings"
	"testing"

	"github.com/lindb/lindb/pkg/timeutil"
	"github.com/lindb/lindb/series/field"
)

// TestModelUnit checks the reference model and the comparison on hand-written examples.
func TestModelUnit(t *testing.T) {
	// aggregation by field type
	vs := []float64{0.5, -1.25, 3}
	for _, c := range []struct {
		t    field.Type
		want float64
	}{{field.SumField, 2.25}, {field.HistogramField, 2.25}, {field.MinField, -1.25}, {field.MaxField, 3}} {
		if got := aggregate(c.t, vs); got != c.want {
			t.Errorf("aggregate(%s, %v) = %v, want %v", c.t, vs, got, c.want)
		}
	}
	if !orderDependent(field.FirstField) || !orderDependent(field.LastField) || orderDependent(field.SumField) {
		t.Errorf("orderDependent wrong")
	}

	// two files sharing a cell
	types := map[field.ID]field.Type{0: field.SumField, 1: field.LastField}
	typeOf := func(_ uint32, f field.ID) (field.Type, bool) { tp, ok := types[f]; return tp, ok }
	fileA := &fileSpec{Metrics: []*fileMetric{{
		ID: 7, Fields: []fieldDef{{0, field.SumField}, {1, field.LastField}}, Series: []uint32{1, 65536},
		Data: map[uint32]map[field.ID]map[uint16]float64{1: {0: {3: 1.5, 9: 2}, 1: {3: 4}}},
	}}}
	fileB := &fileSpec{Metrics: []*fileMetric{{
		ID: 7, Fields: []fieldDef{{0, field.SumField}}, Series: []uint32{1},
		Data: map[uint32]map[field.ID]map[uint16]float64{1: {0: {3: 0.25}}},
	}}}
	if r, ok := fileA.Metrics[0].slotRange(); !ok || r != (timeutil.SlotRange{Start: 3, End: 9}) {
		t.Errorf("slotRange = %v %v, want [3,9]", r, ok)
	}
	if n := fileA.Metrics[0].numPoints(); n != 3 {
		t.Errorf("numPoints = %d", n)
	}
	model := newState()
	model.addFile(fileA)
	model.addFile(fileB)
	cell := pointKey{7, 1, 0, 3}
	if got := model.Points[cell]; len(got) != 2 || got[0]+got[1] != 1.75 {
		t.Errorf("shared cell = %v", got)
	}
	mi := model.Metrics[7]
	if mi.Files != 2 || mi.Range != (timeutil.SlotRange{Start: 3, End: 9}) || len(mi.Series) != 2 || len(mi.Fields) != 2 {
		t.Errorf("metric info = %+v", mi)
	}

	// a correct compaction result: one file, aggregated
	merged := newState()
	merged.addFile(&fileSpec{Metrics: []*fileMetric{{
		ID: 7, Fields: []fieldDef{{0, field.SumField}, {1, field.LastField}}, Series: []uint32{1, 65536},
		Data: map[uint32]map[field.ID]map[uint16]float64{1: {0: {3: 1.75, 9: 2}, 1: {3: 4}}},
	}}})
	if err := compareStates(model, merged, typeOf, false, "model", "merged"); err != nil {
		t.Errorf("correct merge rejected: %v", err)
	}
	if err := compareStates(model, merged, typeOf, true, "model", "merged"); err == nil {
		t.Errorf("exact multiset comparison must notice the different number of contributions")
	}
	// defects the comparison must notice
	mutate := func(name, wantMsg string, f func(s *state)) {
		bad := newState()
		bad.addFile(&fileSpec{Metrics: []*fileMetric{{
			ID: 7, Fields: []fieldDef{{0, field.SumField}, {1, field.LastField}}, Series: []uint32{1, 65536},
			Data: map[uint32]map[field.ID]map[uint16]float64{1: {0: {3: 1.75, 9: 2}, 1: {3: 4}}},
		}}})
		f(bad)
		err := compareStates(model, bad, typeOf, false, "model", "bad")
		if err == nil || !strings.Contains(err.Error(), wantMsg) {
			t.Errorf("%s: got %v, want an error containing %q", name, err, wantMsg)
		}
	}
	mutate("wrong sum", "aggregate", func(s *state) { s.Points[cell] = []float64{1.5} })
	mutate("lost slot", "disappeared", func(s *state) { delete(s.Points, pointKey{7, 1, 0, 9}) })
	mutate("new slot", "appeared", func(s *state) { s.Points[pointKey{7, 1, 0, 10}] = []float64{1} })
	mutate("last not contributed", "none of the values", func(s *state) { s.Points[pointKey{7, 1, 1, 3}] = []float64{5} })
	mutate("lost series", "series 65536", func(s *state) { delete(s.Metrics[7].Series, 65536) })
	mutate("new series", "series 2", func(s *state) { s.Metrics[7].Series[2] = true })
	mutate("lost field", "field 1", func(s *state) { delete(s.Metrics[7].Fields, 1) })
	mutate("field type", "field 0", func(s *state) { s.Metrics[7].Fields[0] = field.MinField })
	mutate("range", "slot range", func(s *state) { s.Metrics[7].Range.End = 10 })
	mutate("lost metric", "metric 7 disappeared", func(s *state) { delete(s.Metrics, 7) })
}
