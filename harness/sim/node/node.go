// Package node runs a complete lindb storage engine and a complete query path (root plan ->
// leaf task -> pipeline -> grouping -> result set) inside the test process, over a loop-back
// transport that the harness controls (which leaf owns which shards, in which order leaf
// responses are delivered to the root).
package node

import (
	"bytes"
	"context"
	"fmt"
	"os"
	"path/filepath"
	"sort"
	"sync"
	"time"

	commonmodels "github.com/lindb/common/models"
	"github.com/lindb/common/pkg/ltoml"
	protoMetricsV1 "github.com/lindb/common/proto/gen/v1/linmetrics"

	"github.com/lindb/lindb/config"
	"github.com/lindb/lindb/coordinator/broker"
	"github.com/lindb/lindb/flow"
	"github.com/lindb/lindb/internal/concurrent"
	"github.com/lindb/lindb/internal/linmetric"
	"github.com/lindb/lindb/metrics"
	"github.com/lindb/lindb/models"
	"github.com/lindb/lindb/pkg/option"
	"github.com/lindb/lindb/pkg/timeutil"
	protoCommonV1 "github.com/lindb/lindb/proto/gen/v1/common"
	"github.com/lindb/lindb/query"
	"github.com/lindb/lindb/rpc"
	"github.com/lindb/lindb/series/metric"
	"github.com/lindb/lindb/sql"
	"github.com/lindb/lindb/sql/stmt"
	"github.com/lindb/lindb/tsdb"
)

// Node is one in-process storage engine.
type Node struct {
	Dir    string
	Engine tsdb.Engine
}

// Start points the global storage configuration at dir and opens the engine (loading whatever
// databases exist below dir).
func Start(dir string) (*Node, error) {
	cfg := config.NewDefaultStorageBase()
	cfg.TSDB.Dir = filepath.Join(dir, "data")
	cfg.WAL.Dir = filepath.Join(dir, "wal")
	cfg.WAL.RemoveTaskInterval = ltoml.Duration(time.Hour)
	cfg.TTLTaskInterval = ltoml.Duration(24 * time.Hour)
	config.SetGlobalStorageConfig(cfg)
	if err := os.MkdirAll(cfg.TSDB.Dir, 0o755); err != nil {
		return nil, err
	}
	e, err := tsdb.NewEngine()
	if err != nil {
		return nil, err
	}
	return &Node{Dir: dir, Engine: e}, nil
}

// Close closes the engine (flushes memory data as production shutdown does).
func (n *Node) Close() {
	if n.Engine != nil {
		n.Engine.Close()
		n.Engine = nil
	}
}

// DBOption builds a database option with the given intervals; retention is set very large so
// that no generated timestamp is treated as expired.
func DBOption(intervals ...timeutil.Interval) *option.DatabaseOption {
	opt := &option.DatabaseOption{AutoCreateNS: true}
	for _, iv := range intervals {
		opt.Intervals = append(opt.Intervals, option.Interval{Interval: iv, Retention: timeutil.Interval(400 * 365 * 24 * 3600 * 1000)})
	}
	opt.Default()
	return opt
}

// CreateDB creates the database with the shards.
func (n *Node) CreateDB(name string, opt *option.DatabaseOption, shards ...models.ShardID) error {
	return n.Engine.CreateShards(name, opt, shards...)
}

// Shard returns a shard.
func (n *Node) Shard(db string, id models.ShardID) (tsdb.Shard, error) {
	s, ok := n.Engine.GetShard(db, id)
	if !ok {
		return nil, fmt.Errorf("shard %s/%d not found", db, id)
	}
	return s, nil
}

// Block converts proto metrics into the flat row block the broker would ship (production converter).
func Block(ms []*protoMetricsV1.Metric) ([]byte, error) {
	conv := metric.NewProtoConverter(models.NewDefaultLimits())
	var buf bytes.Buffer
	for _, m := range ms {
		if _, err := conv.MarshalProtoMetricV1To(m, &buf); err != nil {
			return nil, fmt.Errorf("metric %s rejected: %w", m.Name, err)
		}
	}
	return buf.Bytes(), nil
}

// Write writes the metrics into the shard, each into the data family of its timestamp, the
// way the local replicator does (UnmarshalRows + WriteRows). Metrics keep their order per family.
func (n *Node) Write(db string, shardID models.ShardID, ms []*protoMetricsV1.Metric) error {
	shard, err := n.Shard(db, shardID)
	if err != nil {
		return err
	}
	calc := shard.CurrentInterval().Calculator()
	byFamily := map[int64][]*protoMetricsV1.Metric{}
	var order []int64
	for _, m := range ms {
		ft := calc.CalcFamilyTime(m.Timestamp)
		if _, ok := byFamily[ft]; !ok {
			order = append(order, ft)
		}
		byFamily[ft] = append(byFamily[ft], m)
	}
	for _, ft := range order {
		block, err := Block(byFamily[ft])
		if err != nil {
			return err
		}
		family, err := shard.GetOrCrateDataFamily(ft)
		if err != nil {
			return err
		}
		rows := metric.NewStorageBatchRows()
		rows.UnmarshalRows(block)
		if rows.Len() != len(byFamily[ft]) {
			return fmt.Errorf("harness: %d rows decoded from %d metrics", rows.Len(), len(byFamily[ft]))
		}
		if err := family.WriteRows(rows.Rows()); err != nil {
			return err
		}
	}
	return nil
}

// Families returns the open data families of a shard sorted by family time.
func (n *Node) Families(db string, shardID models.ShardID) ([]tsdb.DataFamily, error) {
	shard, err := n.Shard(db, shardID)
	if err != nil {
		return nil, err
	}
	fs := tsdb.GetFamilyManager().GetFamiliesByShard(shard)
	sort.Slice(fs, func(i, j int) bool {
		if fs[i].FamilyTime() != fs[j].FamilyTime() {
			return fs[i].FamilyTime() < fs[j].FamilyTime()
		}
		return fs[i].Interval() < fs[j].Interval()
	})
	return fs, nil
}

// FlushDB flushes metadata, every shard's index and every data family, in production order.
func (n *Node) FlushDB(db string) error {
	d, ok := n.Engine.GetDatabase(db)
	if !ok {
		return fmt.Errorf("database %s not found", db)
	}
	if err := d.FlushMeta(); err != nil {
		return err
	}
	for _, id := range d.GetConfig().ShardIDs {
		shard, _ := d.GetShard(id)
		if err := shard.FlushIndex(); err != nil {
			return err
		}
		for _, f := range tsdb.GetFamilyManager().GetFamiliesByShard(shard) {
			if err := f.Flush(); err != nil {
				return err
			}
		}
	}
	return nil
}

// ---- cluster: root + leaves over a loop-back transport ------------------------------------------

// Leaf is one logical storage node: it serves the shards the layout assigns to it. Several
// leaves may share one engine; the leaf's database name is `<db><Suffix>`.
type Leaf struct {
	Name   string // indicator
	Suffix string // appended to the database name of a request
	proc   query.TaskProcessor
}

// Cluster wires one root to its leaves.
type Cluster struct {
	mu       sync.Mutex
	root     models.StatelessNode
	taskMgr  query.TaskManager
	pool     concurrent.Pool
	leafPool concurrent.Pool
	leaves   map[string]*Leaf
	order    []string
	layout   map[string]map[string][]models.ShardID // db -> leaf -> shards
	dbCfg    map[string]models.Database
	Timeout  time.Duration

	// Deliver decides what happens with a leaf response: nil = hand it to the root at once.
	// When set, responses are buffered and the function is called (outside the lock) with the
	// names of the leaves that answered so far once all expected leaves have answered; it
	// returns the order in which they are released to the root.
	Permute func(arrived []string) []string
	pending map[string][]pendingResp // request id -> buffered responses
	expect  map[string]int
}

type pendingResp struct {
	from string
	resp *protoCommonV1.TaskResponse
}

// NewCluster creates a cluster whose root is called "root:1".
func NewCluster() *Cluster {
	c := &Cluster{
		root:    models.StatelessNode{HostIP: "root", GRPCPort: 1},
		leaves:  map[string]*Leaf{},
		layout:  map[string]map[string][]models.ShardID{},
		dbCfg:   map[string]models.Database{},
		Timeout: 20 * time.Second,
		pending: map[string][]pendingResp{},
		expect:  map[string]int{},
	}
	// one worker: responses are handled strictly in the order they are handed over
	c.pool = concurrent.NewPool("verif-root-pool", 1, time.Second, metrics.NewConcurrentStatistics("verif-root", linmetric.BrokerRegistry))
	c.leafPool = concurrent.NewPool("verif-leaf-pool", 8, time.Second, metrics.NewConcurrentStatistics("verif-leaf", linmetric.BrokerRegistry))
	c.taskMgr = query.NewTaskManager(c.pool, linmetric.BrokerRegistry)
	return c
}

// Close stops the pools.
func (c *Cluster) Close() {
	c.pool.Stop()
	c.leafPool.Stop()
}

// engineView maps the database name of a request to the leaf's own database.
type engineView struct {
	tsdb.Engine
	inner  tsdb.Engine
	suffix string
}

func (e *engineView) GetDatabase(name string) (tsdb.Database, bool) {
	return e.inner.GetDatabase(name + e.suffix)
}

func (e *engineView) GetShard(name string, id models.ShardID) (tsdb.Shard, bool) {
	return e.inner.GetShard(name+e.suffix, id)
}

// AddLeaf registers a leaf served by engine; requests for database X are answered from X+suffix.
func (c *Cluster) AddLeaf(name string, engine tsdb.Engine, suffix string) *Leaf {
	l := &Leaf{Name: name, Suffix: suffix}
	leafNode := &leafNodeT{name: name}
	l.proc = query.NewLeafTaskProcessor(leafNode, &engineView{inner: engine, suffix: suffix}, &serverFactory{c: c, from: name})
	c.leaves[name] = l
	c.order = append(c.order, name)
	return l
}

type leafNodeT struct {
	models.Node
	name string
}

func (l *leafNodeT) Indicator() string { return l.name }

// SetLayout declares which leaf serves which shards of the database, and the database config
// the root plans with (intervals).
func (c *Cluster) SetLayout(db string, opt *option.DatabaseOption, layout map[string][]models.ShardID) {
	c.layout[db] = layout
	n := 0
	for _, s := range layout {
		n += len(s)
	}
	c.dbCfg[db] = models.Database{Name: db, Option: opt, NumOfShard: n, ReplicaFactor: 1}
}

// chooser is the flow.NodeChoose of the root; it also answers GetDatabaseCfg so that the
// production calcTimeRangeAndInterval runs (RootMetricContext.MakePlan type-asserts to
// broker.StateManager).
type chooser struct {
	broker.StateManager
	c *Cluster
}

func (ch *chooser) Choose(database string, _ int) ([]*models.PhysicalPlan, error) {
	layout, ok := ch.c.layout[database]
	if !ok {
		return nil, fmt.Errorf("database %s not found", database)
	}
	plan := &models.PhysicalPlan{Database: database}
	for _, name := range ch.c.order {
		if shards, ok := layout[name]; ok {
			plan.AddTarget(&models.Target{Indicator: name, ShardIDs: shards})
		}
	}
	return []*models.PhysicalPlan{plan}, nil
}

func (ch *chooser) GetDatabaseCfg(name string) (models.Database, bool) {
	cfg, ok := ch.c.dbCfg[name]
	return cfg, ok
}

// transport delivers root requests to the leaf processors.
type transport struct {
	c *Cluster
}

func (t *transport) SendRequest(target string, req *protoCommonV1.TaskRequest) error {
	leaf, ok := t.c.leaves[target]
	if !ok {
		return fmt.Errorf("no such node %s", target)
	}
	t.c.mu.Lock()
	t.c.expect[req.RequestID]++
	t.c.mu.Unlock()
	taskCtx := flow.NewTaskContextWithTimeout(context.Background(), t.c.Timeout)
	// like query.TaskHandler.process: run on a pool, report errors/panics to the requester
	sendErr := func(err error) {
		t.c.deliver(&protoCommonV1.TaskResponse{RequestID: req.RequestID, Completed: true, ErrMsg: err.Error()}, target)
	}
	t.c.leafPool.Submit(taskCtx.Ctx, concurrent.NewTask(func() {
		if err := leaf.proc.Process(taskCtx, nil, req); err != nil {
			sendErr(err)
		}
	}, sendErr))
	return nil
}

func (t *transport) SendResponse(_ string, _ *protoCommonV1.TaskResponse) error {
	return fmt.Errorf("harness: SendResponse not expected")
}

type serverFactory struct {
	rpc.TaskServerFactory
	c    *Cluster
	from string
}

func (f *serverFactory) GetStream(_ string) protoCommonV1.TaskService_HandleServer {
	return &stream{c: f.c, from: f.from}
}

type stream struct {
	protoCommonV1.TaskService_HandleServer
	c    *Cluster
	from string
}

func (s *stream) Send(resp *protoCommonV1.TaskResponse) error {
	s.c.deliver(resp, s.from)
	return nil
}

func (c *Cluster) deliver(resp *protoCommonV1.TaskResponse, from string) {
	if c.Permute == nil {
		_ = c.taskMgr.Receive(resp, from)
		return
	}
	c.mu.Lock()
	id := resp.RequestID
	c.pending[id] = append(c.pending[id], pendingResp{from: from, resp: resp})
	if len(c.pending[id]) < c.expect[id] {
		c.mu.Unlock()
		return
	}
	batch := c.pending[id]
	delete(c.pending, id)
	delete(c.expect, id)
	c.mu.Unlock()
	// canonical arrival order (sorted by leaf name) so that the permutation is a pure function of the draw
	sort.Slice(batch, func(i, j int) bool { return batch[i].from < batch[j].from })
	names := make([]string, len(batch))
	for i, b := range batch {
		names[i] = b.from
	}
	order := c.Permute(names)
	byName := map[string]pendingResp{}
	for _, b := range batch {
		byName[b.from] = b
	}
	for _, n := range order {
		b := byName[n]
		_ = c.taskMgr.Receive(b.resp, b.from)
	}
}

// Query parses and executes the SQL statement against db through the production root path.
func (c *Cluster) Query(db, sqlText string) (*commonmodels.ResultSet, error) {
	st, err := sql.Parse(sqlText)
	if err != nil {
		return nil, fmt.Errorf("parse: %w", err)
	}
	q, ok := st.(*stmt.Query)
	if !ok {
		return nil, fmt.Errorf("not a query statement: %T", st)
	}
	ctx, cancel := context.WithTimeout(context.Background(), c.Timeout)
	defer cancel()
	rs, err := query.MetricDataSearch(ctx, &models.ExecuteParam{Database: db, SQL: sqlText}, q, &query.SearchMgr{
		Timeout:      c.Timeout,
		CurNode:      c.root,
		Choose:       &chooser{c: c},
		TaskMgr:      c.taskMgr,
		TransportMgr: &transport{c: c},
	})
	if err != nil {
		return nil, err
	}
	res, ok := rs.(*commonmodels.ResultSet)
	if !ok {
		return nil, fmt.Errorf("unexpected result type %T", rs)
	}
	return res, nil
}

// ---- canonical results ----------------------------------------------------------------------------

// Result is a canonical query answer: series key -> field -> timestamp -> value.
type Result map[string]map[string]map[int64]float64

// SeriesKey renders group-by tags canonically.
func SeriesKey(tags map[string]string) string {
	keys := make([]string, 0, len(tags))
	for k := range tags {
		keys = append(keys, k)
	}
	sort.Strings(keys)
	var b bytes.Buffer
	for i, k := range keys {
		if i > 0 {
			b.WriteByte(',')
		}
		b.WriteString(k)
		b.WriteByte('=')
		b.WriteString(tags[k])
	}
	return b.String()
}

// Canon converts a result set; series without any point are dropped (an empty answer and a
// not-found answer are the same observation).
func Canon(rs *commonmodels.ResultSet) Result {
	out := Result{}
	if rs == nil {
		return out
	}
	for _, s := range rs.Series {
		key := SeriesKey(s.Tags)
		for f, pts := range s.Fields {
			if len(pts) == 0 {
				continue
			}
			if out[key] == nil {
				out[key] = map[string]map[int64]float64{}
			}
			if out[key][f] == nil {
				out[key][f] = map[int64]float64{}
			}
			for ts, v := range pts {
				out[key][f][ts] = v
			}
		}
	}
	return out
}

// String renders a result deterministically.
func (r Result) String() string {
	var b bytes.Buffer
	keys := make([]string, 0, len(r))
	for k := range r {
		keys = append(keys, k)
	}
	sort.Strings(keys)
	for _, k := range keys {
		fields := make([]string, 0, len(r[k]))
		for f := range r[k] {
			fields = append(fields, f)
		}
		sort.Strings(fields)
		for _, f := range fields {
			tss := make([]int64, 0, len(r[k][f]))
			for ts := range r[k][f] {
				tss = append(tss, ts)
			}
			sort.Slice(tss, func(i, j int) bool { return tss[i] < tss[j] })
			fmt.Fprintf(&b, "[%s] %s:", k, f)
			for _, ts := range tss {
				fmt.Fprintf(&b, " %d=%v", ts, r[k][f][ts])
			}
			b.WriteByte('\n')
		}
	}
	return b.String()
}

// Equal compares two results exactly.
func (r Result) Equal(o Result) bool { return r.String() == o.String() }
