package node

import (
	"os"
	"testing"
	"time"

	protoMetricsV1 "github.com/lindb/common/proto/gen/v1/linmetrics"

	"github.com/lindb/lindb/models"
	"github.com/lindb/lindb/pkg/timeutil"
)

func mk(name string, ts int64, host string, v float64) *protoMetricsV1.Metric {
	return &protoMetricsV1.Metric{
		Name: name, Timestamp: ts,
		Tags:         []*protoMetricsV1.KeyValue{{Key: "host", Value: host}},
		SimpleFields: []*protoMetricsV1.SimpleField{{Name: "f", Type: protoMetricsV1.SimpleFieldType_DELTA_SUM, Value: v}},
	}
}

// TestSmoke: the in-process node/cluster answers a group-by query over memory and flushed data of two shards.
func TestSmoke(t *testing.T) {
	time.Local = time.UTC
	dir, _ := os.MkdirTemp("", "node-")
	defer os.RemoveAll(dir)
	n, err := Start(dir)
	if err != nil {
		t.Fatal(err)
	}
	defer n.Close()
	opt := DBOption(timeutil.Interval(10_000))
	if err := n.CreateDB("db", opt, 0, 1); err != nil {
		t.Fatal(err)
	}
	base := time.Date(2023, 5, 1, 10, 0, 0, 0, time.UTC).UnixMilli()
	if err := n.Write("db", 0, []*protoMetricsV1.Metric{mk("m", base, "a", 1), mk("m", base+10_000, "a", 2), mk("m", base, "b", 4)}); err != nil {
		t.Fatal(err)
	}
	if err := n.FlushDB("db"); err != nil {
		t.Fatal(err)
	}
	if err := n.Write("db", 1, []*protoMetricsV1.Metric{mk("m", base, "a", 8), mk("m", base+20_000, "c", 16)}); err != nil {
		t.Fatal(err)
	}
	if err := n.Write("db", 0, []*protoMetricsV1.Metric{mk("m", base, "a", 32)}); err != nil {
		t.Fatal(err)
	}
	c := NewCluster()
	defer c.Close()
	c.AddLeaf("leaf0:1", n.Engine, "")
	c.AddLeaf("leaf1:1", n.Engine, "")
	c.SetLayout("db", opt, map[string][]models.ShardID{"leaf0:1": {0}, "leaf1:1": {1}})
	c.Permute = func(arrived []string) []string { return []string{arrived[1], arrived[0]} }
	rs, err := c.Query("db", "select f from m where time>='2023-05-01 10:00:00' and time<='2023-05-01 10:05:00' group by host")
	if err != nil {
		t.Fatal(err)
	}
	got := Canon(rs).String()
	want := "[host=a] f: 1682935200000=41 1682935210000=2\n[host=b] f: 1682935200000=4\n[host=c] f: 1682935220000=16\n"
	if got != want {
		t.Fatalf("got:\n%s\nwant:\n%s", got, want)
	}
}
