// Package ev is the evidence recorder shared by all property packages.
//
// Every generated case is reported once through Case (or a Recorder): its canonical
// description is hashed, the property's "non-trivial" rule is evaluated by the caller, and
// a few cases are kept verbatim. At process end (Main) a JSON summary is written to the
// file named by $VERIF_EV_OUT; the python driver merges the summaries of all processes of
// one check into /verif/evidence/<id>.json.
package ev

import (
	"github.com/lindb/common/pkg/logger"
	"go.uber.org/zap/zapcore"

	"encoding/json"
	"fmt"
	"hash/fnv"
	"os"
	"sort"
	"sync"
	"testing"
)

const (
	maxSamplesPerGroup = 4
	maxSampleBytes     = 6000
)

type group struct {
	Evaluations int            `json:"evaluations"`
	Nontrivial  int            `json:"nontrivial"`
	Hashes      []string       `json:"hashes"` // distinct non-trivial hashes (hex)
	Classes     map[string]int `json:"classes"`
	Samples     []any          `json:"samples"`
	hashSet     map[uint64]struct{}
	ntSamples   int
}

var (
	mu     sync.Mutex
	groups = map[string]*group{}
	notes  = map[string]string{}
	// known findings (signatures) the driver tells us about; read-only.
	known = map[string]bool{}
)

func init() {
	if p := os.Getenv("VERIF_KNOWN"); p != "" {
		data, err := os.ReadFile(p)
		if err == nil {
			var kf struct {
				Findings []struct {
					Property  string `json:"property"`
					Signature string `json:"signature"`
				} `json:"findings"`
			}
			if json.Unmarshal(data, &kf) == nil {
				for _, f := range kf.Findings {
					known[f.Signature] = true
				}
			}
		}
	}
}

// Known reports whether the signature is listed as an (unrepaired) known finding.
func Known(sig string) bool { return known[sig] }

func getGroup(name string) *group {
	g, ok := groups[name]
	if !ok {
		g = &group{Classes: map[string]int{}, hashSet: map[uint64]struct{}{}}
		groups[name] = g
	}
	return g
}

// Case records one generated case of a named group (usually the test name).
// canon is a canonical textual description of the case (used for distinctness only),
// nontrivial the verdict of the property's stated rule, classes the labels to count,
// sample (may be nil) a JSON-marshalable rendering kept for the first few cases.
func Case(grp, canon string, nontrivial bool, classes []string, sample any) {
	h := fnv.New64a()
	_, _ = h.Write([]byte(canon))
	hv := h.Sum64()
	mu.Lock()
	defer mu.Unlock()
	g := getGroup(grp)
	g.Evaluations++
	for _, c := range classes {
		g.Classes[c]++
	}
	if nontrivial {
		g.Nontrivial++
		if _, ok := g.hashSet[hv]; !ok {
			g.hashSet[hv] = struct{}{}
		}
	}
	if sample != nil {
		keep := false
		if nontrivial && g.ntSamples < maxSamplesPerGroup-1 {
			g.ntSamples++
			keep = true
		} else if len(g.Samples) < 1 {
			keep = true
		}
		if keep && len(g.Samples) < maxSamplesPerGroup {
			if b, err := json.Marshal(sample); err == nil {
				if len(b) > maxSampleBytes {
					g.Samples = append(g.Samples, map[string]any{"truncated": string(b[:maxSampleBytes])})
				} else {
					g.Samples = append(g.Samples, json.RawMessage(b))
				}
			} else {
				g.Samples = append(g.Samples, fmt.Sprintf("%v", sample))
			}
		}
	}
}

// Class bumps a class counter without recording a case.
func Class(grp, class string, n int) {
	mu.Lock()
	defer mu.Unlock()
	getGroup(grp).Classes[class] += n
}

// Note attaches a free-text note to the evidence (e.g. acceptance rates).
func Note(key, text string) {
	mu.Lock()
	defer mu.Unlock()
	notes[key] = text
}

// Flush writes the summary; called by Main.
func Flush() {
	out := os.Getenv("VERIF_EV_OUT")
	if out == "" {
		return
	}
	mu.Lock()
	defer mu.Unlock()
	for _, g := range groups {
		g.Hashes = g.Hashes[:0]
		for h := range g.hashSet {
			g.Hashes = append(g.Hashes, fmt.Sprintf("%016x", h))
		}
		sort.Strings(g.Hashes)
	}
	data, err := json.Marshal(map[string]any{"groups": groups, "notes": notes})
	if err != nil {
		fmt.Fprintln(os.Stderr, "ev: marshal:", err)
		return
	}
	if err := os.WriteFile(out, data, 0o644); err != nil {
		fmt.Fprintln(os.Stderr, "ev: write:", err)
	}
}

// Main wraps testing.M so that evidence is flushed when the process ends.
func Main(m *testing.M) {
	// lindb logs every commit / compaction / deletion at info level: a thorough shard writes gigabytes of it.
	// Keep warnings and errors; VERIF_LOG=info (or debug) restores the full log for a replay.
	if lvl := os.Getenv("VERIF_LOG"); lvl != "" {
		_ = logger.RunningAtomicLevel.UnmarshalText([]byte(lvl))
	} else if logger.RunningAtomicLevel.Level() < zapcore.WarnLevel {
		logger.RunningAtomicLevel.SetLevel(zapcore.WarnLevel)
	}
	code := m.Run()
	Flush()
	os.Exit(code)
}

// KnownFinding prints the line the interface requires for a listed finding that reproduces.
func KnownFinding(property, what string) {
	fmt.Printf("KNOWN-FINDING: property=%s %s\n", property, what)
}
