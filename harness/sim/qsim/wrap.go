package qsim

import "github.com/lindb/lindb/pkg/queue/page"

// Wrap gives a page factory the page wrapping that Install applies (every store / sync of its
// pages calls the hook set by Install / SetHook). A property package that needs seams at the
// factory level as well (GetPage / AcquirePage / TruncatePages) wraps the result once more and
// installs its own constructor with queue.VerifSetPageFactory; SetHook / Uninstall keep working.
func Wrap(f page.Factory) page.Factory {
	return &factory{Factory: f, pages: map[int64]*mpage{}}
}
