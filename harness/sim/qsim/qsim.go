// Package qsim wraps the mapped pages of pkg/queue so that the harness sees every store that
// makes up an append (data bytes, index entry fields, meta sequence) and can take a directory
// image or run another actor between two of them.
package qsim

import (
	"sync"

	"github.com/lindb/lindb/pkg/queue"
	"github.com/lindb/lindb/pkg/queue/page"
)

// Hook is called before and after each store / sync of a wrapped page.
type Hook func(op, path string, before bool)

var (
	mu   sync.Mutex
	hook Hook
)

func call(op, path string, before bool) {
	mu.Lock()
	h := hook
	mu.Unlock()
	if h != nil {
		h(op, path, before)
	}
}

// Install wraps all page factories created by pkg/queue from now on.
func Install(h Hook) {
	mu.Lock()
	hook = h
	mu.Unlock()
	queue.VerifSetPageFactory(func(path string, pageSize int) (page.Factory, error) {
		f, err := page.NewFactory(path, pageSize)
		if err != nil {
			return nil, err
		}
		return &factory{Factory: f, pages: map[int64]*mpage{}}, nil
	})
}

// SetHook swaps the callback (nil = no callback) without re-installing the factory.
func SetHook(h Hook) {
	mu.Lock()
	hook = h
	mu.Unlock()
}

// Uninstall restores the production factory.
func Uninstall() {
	mu.Lock()
	hook = nil
	mu.Unlock()
	queue.VerifSetPageFactory(nil)
}

type factory struct {
	page.Factory
	mu    sync.Mutex
	pages map[int64]*mpage
}

func (f *factory) wrap(idx int64, p page.MappedPage) page.MappedPage {
	f.mu.Lock()
	defer f.mu.Unlock()
	if w, ok := f.pages[idx]; ok && w.MappedPage == p {
		return w
	}
	w := &mpage{MappedPage: p}
	f.pages[idx] = w
	return w
}

func (f *factory) AcquirePage(index int64) (page.MappedPage, error) {
	p, err := f.Factory.AcquirePage(index)
	if err != nil {
		return nil, err
	}
	return f.wrap(index, p), nil
}

func (f *factory) GetPage(index int64) (page.MappedPage, bool) {
	p, ok := f.Factory.GetPage(index)
	if !ok {
		return nil, false
	}
	return f.wrap(index, p), true
}

type mpage struct {
	page.MappedPage
}

func (p *mpage) WriteBytes(data []byte, offset int) {
	call("writeBytes", p.FilePath(), true)
	p.MappedPage.WriteBytes(data, offset)
	call("writeBytes", p.FilePath(), false)
}

func (p *mpage) PutUint64(value uint64, offset int) {
	call("putUint64", p.FilePath(), true)
	p.MappedPage.PutUint64(value, offset)
	call("putUint64", p.FilePath(), false)
}

func (p *mpage) PutUint32(value uint32, offset int) {
	call("putUint32", p.FilePath(), true)
	p.MappedPage.PutUint32(value, offset)
	call("putUint32", p.FilePath(), false)
}

func (p *mpage) PutUint8(value uint8, offset int) {
	call("putUint8", p.FilePath(), true)
	p.MappedPage.PutUint8(value, offset)
	call("putUint8", p.FilePath(), false)
}

func (p *mpage) Sync() error {
	call("pageSync", p.FilePath(), true)
	err := p.MappedPage.Sync()
	call("pageSync", p.FilePath(), false)
	return err
}
