// Package crash takes directory images at intercepted file-system operations ("the process
// dies here") and hands them to a recovery function. An image is a plain copy of the files:
// under the process-crash model everything that reached the kernel (write/rename/unlink,
// MAP_SHARED stores) survives, everything still in user-space buffers is lost — which is
// exactly what a copy of the directory at that instant contains.
package crash

import (
	"fmt"
	"io"
	"os"
	"path/filepath"
	"strings"
	"syscall"
)

// Point describes where an image was taken.
type Point struct {
	Seq    int    // running number of the hook invocation
	OpIdx  int    // index of the history operation in flight (set by the harness)
	OpName string // name of the history operation in flight
	FSOp   string // intercepted file-system operation
	Path   string // path the operation works on (relative to Root when below it)
	Before bool   // taken before (true) or after (false) the operation ran
	Dir    string // where the copy lives ("" if not copied)
}

func (p Point) String() string {
	ph := "after"
	if p.Before {
		ph = "before"
	}
	return fmt.Sprintf("#%d op[%d]=%s %s %s(%s)", p.Seq, p.OpIdx, p.OpName, ph, p.FSOp, p.Path)
}

// Imager copies Root at hook invocations.
type Imager struct {
	Root   string // directory tree to copy
	OutDir string // images are created below it
	// Want decides whether the n-th hook invocation is copied; nil = copy everything.
	Want func(p Point) bool
	// OnPoint is called for every hook invocation (after the optional copy); may be nil.
	OnPoint func(p Point)

	OpIdx  int
	OpName string
	Active bool // only copies while active (i.e. while a history operation is in flight)

	seq    int
	Points []Point // every invocation while active (copied ones have Dir != "")
	busy   bool
}

// Hook is the callback to install into the lindb seams.
func (im *Imager) Hook(op, path string, before bool) {
	if !im.Active || im.busy {
		return
	}
	im.busy = true
	defer func() { im.busy = false }()
	rel := path
	if strings.HasPrefix(path, im.Root) {
		rel = strings.TrimPrefix(strings.TrimPrefix(path, im.Root), "/")
	}
	p := Point{Seq: im.seq, OpIdx: im.OpIdx, OpName: im.OpName, FSOp: op, Path: rel, Before: before}
	im.seq++
	if im.Want == nil || im.Want(p) {
		dir := filepath.Join(im.OutDir, fmt.Sprintf("img-%05d", p.Seq))
		if err := CopyTree(im.Root, dir); err != nil {
			panic(fmt.Sprintf("harness: copy image: %v", err))
		}
		p.Dir = dir
	}
	im.Points = append(im.Points, p)
	if im.OnPoint != nil {
		im.OnPoint(p)
	}
}

// Begin marks the start of a history operation.
func (im *Imager) Begin(idx int, name string) {
	im.OpIdx, im.OpName, im.Active = idx, name, true
}

// End marks the end of a history operation.
func (im *Imager) End() { im.Active = false }

// Drop removes the copies of all points and forgets them.
func (im *Imager) Drop() {
	for _, p := range im.Points {
		if p.Dir != "" {
			_ = os.RemoveAll(p.Dir)
		}
	}
	im.Points = nil
}

// CopyTree copies a directory tree; big sparse files are copied hole-aware.
func CopyTree(src, dst string) error {
	return filepath.Walk(src, func(path string, info os.FileInfo, err error) error {
		if err != nil {
			if os.IsNotExist(err) {
				return nil // file vanished while walking (only possible with re-entrant hooks)
			}
			return err
		}
		rel, _ := filepath.Rel(src, path)
		target := filepath.Join(dst, rel)
		if info.IsDir() {
			return os.MkdirAll(target, 0o755)
		}
		if !info.Mode().IsRegular() {
			return nil
		}
		return copyFile(path, target, info)
	})
}

func copyFile(src, dst string, info os.FileInfo) error {
	in, err := os.Open(src)
	if err != nil {
		if os.IsNotExist(err) {
			return nil
		}
		return err
	}
	defer in.Close()
	out, err := os.OpenFile(dst, os.O_CREATE|os.O_TRUNC|os.O_WRONLY, 0o644)
	if err != nil {
		return err
	}
	defer out.Close()
	size := info.Size()
	if size < 1<<20 {
		_, err = io.Copy(out, in)
		return err
	}
	// sparse aware copy
	const seekData, seekHole = 3, 4
	var off int64
	for off < size {
		ds, err := syscall.Seek(int(in.Fd()), off, seekData)
		if err != nil {
			break // ENXIO: no more data
		}
		he, err := syscall.Seek(int(in.Fd()), ds, seekHole)
		if err != nil {
			he = size
		}
		if _, err := in.Seek(ds, io.SeekStart); err != nil {
			return err
		}
		if _, err := out.Seek(ds, io.SeekStart); err != nil {
			return err
		}
		if _, err := io.CopyN(out, in, he-ds); err != nil && err != io.EOF {
			return err
		}
		off = he
	}
	return out.Truncate(size)
}
