// Package kvsim holds what the kv-store properties (C01, C02) share: a merger whose result
// does not depend on how compaction groups its inputs (values are sets of atoms, merge =
// union), the reference model and readers that turn a family into model form.
package kvsim

import (
	"encoding/binary"
	"fmt"
	"sort"
	"strings"
	"sync"

	"github.com/lindb/lindb/kv"
	"github.com/lindb/lindb/kv/version"
)

// MergerName is the merger registered by Register.
const MergerName = "verif-union"

var once sync.Once

// Register registers the union merger once per process.
func Register() {
	once.Do(func() {
		kv.RegisterMerger(MergerName, func(flusher kv.Flusher) (kv.Merger, error) {
			return &unionMerger{flusher: flusher}, nil
		})
	})
}

type unionMerger struct {
	flusher kv.Flusher
}

func (m *unionMerger) Init(_ map[string]interface{}) {}

// Merge unions the atom sets. Odd keys are written through the stream writer, even keys
// through Add, so both output paths of the compaction flusher are exercised.
func (m *unionMerger) Merge(key uint32, values [][]byte) error {
	set := map[uint32]bool{}
	for _, v := range values {
		atoms, err := Decode(v)
		if err != nil {
			return fmt.Errorf("union merger: key %d: %w", key, err)
		}
		for _, a := range atoms {
			set[a] = true
		}
	}
	out := Encode(set)
	if key%2 == 1 {
		sw, err := m.flusher.StreamWriter()
		if err != nil {
			return err
		}
		sw.Prepare(key)
		half := len(out) / 2
		if _, err := sw.Write(out[:half]); err != nil {
			return err
		}
		if _, err := sw.Write(out[half:]); err != nil {
			return err
		}
		return sw.Commit()
	}
	return m.flusher.Add(key, out)
}

// Encode renders an atom set: 4 bytes big endian per atom, ascending.
func Encode(set map[uint32]bool) []byte {
	atoms := make([]uint32, 0, len(set))
	for a := range set {
		atoms = append(atoms, a)
	}
	sort.Slice(atoms, func(i, j int) bool { return atoms[i] < atoms[j] })
	out := make([]byte, 4*len(atoms))
	for i, a := range atoms {
		binary.BigEndian.PutUint32(out[4*i:], a)
	}
	return out
}

// Decode parses a value written by Encode.
func Decode(v []byte) ([]uint32, error) {
	if len(v)%4 != 0 || len(v) == 0 {
		return nil, fmt.Errorf("value of %d bytes is not an atom list", len(v))
	}
	out := make([]uint32, len(v)/4)
	for i := range out {
		out[i] = binary.BigEndian.Uint32(v[4*i:])
	}
	return out, nil
}

// Content is the model form of one family: key -> set of atoms.
type Content map[uint32]map[uint32]bool

// Clone copies the content.
func (c Content) Clone() Content {
	out := Content{}
	for k, s := range c {
		ns := make(map[uint32]bool, len(s))
		for a := range s {
			ns[a] = true
		}
		out[k] = ns
	}
	return out
}

// AddAtom adds an atom to a key.
func (c Content) AddAtom(key, atom uint32) {
	s, ok := c[key]
	if !ok {
		s = map[uint32]bool{}
		c[key] = s
	}
	s[atom] = true
}

// Equal compares two contents.
func (c Content) Equal(o Content) bool {
	if len(c) != len(o) {
		return false
	}
	for k, s := range c {
		os, ok := o[k]
		if !ok || len(os) != len(s) {
			return false
		}
		for a := range s {
			if !os[a] {
				return false
			}
		}
	}
	return true
}

// String renders the content canonically.
func (c Content) String() string {
	keys := make([]uint32, 0, len(c))
	for k := range c {
		keys = append(keys, k)
	}
	sort.Slice(keys, func(i, j int) bool { return keys[i] < keys[j] })
	var sb strings.Builder
	sb.WriteString("{")
	for i, k := range keys {
		if i > 0 {
			sb.WriteString(" ")
		}
		atoms := make([]uint32, 0, len(c[k]))
		for a := range c[k] {
			atoms = append(atoms, a)
		}
		sort.Slice(atoms, func(i, j int) bool { return atoms[i] < atoms[j] })
		fmt.Fprintf(&sb, "%d:%v", k, atoms)
	}
	sb.WriteString("}")
	return sb.String()
}

// Diff describes the first differences between want and got.
func Diff(want, got Content) string {
	var sb strings.Builder
	n := 0
	for k, s := range want {
		g, ok := got[k]
		if !ok {
			fmt.Fprintf(&sb, " key %d missing (want atoms %v);", k, keysOf(s))
			n++
		} else {
			for a := range s {
				if !g[a] {
					fmt.Fprintf(&sb, " key %d lacks atom %d;", k, a)
					n++
				}
			}
			for a := range g {
				if !s[a] {
					fmt.Fprintf(&sb, " key %d has extra atom %d;", k, a)
					n++
				}
			}
		}
		if n > 8 {
			break
		}
	}
	for k, g := range got {
		if _, ok := want[k]; !ok {
			fmt.Fprintf(&sb, " unexpected key %d (atoms %v);", k, keysOf(g))
			n++
			if n > 12 {
				break
			}
		}
	}
	return sb.String()
}

func keysOf(s map[uint32]bool) []uint32 {
	out := make([]uint32, 0, len(s))
	for a := range s {
		out = append(out, a)
	}
	sort.Slice(out, func(i, j int) bool { return out[i] < out[j] })
	return out
}

// ReadSnapshot reads the whole content visible through a snapshot in two independent ways
// and cross-checks them: (1) Snapshot.Load for every probe key, (2) a scan of every file of
// the snapshot's version through its reader. Files are also checked to open.
func ReadSnapshot(snap version.Snapshot, probe []uint32) (Content, error) {
	byLoad := Content{}
	for _, k := range probe {
		key := k
		err := snap.Load(key, func(value []byte) error {
			atoms, err := Decode(value)
			if err != nil {
				return fmt.Errorf("key %d: %w", key, err)
			}
			for _, a := range atoms {
				byLoad.AddAtom(key, a)
			}
			return nil
		})
		if err != nil {
			return nil, fmt.Errorf("Load(%d): %w", key, err)
		}
	}
	byScan := Content{}
	for _, fm := range snap.GetCurrent().GetAllFiles() {
		r, err := snap.GetReader(fm.GetFileNumber())
		if err != nil {
			return nil, fmt.Errorf("file %d referenced by the version does not open: %w", fm.GetFileNumber(), err)
		}
		if r == nil {
			return nil, fmt.Errorf("file %d: nil reader", fm.GetFileNumber())
		}
		it := r.Iterator()
		first := true
		var prev uint32
		for it.HasNext() {
			k := it.Key()
			if !first && k <= prev {
				return nil, fmt.Errorf("file %d iterates key %d after %d", fm.GetFileNumber(), k, prev)
			}
			first, prev = false, k
			if k < fm.GetMinKey() || k > fm.GetMaxKey() {
				return nil, fmt.Errorf("file %d holds key %d outside its recorded range [%d,%d]", fm.GetFileNumber(), k, fm.GetMinKey(), fm.GetMaxKey())
			}
			atoms, err := Decode(it.Value())
			if err != nil {
				return nil, fmt.Errorf("file %d key %d: %w", fm.GetFileNumber(), k, err)
			}
			for _, a := range atoms {
				byScan.AddAtom(k, a)
			}
		}
	}
	// every probed key must agree; scan may contain keys that were not probed
	for _, k := range probe {
		l, s := byLoad[k], byScan[k]
		if len(l) != len(s) {
			return nil, fmt.Errorf("key %d: Load sees atoms %v, file scan sees %v", k, keysOf(l), keysOf(s))
		}
		for a := range l {
			if !s[a] {
				return nil, fmt.Errorf("key %d: Load sees atom %d, file scan does not", k, a)
			}
		}
	}
	return byScan, nil
}

// ReadFamily reads the current content of a family.
func ReadFamily(f kv.Family, probe []uint32) (Content, error) {
	snap := f.GetSnapshot()
	defer snap.Close()
	return ReadSnapshot(snap, probe)
}
