package c01

// Operations of other actors nested at the seams of an obsolete-file pass.
//
// family.deleteObsoleteFiles (the trailing cleanup of a compaction / rollup job, the open-time
// cleanup) lists the family directory, reads the live set (pending outputs, files of the active
// versions) and then removes table by table. It holds no kv lock while it does so, hence flusher
// commits, new writers, other cleanups and compaction jobs of the same store really complete
// between two of its file-system operations. The hand-over "pending output -> installed version"
// of a commit has to be safe against a pass that is anywhere between its listing and its last
// removal.
//
// Generator: the history operations that run a pass on the main goroutine (compact: the trailing
// pass of the production compaction job; deleteObsolete: the bare pass) carry a generated plan of
// 1-3 steps. A step names a seam of the pass (listDir before|after, the n-th removeDir
// before|after) and an operation of another actor that runs to completion right there, on the same
// goroutine (the pass holds no lock, so nothing can block):
//
//	commitWriter    commit of an unfinished writer of the history (its table was created before
//	                the pass listed the directory; preferably a writer of the family of the pass)
//	flush           a writer is opened and committed inside the seam
//	openWriter      a writer is opened inside the seam and stays unfinished
//	deleteObsolete  another obsolete-file pass (of the same or another family)
//	compact         a production compaction job (of another family, or of the same family when the
//	                outer operation is the bare pass), with its own trailing pass
//	cacheCleanup    reader cache cleanup
//
// Nested operations do not nest further. Oracles: (1) the existing ones - live content equals the
// model after the operation, every table referenced by the current version is a file of the
// family directory, reopen, crash images; an image of an operation with nested commits must show,
// per family, the state after the last nested commit that had returned when the image was taken,
// or the state after the nested commit in flight (the outer operations do not change content);
// (2) at the removeDir seam: a pass never removes a table that the current version of the family
// references or that an unfinished writer of the history holds.

import (
	"fmt"
	"path/filepath"
	"strconv"
	"strings"

	"pgregory.net/rapid"

	"github.com/lindb/lindb/kv"
	"github.com/lindb/lindb/verifharness/sim/crash"
)

type passState struct {
	plan     *passPlan        // armed while a history operation that runs a pass on the main goroutine is in flight
	inNested bool             // an operation nested at a pass seam is running: no further nesting
	lastSeq  int              // sequence number of the last hook invocation the imager has seen
	mids     map[int][]midRec // history operation -> commits that completed inside it, in order
	focus    bool             // TestCleanupInterleavings: histories biased towards passes with nested operations
	group    string           // evidence group (test name)

	commitsInPass int // nested commits (commitWriter, flush) of the history
	imagesInMid   int // recovered images taken inside or after a nested commit of the same operation
}

// midRec is a commit that completed inside another history operation.
type midRec struct {
	fam      string
	startSeq int       // first hook invocation inside the commit
	endSeq   int       // first hook invocation after the commit returned
	after    *famModel // committed state of the family once the commit returned
	what     string
}

type passStep struct {
	seamOp string // "listDir" | "removeDir"
	before bool
	nth    int    // n-th occurrence of the seam within the pass of the planned family (0 for listDir)
	kind   string // commitWriter | flush | openWriter | deleteObsolete | compact | cacheCleanup

	// commitWriter
	pick       int
	preferSame bool
	useSeq     bool
	leader     int32
	delta      int64
	// flush / openWriter
	spec writerSpec
	// deleteObsolete / compact
	fam   string
	force bool

	fired bool
}

func (s passStep) String() string {
	ph := "after"
	if s.before {
		ph = "before"
	}
	at := fmt.Sprintf("%s/%s#%d", s.seamOp, ph, s.nth)
	switch s.kind {
	case "commitWriter":
		return fmt.Sprintf("%s:commitWriter(pick=%d same=%v seq=%v/%d+%d)", at, s.pick, s.preferSame, s.useSeq, s.leader, s.delta)
	case "flush", "openWriter":
		return fmt.Sprintf("%s:%s(%s)", at, s.kind, s.spec)
	case "compact":
		return fmt.Sprintf("%s:compact(%s,force=%v)", at, s.fam, s.force)
	case "deleteObsolete":
		return fmt.Sprintf("%s:deleteObsolete(%s)", at, s.fam)
	}
	return at + ":" + s.kind
}

// passPlan belongs to one history operation that runs an obsolete-file pass of family fam.
type passPlan struct {
	fam   string
	outer string // "compact" | "deleteObsolete"
	steps []passStep

	seen       map[string]int // seam -> occurrences so far (pass of fam only)
	listed     map[int]bool   // unfinished writers of fam whose table existed when the pass listed the directory
	removing   int64          // number of the table the pass is removing (removeDir seams), -1 otherwise
	removed    int
	err        error
	violations []string
}

func (p *passPlan) String() string {
	if p == nil || len(p.steps) == 0 {
		return "-"
	}
	parts := make([]string, len(p.steps))
	for i, s := range p.steps {
		parts[i] = s.String()
	}
	return "[" + strings.Join(parts, " ") + "]"
}

func seamKey(op string, before bool) string {
	if before {
		return op + "/before"
	}
	return op + "/after"
}

// drawPassPlan draws the operations of other actors that run inside the pass of family fam.
func (e *env) drawPassPlan(fam, outer string) *passPlan {
	p := &passPlan{fam: fam, outer: outer, seen: map[string]int{}, removing: -1}
	odds := 1 // a plan for 1 pass in 2
	if e.ps.focus {
		odds = 5 // 5 in 6
	}
	if rapid.IntRange(0, odds).Draw(e.t, "passNest") == 0 {
		return p
	}
	nSteps := rapid.SampledFrom([]int{1, 1, 2, 2, 3}).Draw(e.t, "passSteps")
	room := maxPending - len(e.pending)
	open := len(e.pending)
	famPool := append([]string{fam, fam}, e.famNames...)
	ownWriter := false
	for _, w := range e.pending {
		ownWriter = ownWriter || w.fam == fam
	}
	for i := 0; i < nSteps; i++ {
		s := passStep{}
		seam := rapid.SampledFrom([]string{"listDir/before", "listDir/after", "removeDir/before", "removeDir/before", "removeDir/after", "removeDir/after"}).Draw(e.t, "passSeam")
		s.seamOp, s.before = strings.Split(seam, "/")[0], strings.HasSuffix(seam, "/before")
		if s.seamOp == "removeDir" {
			s.nth = rapid.SampledFrom([]int{0, 0, 0, 1, 2}).Draw(e.t, "passSeamNth")
		}
		kinds := []string{"flush", "deleteObsolete", "compact", "cacheCleanup"}
		if open > 0 {
			kinds = append(kinds, "commitWriter", "commitWriter", "commitWriter", "commitWriter", "commitWriter")
		}
		if room > 0 {
			kinds = append(kinds, "openWriter", "openWriter")
		}
		s.kind = rapid.SampledFrom(kinds).Draw(e.t, "passKind")
		if i == 0 && e.ps.focus && ownWriter && rapid.Bool().Draw(e.t, "passCommitOwnWriter") {
			// the neighbourhood that matters most: a prepared writer of the family of the pass commits while
			// the pass removes tables
			s.kind = "commitWriter"
			if rapid.IntRange(0, 3).Draw(e.t, "passAtRemoval") != 0 {
				s.seamOp, s.nth = "removeDir", rapid.SampledFrom([]int{0, 0, 1}).Draw(e.t, "passSeamNth")
			}
		}
		switch s.kind {
		case "commitWriter":
			s.pick = rapid.IntRange(0, 7).Draw(e.t, "passWriter")
			s.preferSame = rapid.IntRange(0, 3).Draw(e.t, "passWriterSameFamily") != 0 || (i == 0 && e.ps.focus && ownWriter)
			s.useSeq = rapid.IntRange(0, 3).Draw(e.t, "useSeq") == 0
			if s.useSeq {
				s.leader = int32(rapid.IntRange(1, 2).Draw(e.t, "leader"))
				s.delta = int64(rapid.IntRange(1, 5).Draw(e.t, "seqDelta"))
			}
			open--
			room++
		case "flush", "openWriter":
			s.spec = e.drawSpec()
			if rapid.IntRange(0, 2).Draw(e.t, "passSpecSameFamily") != 0 {
				s.spec.fam = fam
			}
			if s.kind == "openWriter" {
				open++
				room--
			}
		case "deleteObsolete":
			s.fam = rapid.SampledFrom(famPool).Draw(e.t, "passFamily")
		case "compact":
			s.fam = rapid.SampledFrom(famPool).Draw(e.t, "passFamily")
			s.force = rapid.Bool().Draw(e.t, "force")
		}
		p.steps = append(p.steps, s)
	}
	return p
}

// passSeam is called from the FS hook while a plan is armed (main goroutine only).
func (e *env) passSeam(op, path string, before bool) {
	p := e.ps.plan
	if p == nil || e.ps.inNested || (op != "listDir" && op != "removeDir") {
		return
	}
	fam := seamFamily(op, path)
	if _, ok := e.fams[fam]; !ok {
		return // listing of the store directory
	}
	if op == "removeDir" && before {
		e.checkRemoval(p, fam, path)
	}
	if fam != p.fam {
		return
	}
	p.removing = -1
	if op == "removeDir" {
		if n, err := strconv.ParseInt(strings.TrimSuffix(filepath.Base(path), ".sst"), 10, 64); err == nil {
			p.removing = n
		}
		if !before {
			p.removed++
		}
	}
	key := seamKey(op, before)
	if key == "listDir/after" && p.seen[key] == 0 {
		p.listed = map[int]bool{}
		for _, w := range e.pending {
			if w.fam == fam {
				p.listed[w.id] = true
			}
		}
	}
	nth := p.seen[key]
	p.seen[key]++
	for i := range p.steps {
		s := &p.steps[i]
		if s.fired || s.seamOp != op || s.before != before || s.nth != nth || p.err != nil {
			continue
		}
		s.fired = true
		e.ps.inNested = true
		e.runPassStep(p, s)
		e.ps.inNested = false
	}
}

// checkRemoval: an obsolete-file pass is about to remove a table. It must not be a table that the
// current version of the family references (the only copy of committed flushes) nor the table of
// an unfinished writer of the history (its commit will reference it).
func (e *env) checkRemoval(p *passPlan, fam, path string) {
	num, err := strconv.ParseInt(strings.TrimSuffix(filepath.Base(path), ".sst"), 10, 64)
	if err != nil {
		return
	}
	e.classes["pass-removal-checked"]++
	for _, w := range e.pending {
		if w.fam == fam && w.num == num {
			p.violations = append(p.violations, fmt.Sprintf("the obsolete-file pass removes %s/%06d.sst, the table of unfinished writer w%d", fam, num, w.id))
		}
	}
	snap := e.fams[fam].GetSnapshot()
	for _, fm := range snap.GetCurrent().GetAllFiles() {
		if fm.GetFileNumber().Int64() == num {
			p.violations = append(p.violations, fmt.Sprintf("the obsolete-file pass removes %s/%06d.sst, which the current version of the family references", fam, num))
		}
	}
	snap.Close()
}

func (e *env) noteMid(fam string, start int, what string) {
	opIdx := len(e.ops) - 1
	e.ps.mids[opIdx] = append(e.ps.mids[opIdx], midRec{fam: fam, startSeq: start, endSeq: e.ps.lastSeq + 1, after: e.cur[fam].clone(), what: what})
	e.ps.commitsInPass++
	e.commitsInSession++
	e.histLabels["hist-commit-inside-obsolete-pass"] = true
}

// runPassStep runs one operation of another actor inside the seam the pass is at.
func (e *env) runPassStep(p *passPlan, s *passStep) {
	seam := seamKey(s.seamOp, s.before)
	e.classes["pass-step-fired"]++
	e.classes["pass-step-fired@"+seam]++
	e.classes["pass-step-"+s.kind]++
	e.classes["pass-step-"+s.kind+"@"+s.seamOp]++
	e.classes["pass-step-inside-"+p.outer]++
	switch s.kind {
	case "commitWriter":
		var cands []int
		if s.preferSame {
			for i, w := range e.pending {
				if w.fam == p.fam {
					cands = append(cands, i)
				}
			}
		}
		if len(cands) == 0 {
			for i := range e.pending {
				cands = append(cands, i)
			}
		}
		if len(cands) == 0 {
			e.classes["pass-step-commitWriter-without-writer"]++
			return
		}
		idx := cands[s.pick%len(cands)]
		w := e.pending[idx]
		e.pending = append(e.pending[:idx:idx], e.pending[idx+1:]...)
		e.commitInPass(p, s, w, "commitWriter")
	case "flush":
		w, err := e.openWriterRaw(s.spec)
		if err != nil {
			if w != nil {
				w.released = true
				w.fl.Release()
			}
			p.err = fmt.Errorf("flush inside the pass: %w", err)
			return
		}
		e.commitInPass(p, s, w, "flush")
	case "openWriter":
		if len(e.pending) >= maxPending {
			e.classes["pass-step-openWriter-no-room"]++
			return
		}
		w, err := e.openWriterRaw(s.spec)
		if w != nil {
			e.pending = append(e.pending, w)
		}
		if err != nil {
			p.err = fmt.Errorf("open writer inside the pass: %w", err)
			return
		}
		e.histLabels["hist-unfinished-writer"] = true
		e.histLabels["hist-writer-opened-inside-obsolete-pass"] = true
		if s.spec.fam == p.fam {
			e.classes["pass-step-openWriter-same-family"]++
		}
	case "deleteObsolete":
		kv.VerifDeleteObsoleteFiles(e.fams[s.fam])
		if s.fam == p.fam {
			e.classes["pass-step-deleteObsolete-same-family"]++
		}
	case "compact":
		ran, err := kv.VerifCompactSync(e.fams[s.fam], s.force)
		if err != nil {
			p.err = fmt.Errorf("compaction of family %s inside the pass: %w", s.fam, err)
			return
		}
		if ran {
			e.classes["pass-step-compact-ran"]++
			e.commitsInSession++
			if s.fam == p.fam {
				e.classes["pass-step-compact-ran-same-family"]++
			}
		}
	case "cacheCleanup":
		kv.VerifCacheCleanup(e.store)
	}
}

// commitInPass commits the writer inside the seam; the model moves when Commit returned success.
func (e *env) commitInPass(p *passPlan, s *passStep, w *writer, what string) {
	var seq int64
	if s.useSeq {
		seq = e.cur[w.fam].seqs[s.leader] + s.delta
		w.fl.Sequence(s.leader, seq)
	}
	start := e.ps.lastSeq + 1
	w.released = true
	err := w.fl.Commit()
	w.fl.Release()
	if err != nil {
		p.err = fmt.Errorf("%s of w%d (family %s) inside the pass failed: %w", what, w.id, w.fam, err)
		return
	}
	for _, k := range w.keys {
		e.cur[w.fam].content.AddAtom(k, w.atom)
	}
	if s.useSeq {
		e.cur[w.fam].seqs[s.leader] = seq
	}
	e.noteMid(w.fam, start, fmt.Sprintf("%s w%d@%s table=%d at %s", what, w.id, w.fam, w.num, seamKey(s.seamOp, s.before)))
	e.classes["pass-commit"]++
	e.classes["pass-commit-inside-"+p.outer]++
	if w.fam != p.fam {
		e.classes["pass-commit-other-family"]++
		return
	}
	e.classes["pass-commit-same-family"]++
	e.classes["pass-commit-same-family@"+s.seamOp]++
	if what == "commitWriter" {
		// the table existed when the pass listed the directory (or is created at the leading seam)
		e.classes["pass-commit-of-prepared-writer-same-family@"+s.seamOp]++
		e.histLabels["hist-prepared-writer-commits-inside-pass-of-its-family"] = true
	}
	if !p.listed[w.id] {
		return
	}
	// the pass has the writer's table in its listing
	if s.seamOp == "listDir" {
		// between the listing and the read of the live set
		e.classes["pass-commit-of-listed-table-before-live-set-is-read"]++
		e.histLabels["hist-commit-between-listing-and-live-set"] = true
	} else if w.num >= 0 && p.removing >= 0 && w.num > p.removing {
		// the live set is read, the pass decides about the writer's table after the commit
		e.classes["pass-commit-of-listed-table-before-pass-reaches-it"]++
		e.histLabels["hist-commit-lands-before-pass-reaches-its-table"] = true
	} else {
		e.classes["pass-commit-of-listed-table-after-pass-passed-it"]++
	}
}

// finishPass: the outer operation has returned.
func (e *env) finishPass(p *passPlan, ran bool) {
	e.ps.plan = nil
	e.ps.inNested = false
	if p == nil {
		return
	}
	e.classes["pass-op"]++
	if p.seen["listDir/before"] > 0 {
		e.classes["pass-op-pass-ran"]++
	}
	if p.removed > 0 {
		e.classes["pass-op-removed-tables"]++
		e.classes["pass-tables-removed"] += p.removed
	}
	if len(p.steps) > 0 {
		e.classes["pass-plan"]++
		fired := 0
		for _, s := range p.steps {
			if s.fired {
				fired++
			} else {
				e.classes["pass-step-not-reached"]++
				e.classes["pass-step-not-reached@"+s.seamOp]++
			}
		}
		if fired > 0 {
			e.classes["pass-plan-fired"]++
			e.histLabels["hist-operation-nested-in-obsolete-pass"] = true
		}
		if fired >= 2 {
			e.classes["pass-plan-fired>=2-steps"]++
		}
	}
	if p.err != nil {
		e.fatalf("operation %d (%s of family %s), nested at a seam of its obsolete-file pass: %v", len(e.ops)-1, p.outer, p.fam, p.err)
	}
	if len(p.violations) > 0 {
		e.fatalf("operation %d (%s of family %s, nested=%s): %s", len(e.ops)-1, p.outer, p.fam, p, strings.Join(p.violations, "; "))
	}
}

// legalStates: the committed states of family fam an image of operation opIdx taken at hook
// invocation seq may show: base = state after the last nested commit that had returned, alt = the
// state after the nested commit in flight (== base when none is in flight).
func (e *env) legalStates(opIdx int, fam string, seq int, before *famModel) (base, alt *famModel, touched bool) {
	base = before
	for _, m := range e.ps.mids[opIdx] {
		if m.fam != fam {
			continue
		}
		touched = true
		if m.endSeq <= seq {
			base = m.after
			continue
		}
		if m.startSeq <= seq {
			alt = m.after
		}
		break
	}
	if alt == nil {
		alt = base
	}
	return base, alt, touched
}

// classifyPassImage counts recovered images by their position relative to the nested commits.
func (e *env) classifyPassImage(p crash.Point) {
	ms := e.ps.mids[p.OpIdx]
	if len(ms) == 0 {
		return
	}
	in, after := false, false
	for _, m := range ms {
		if p.Seq >= m.endSeq {
			after = true
		} else if p.Seq >= m.startSeq {
			in = true
		}
	}
	switch {
	case in:
		e.classes["img-inside-commit-nested-in-pass"]++
		e.ps.imagesInMid++
	case after:
		e.classes["img-of-pass-after-nested-commit-returned"]++
		e.ps.imagesInMid++
	default:
		e.classes["img-of-pass-before-nested-commit"]++
	}
}

// preferredImages: indices of the pending images taken inside or after a commit nested in a pass.
func (e *env) preferredImages(pts []crash.Point) []int {
	var out []int
	for i, p := range pts {
		ms := e.ps.mids[p.OpIdx]
		if len(ms) > 0 && p.Seq >= ms[0].startSeq {
			out = append(out, i)
		}
	}
	return out
}

// l0Busy: families whose level 0 holds >= 2 tables (a forced compaction merges them and its
// trailing pass has tables to remove).
func (e *env) l0Busy() []string {
	var busy []string
	for _, n := range e.famNames {
		snap := e.fams[n].GetSnapshot()
		if snap.GetCurrent().NumberOfFilesInLevel(0) >= 2 {
			busy = append(busy, n)
		}
		snap.Close()
	}
	return busy
}

// opCompact: the production level-0 compaction job on the main goroutine; operations of other
// actors run at the seams of its trailing obsolete-file pass.
func (e *env) opCompact() {
	name := e.pickFamily()
	force := rapid.Bool().Draw(e.t, "force")
	if e.ps.focus {
		if busy := e.l0Busy(); len(busy) > 0 && rapid.IntRange(0, 3).Draw(e.t, "busyFamily") != 0 {
			name, force = rapid.SampledFrom(busy).Draw(e.t, "family"), true
			for _, w := range e.pending {
				// the family of an unfinished writer is the interesting one
				if rapid.Bool().Draw(e.t, "writerFamily") {
					for _, b := range busy {
						if b == w.fam {
							name = b
						}
					}
				}
				break
			}
		}
	}
	pp := e.drawPassPlan(name, "compact")
	e.begin("compact", name, fmt.Sprintf("force=%v nested=%s", force, pp))
	e.ps.plan = pp
	ran, err := kv.VerifCompactSync(e.fams[name], force)
	e.ps.plan = nil
	e.end()
	if err != nil {
		e.fatalf("compaction of family %s failed: %v", name, err)
	}
	if ran {
		e.classes["compact-ran"]++
		e.commitsInSession++
		if len(e.pending) > 0 {
			e.classes["compact-ran-with-unfinished-writers"]++
		}
	}
	e.finishPass(pp, ran)
}

// opCleanup: the bare obsolete-file pass + reader cache cleanup.
func (e *env) opCleanup() {
	name := e.pickFamily()
	pp := e.drawPassPlan(name, "deleteObsolete")
	e.begin("deleteObsolete", name, "nested="+pp.String())
	e.ps.plan = pp
	kv.VerifDeleteObsoleteFiles(e.fams[name])
	e.ps.plan = nil
	kv.VerifCacheCleanup(e.store)
	e.end()
	if len(e.pending) > 0 {
		e.classes["deleteObsolete-with-unfinished-writers"]++
	}
	e.finishPass(pp, true)
}

// focusActions: the action menu of TestCleanupInterleavings. Same operations as TestCrashRecovery,
// weighted so that unfinished writers, several level-0 tables and compactions meet often.
func (e *env) focusActions() map[string]func(*rapid.T) {
	return map[string]func(*rapid.T){
		"createFamily": func(t *rapid.T) {
			e.t = t
			if len(e.famNames) >= 2 {
				t.Skip("enough families")
			}
			e.opCreateFamily()
		},
		"flush":        func(t *rapid.T) { e.t = t; e.opFlush() },
		"flush2":       func(t *rapid.T) { e.t = t; e.opFlush() },
		"flush3":       func(t *rapid.T) { e.t = t; e.opFlush() },
		"openWriter":   func(t *rapid.T) { e.t = t; e.opOpenWriter() },
		"openWriter2":  func(t *rapid.T) { e.t = t; e.opOpenWriter() },
		"commitWriter": func(t *rapid.T) { e.t = t; e.opCommitWriter() },
		"compact":      func(t *rapid.T) { e.t = t; e.opCompact() },
		"compact2":     func(t *rapid.T) { e.t = t; e.opCompact() },
		"compact3":     func(t *rapid.T) { e.t = t; e.opCompact() },
		"cleanup":      func(t *rapid.T) { e.t = t; e.opCleanup() },
		"reopen":       func(t *rapid.T) { e.t = t; e.opReopen() },
		"crash": func(t *rapid.T) {
			e.t = t
			if len(e.im.Points) == 0 {
				t.Skip("no pending images")
			}
			e.crashCheck(false)
		},
		"": func(t *rapid.T) { e.t = t; e.checkLive() },
	}
}
