// Package c01 checks property C01: a committed flush of the kv store is atomic and durable
// across a process crash, half-written files never become visible or prevent reopening, and
// file numbers of referenced files are never reused after recovery.
package c01

import (
	"fmt"
	"os"
	"path/filepath"
	"sort"
	"strings"
	"testing"
	"time"

	"github.com/lindb/common/pkg/ltoml"
	"pgregory.net/rapid"

	"github.com/lindb/lindb/kv"
	"github.com/lindb/lindb/kv/table"
	"github.com/lindb/lindb/kv/version"
	"github.com/lindb/lindb/verifharness/sim/crash"
	"github.com/lindb/lindb/verifharness/sim/ev"
	"github.com/lindb/lindb/verifharness/sim/kvsim"
)

func TestMain(m *testing.M) { ev.Main(m) }

// ---- model -----------------------------------------------------------------------------------

type famModel struct {
	content kvsim.Content
	seqs    map[int32]int64
}

func (f *famModel) clone() *famModel {
	s := map[int32]int64{}
	for k, v := range f.seqs {
		s[k] = v
	}
	return &famModel{content: f.content.Clone(), seqs: s}
}

type model map[string]*famModel

func (m model) clone() model {
	out := model{}
	for k, v := range m {
		out[k] = v.clone()
	}
	return out
}

type opRec struct {
	Name   string `json:"op"`
	Family string `json:"family,omitempty"`
	Detail string `json:"detail,omitempty"`
}

// ---- case state ------------------------------------------------------------------------------

type env struct {
	t         *rapid.T
	dir       string
	storePath string
	opt       kv.StoreOption
	famOpt    kv.FamilyOption
	store     kv.Store
	fams      map[string]kv.Family
	famNames  []string
	im        *crash.Imager
	states    []model // states[i] = committed model before history operation i
	cur       model
	ops       []opRec
	universe  []uint32
	atom      uint32
	opened    []string // stores opened on images (closed at the end)
	thorough  bool

	imagesChecked   int
	insideCommit    int
	ntHashes        []string
	classes         map[string]int
	recoveredStores int
}

var keyUniverse = []uint32{0, 1, 2, 3, 4, 5, 6, 7, 8, 9, 10, 11, 12, 13, 14, 15, 16, 17, 18, 19, 20, 21, 22, 23, 24,
	100, 101, 4095, 4096, 65534, 65535, 65536, 65537, 131071, 131072, 1 << 24, 1<<31 - 1, 1 << 31, 1<<32 - 2, 1<<32 - 1}

func (e *env) fatalf(format string, args ...any) {
	e.t.Helper()
	hist, _ := jsonString(e.ops)
	e.t.Fatalf(format+"\nhistory: %s", append(args, hist)...)
}

func (e *env) openStore() {
	s, err := kv.GetStoreManager().CreateStore(e.storePath, e.opt)
	if err != nil {
		e.fatalf("open store: %v", err)
	}
	e.store = s
	e.fams = map[string]kv.Family{}
	for _, n := range e.famNames {
		f := s.GetFamily(n)
		if f == nil {
			e.fatalf("family %s missing after (re)open", n)
		}
		e.fams[n] = f
	}
}

func (e *env) closeStore() {
	if e.store != nil {
		if err := kv.GetStoreManager().CloseStore(e.storePath); err != nil {
			e.fatalf("close store: %v", err)
		}
		e.store = nil
	}
}

// begin/end frame one history operation; states gets the committed model before the operation.
func (e *env) begin(name, family, detail string) {
	e.states = append(e.states, e.cur.clone())
	e.ops = append(e.ops, opRec{Name: name, Family: family, Detail: detail})
	e.im.Begin(len(e.ops)-1, name)
}

func (e *env) end() { e.im.End() }

// ---- operations ------------------------------------------------------------------------------

func (e *env) opCreateFamily() {
	if len(e.famNames) >= 3 {
		e.t.Skip("enough families")
	}
	name := fmt.Sprintf("f%d", len(e.famNames))
	e.begin("createFamily", name, "")
	f, err := e.store.CreateFamily(name, e.famOpt)
	e.end()
	if err != nil {
		e.fatalf("create family: %v", err)
	}
	e.famNames = append(e.famNames, name)
	e.fams[name] = f
	e.cur[name] = &famModel{content: kvsim.Content{}, seqs: map[int32]int64{}}
}

func (e *env) pickFamily() string {
	if len(e.famNames) == 0 {
		e.t.Skip("no family")
	}
	return rapid.SampledFrom(e.famNames).Draw(e.t, "family")
}

func (e *env) opFlush() {
	name := e.pickFamily()
	f := e.fams[name]
	nKeys := 0
	switch rapid.IntRange(0, 9).Draw(e.t, "flushKind") {
	case 0: // empty flush
	default:
		nKeys = rapid.IntRange(1, 12).Draw(e.t, "nKeys")
	}
	keySet := map[uint32]bool{}
	for i := 0; i < nKeys; i++ {
		keySet[rapid.SampledFrom(e.universe).Draw(e.t, "key")] = true
	}
	keys := make([]uint32, 0, len(keySet))
	for k := range keySet {
		keys = append(keys, k)
	}
	sort.Slice(keys, func(i, j int) bool { return keys[i] < keys[j] })
	useSeq := rapid.IntRange(0, 2).Draw(e.t, "useSeq") == 0
	var leader int32
	var seq int64
	if useSeq {
		leader = int32(rapid.IntRange(1, 2).Draw(e.t, "leader"))
		seq = e.cur[name].seqs[leader] + int64(rapid.IntRange(1, 5).Draw(e.t, "seqDelta"))
	}
	if len(keys) == 0 && !useSeq {
		// an entirely empty edit log is legal (commit returns true), keep it as a rare class
		e.classes["flush-empty-log"]++
	}
	e.atom++
	atom := e.atom
	modes := make([]bool, len(keys))
	for i := range keys {
		modes[i] = rapid.Bool().Draw(e.t, "stream")
	}
	e.begin("flush", name, fmt.Sprintf("keys=%v atom=%d seq=%v/%d:%d", keys, atom, useSeq, leader, seq))
	fl := f.NewFlusher()
	var err error
	for i, k := range keys {
		val := kvsim.Encode(map[uint32]bool{atom: true})
		if modes[i] {
			var sw table.StreamWriter
			sw, err = fl.StreamWriter()
			if err != nil {
				break
			}
			sw.Prepare(k)
			if _, err = sw.Write(val[:2]); err != nil {
				break
			}
			if _, err = sw.Write(val[2:]); err != nil {
				break
			}
			if err = sw.Commit(); err != nil {
				break
			}
		} else if err = fl.Add(k, val); err != nil {
			break
		}
	}
	if err == nil {
		if useSeq {
			fl.Sequence(leader, seq)
		}
		err = fl.Commit()
	}
	fl.Release()
	e.end()
	if err != nil {
		e.fatalf("flush of family %s failed: %v", name, err)
	}
	// commit returned success: the model moves
	for _, k := range keys {
		e.cur[name].content.AddAtom(k, atom)
	}
	if useSeq {
		e.cur[name].seqs[leader] = seq
	}
	e.classes["flush"]++
}

func (e *env) opCompact() {
	name := e.pickFamily()
	force := rapid.Bool().Draw(e.t, "force")
	e.begin("compact", name, fmt.Sprintf("force=%v", force))
	ran, err := kv.VerifCompactSync(e.fams[name], force)
	e.end()
	if err != nil {
		e.fatalf("compaction of family %s failed: %v", name, err)
	}
	if ran {
		e.classes["compact-ran"]++
	}
}

func (e *env) opCleanup() {
	name := e.pickFamily()
	e.begin("deleteObsolete", name, "")
	kv.VerifDeleteObsoleteFiles(e.fams[name])
	kv.VerifCacheCleanup(e.store)
	e.end()
}

func (e *env) opReopen() {
	e.begin("reopen", "", "")
	e.closeStore()
	e.openStore()
	e.end()
	e.classes["reopen"]++
}

// ---- oracle ----------------------------------------------------------------------------------

func (e *env) checkLive() {
	for _, n := range e.famNames {
		got, err := kvsim.ReadFamily(e.fams[n], e.universe)
		if err != nil {
			e.fatalf("live store, family %s: %v", n, err)
		}
		if !e.cur[n].content.Equal(got) {
			e.fatalf("live store, family %s differs from model:%s", n, kvsim.Diff(e.cur[n].content, got))
		}
		snap := e.fams[n].GetSnapshot()
		seqs := snap.GetCurrent().GetSequences()
		snap.Close()
		if !seqEqual(seqs, e.cur[n].seqs) {
			e.fatalf("live store, family %s: sequences %v, model %v", n, seqs, e.cur[n].seqs)
		}
	}
}

func seqEqual(a, b map[int32]int64) bool {
	if len(a) != len(b) {
		return false
	}
	for k, v := range a {
		if b[k] != v {
			return false
		}
	}
	return true
}

// matches reports whether the recovered family equals the model family.
func matches(fm *famModel, content kvsim.Content, seqs map[int32]int64) bool {
	return fm.content.Equal(content) && seqEqual(fm.seqs, seqs)
}

// recoverImage opens the image with the production open path and checks it against the two
// legal outcomes of the operation in flight; then it keeps working on the recovered store.
func (e *env) recoverImage(p crash.Point, deep bool) {
	before := e.states[p.OpIdx]
	var after model
	if p.OpIdx+1 < len(e.states) {
		after = e.states[p.OpIdx+1]
	} else {
		after = e.cur
	}
	op := e.ops[p.OpIdx]
	s, err := kv.GetStoreManager().CreateStore(p.Dir, e.opt)
	if err != nil {
		e.fatalf("image %s: store cannot be reopened: %v", p, err)
	}
	e.opened = append(e.opened, p.Dir)
	e.recoveredStores++
	referenced := map[int64]string{}
	recovered := map[string]kv.Family{}
	for n, afm := range after {
		bfm, existedBefore := before[n]
		f := s.GetFamily(n)
		if f == nil {
			if existedBefore {
				e.fatalf("image %s: family %s vanished", p, n)
			}
			continue // family creation in flight: not created is legal
		}
		recovered[n] = f
		snap := f.GetSnapshot()
		content, err := kvsim.ReadSnapshot(snap, e.universe)
		seqs := snap.GetCurrent().GetSequences()
		for _, fm := range snap.GetCurrent().GetAllFiles() {
			referenced[fm.GetFileNumber().Int64()] = n
		}
		for fn := range snap.GetCurrent().GetRollupFiles() {
			referenced[fn.Int64()] = n
		}
		snap.Close()
		if err != nil {
			e.fatalf("image %s: family %s unreadable after recovery: %v", p, n, err)
		}
		okAfter := matches(afm, content, seqs)
		okBefore := existedBefore && matches(bfm, content, seqs)
		if !existedBefore {
			okBefore = len(content) == 0 && len(seqs) == 0
		}
		if op.Family != n && existedBefore {
			// an operation on another family must not be visible here at all
			if !okBefore {
				e.fatalf("image %s: family %s (not touched by the operation in flight) differs from committed state:%s seqs=%v want=%v",
					p, n, kvsim.Diff(bfm.content, content), seqs, bfm.seqs)
			}
			continue
		}
		if !okBefore && !okAfter {
			var bc kvsim.Content
			if existedBefore {
				bc = bfm.content
			}
			e.fatalf("image %s: family %s is neither the state before nor after the operation in flight.\n vs before:%s\n vs after:%s\n seqs=%v",
				p, n, kvsim.Diff(bc, content), kvsim.Diff(afm.content, content), seqs)
		}
	}
	for n := range before {
		if _, ok := after[n]; !ok {
			e.fatalf("harness: family %s disappeared from the model", n)
		}
	}
	if !deep {
		return
	}
	// --- life after recovery: new flushes + compaction on every recovered family
	expect := map[string]kvsim.Content{}
	for n, f := range recovered {
		c, err := kvsim.ReadFamily(f, e.universe)
		if err != nil {
			e.fatalf("image %s: family %s: %v", p, n, err)
		}
		expect[n] = c
	}
	for round := 0; round < 2; round++ {
		for n, f := range recovered {
			atom := uint32(1<<30) + uint32(round)
			oldFiles := map[int64]bool{}
			osnap := f.GetSnapshot()
			for _, fm := range osnap.GetCurrent().GetAllFiles() {
				oldFiles[fm.GetFileNumber().Int64()] = true
			}
			osnap.Close()
			fl := f.NewFlusher()
			keys := []uint32{1, 2, 65536}
			for _, k := range keys {
				if err := fl.Add(k, kvsim.Encode(map[uint32]bool{atom: true})); err != nil {
					e.fatalf("image %s: post-recovery add: %v", p, err)
				}
			}
			err := fl.Commit()
			fl.Release()
			if err != nil {
				e.fatalf("image %s: post-recovery flush of %s failed: %v", p, n, err)
			}
			for _, k := range keys {
				expect[n].AddAtom(k, atom)
			}
			snap := f.GetSnapshot()
			for _, fm := range snap.GetCurrent().GetAllFiles() {
				num := fm.GetFileNumber().Int64()
				if oldFiles[num] {
					continue
				}
				// a table that did not exist in this family before the flush: its number must be fresh
				if owner, ok := referenced[num]; ok {
					snap.Close()
					e.fatalf("image %s: table created after recovery reuses number %d still referenced by family %s", p, num, owner)
				}
				referenced[num] = n
			}
			snap.Close()
		}
	}
	for n, f := range recovered {
		if _, err := kv.VerifCompactSync(f, true); err != nil {
			e.fatalf("image %s: post-recovery compaction of %s failed: %v", p, n, err)
		}
		kv.VerifDeleteObsoleteFiles(f)
	}
	for n, f := range recovered {
		got, err := kvsim.ReadFamily(f, e.universe)
		if err != nil {
			e.fatalf("image %s: family %s unreadable after post-recovery work: %v", p, n, err)
		}
		if !expect[n].Equal(got) {
			e.fatalf("image %s: family %s lost/changed content after post-recovery flush+compaction:%s", p, n, kvsim.Diff(expect[n], got))
		}
	}
}

// crashCheck recovers images of the history so far.
func (e *env) crashCheck(final bool) {
	pts := e.im.Points
	if len(pts) == 0 {
		return
	}
	var chosen []int
	if e.thorough || len(pts) <= 10 {
		for i := range pts {
			chosen = append(chosen, i)
		}
	} else {
		// quick tier: a generated sample of the pending images
		n := 10
		seen := map[int]bool{}
		for len(chosen) < n {
			i := rapid.IntRange(0, len(pts)-1).Draw(e.t, "image")
			if !seen[i] {
				seen[i] = true
				chosen = append(chosen, i)
			}
		}
		sort.Ints(chosen)
	}
	deepEvery := 3
	for j, i := range chosen {
		p := pts[i]
		if p.Dir == "" {
			continue
		}
		e.recoverImage(p, e.thorough || j%deepEvery == 0)
		e.imagesChecked++
		inside := insideCommit(p)
		if inside {
			e.insideCommit++
			e.ntHashes = append(e.ntHashes, p.String())
		}
		e.classes["img-"+p.OpName]++
		e.classes["fsop-"+p.FSOp]++
		// close the recovered store right away to bound open files / mmaps
		_ = kv.GetStoreManager().CloseStore(p.Dir)
	}
	e.opened = nil
	e.im.Drop()
}

// insideCommit: the image lies strictly inside an operation (not before its first nor after
// its last file-system operation is irrelevant here: every hook invocation while an operation is
// active is between two FS operations of it or at its edges; edges are trivial).
func insideCommit(p crash.Point) bool {
	switch p.FSOp {
	case "listDir":
		return false
	}
	return true
}

func jsonString(v any) (string, error) {
	var sb strings.Builder
	sb.WriteString(fmt.Sprintf("%+v", v))
	return sb.String(), nil
}

// ---- property --------------------------------------------------------------------------------

func runHistory(t *rapid.T, thorough bool) {
	kvsim.Register()
	dir, err := os.MkdirTemp("", "c01-")
	if err != nil {
		t.Fatalf("harness: %v", err)
	}
	e := &env{
		t: t, dir: dir, storePath: filepath.Join(dir, "store"),
		fams: map[string]kv.Family{}, cur: model{}, classes: map[string]int{}, thorough: thorough,
		universe: keyUniverse,
	}
	e.opt = kv.StoreOption{Levels: rapid.IntRange(2, 3).Draw(t, "levels"), TTL: ltoml.Duration(time.Hour)}
	e.famOpt = kv.FamilyOption{
		Merger:           kvsim.MergerName,
		CompactThreshold: rapid.SampledFrom([]int{0, 1, 2, 3}).Draw(t, "compactThreshold"),
		MaxFileSize:      rapid.SampledFrom([]uint32{0, 8, 24, 64, 1 << 20}).Draw(t, "maxFileSize"),
	}
	e.im = &crash.Imager{Root: e.storePath, OutDir: filepath.Join(dir, "img")}
	kv.VerifSetFSHook(e.im.Hook)
	version.VerifSetFSHook(version.VerifFSHook(e.im.Hook))
	table.VerifSetFSHook(table.VerifFSHook(e.im.Hook))
	defer func() {
		kv.VerifSetFSHook(nil)
		version.VerifSetFSHook(nil)
		table.VerifSetFSHook(nil)
		e.im.Active = false
		for _, d := range e.opened {
			_ = kv.GetStoreManager().CloseStore(d)
		}
		_ = kv.GetStoreManager().CloseStore(e.storePath)
		_ = os.RemoveAll(dir)
	}()

	// opening a new store is the first history operation
	e.begin("createStore", "", "")
	e.openStore()
	e.end()
	e.opCreateFamily()

	t.Repeat(map[string]func(*rapid.T){
		"createFamily": func(t *rapid.T) { e.t = t; e.opCreateFamily() },
		"flush":        func(t *rapid.T) { e.t = t; e.opFlush() },
		"flush2":       func(t *rapid.T) { e.t = t; e.opFlush() },
		"compact":      func(t *rapid.T) { e.t = t; e.opCompact() },
		"cleanup":      func(t *rapid.T) { e.t = t; e.opCleanup() },
		"reopen":       func(t *rapid.T) { e.t = t; e.opReopen() },
		"crash": func(t *rapid.T) {
			e.t = t
			if len(e.im.Points) == 0 {
				t.Skip("no pending images")
			}
			e.crashCheck(false)
		},
		"": func(t *rapid.T) { e.t = t; e.checkLive() },
	})
	e.t = t
	e.crashCheck(true)
	e.checkLive()

	canon := fmt.Sprintf("%+v|%+v|%+v", e.opt.Levels, e.famOpt, e.ops)
	classes := []string{}
	for c, n := range e.classes {
		ev.Class("TestCrashRecovery", c, n)
	}
	nt := e.insideCommit > 0
	ev.Case("TestCrashRecovery", canon, nt, classes, map[string]any{
		"levels": e.opt.Levels, "compactThreshold": e.famOpt.CompactThreshold, "maxFileSize": e.famOpt.MaxFileSize,
		"history": e.ops, "images_recovered": e.imagesChecked, "images_inside_commit": e.insideCommit,
	})
	// every recovered image inside a commit is a distinct non-trivial crash point of this history
	for _, h := range e.ntHashes {
		ev.Case("crash-points", canon+"|"+h, true, nil, nil)
	}
}

func TestCrashRecovery(t *testing.T) {
	thorough := os.Getenv("VERIF_TIER") == "thorough"
	rapid.Check(t, func(t *rapid.T) { runHistory(t, thorough) })
}
