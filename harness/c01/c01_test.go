// Package c01 checks property C01: a committed flush of the kv store is atomic and durable
// across a process crash, half-written files never become visible or prevent reopening, and
// file numbers of referenced files are never reused after recovery.
//
// History operations: createFamily, flush (writer opened and committed in one step), openWriter /
// commitWriter (a writer that stays unfinished over later operations: several flushers and
// compaction outputs of one store coexist in production), compact, deleteObsolete + cache cleanup,
// storeCompact (one tick of the periodic store housekeeping, kv.JobScheduler -> Store.compact),
// reopen, crash (recover images of the operations so far).
// Harness-owned interleavings: (1) "window": while a flusher commit is at a manifest write/sync
// seam (its table is closed, the version-set mutex is held, the next file number is already read,
// the new version is not installed yet) other jobs of the store run, drawn from a menu: a helper
// goroutine opens 1-3 further writers on families of the store; obsolete-file passes of a family
// (the committing one or another) and reader-cache cleanups run right at the seam (they need no
// version-set lock); a real level-0 compaction job of a family that was started before the commit
// and is parked at a seam of its own - at its trailing obsolete-file pass (resumed at the commit's
// seam or after the commit) or at the tableCreate seam of its first output (resumed after the
// commit: its own commit needs the version-set mutex); (2) an obsolete-file pass of the family at
// the tableCreate seam of a writer.
// Oracles: reference model (live store after every operation, every recovered image = state
// before or after the operation in flight, life after recovery), at the tableCreate seam: no
// table is created under a number that a referenced table or an unfinished writer still holds, and
// after every operation: every table referenced by the current version of a family is a file of
// the family directory.
package c01

import (
	"fmt"
	"os"
	"path/filepath"
	"sort"
	"strconv"
	"strings"
	"sync"
	"sync/atomic"
	"testing"
	"time"

	"github.com/lindb/common/pkg/ltoml"
	"pgregory.net/rapid"

	"github.com/lindb/lindb/kv"
	"github.com/lindb/lindb/kv/table"
	"github.com/lindb/lindb/kv/version"
	"github.com/lindb/lindb/verifharness/sim/crash"
	"github.com/lindb/lindb/verifharness/sim/ev"
	"github.com/lindb/lindb/verifharness/sim/kvsim"
)

func TestMain(m *testing.M) { ev.Main(m) }

// ---- model -----------------------------------------------------------------------------------

type famModel struct {
	content kvsim.Content
	seqs    map[int32]int64
}

func (f *famModel) clone() *famModel {
	s := map[int32]int64{}
	for k, v := range f.seqs {
		s[k] = v
	}
	return &famModel{content: f.content.Clone(), seqs: s}
}

type model map[string]*famModel

func (m model) clone() model {
	out := model{}
	for k, v := range m {
		out[k] = v.clone()
	}
	return out
}

type opRec struct {
	Name   string `json:"op"`
	Family string `json:"family,omitempty"`
	Detail string `json:"detail,omitempty"`
}

// ---- case state ------------------------------------------------------------------------------

type env struct {
	t         *rapid.T
	dir       string
	storePath string
	opt       kv.StoreOption
	famOpt    kv.FamilyOption
	store     kv.Store
	fams      map[string]kv.Family
	famNames  []string
	im        *crash.Imager
	states    []model // states[i] = committed model before history operation i
	cur       model
	ops       []opRec
	universe  []uint32
	atom      uint32
	opened    []string // stores opened on images (closed at the end)
	thorough  bool

	imagesChecked   int
	insideCommit    int
	ntHashes        []string
	classes         map[string]int
	recoveredStores int

	// unfinished writers (flushers with data added, not yet committed), oldest first
	pending   []*writer
	writerSeq int
	pendingAt []int // per history operation: number of unfinished writers when it began

	// harness-owned interleaving inside a commit (see windowPlan)
	plan      *windowPlan              // armed for the commit in flight (main goroutine only)
	lastPlan  *windowPlan              // for cleanup
	window    atomic.Bool              // a helper goroutine is opening writers: its table seams take no image
	trail     atomic.Pointer[trailJob] // compaction job running next to the commit in flight
	lastTrail *trailJob                // for cleanup
	hmu       sync.Mutex               // serialises the imager (store housekeeping runs a background job)

	// file numbers seen at the tableCreate seam during the operation in flight
	tracking    atomic.Bool
	cmu         sync.Mutex
	created     []createRec
	liveAtBegin map[int64]string // number -> who holds it (referenced table / unfinished writer)

	nestAtCreate     bool // armed: run an obsolete-file pass at the next tableCreate seam of the main goroutine
	phase            int  // quick tier: which residue of the point number gets an image
	commitsInSession int  // successful non-empty commits since the store was (re)opened
	multiWindow      bool // this session had a window in which >= 2 writers were opened
	histLabels       map[string]bool

	ps passState // operations of other actors nested at the seams of an obsolete-file pass (passnest_test.go)
}

// writer is an unfinished writer of the history.
type writer struct {
	id       int
	fam      string
	fl       kv.Flusher
	keys     []uint32
	atom     uint32
	num      int64 // file number of its table as seen at the tableCreate seam (-1: unknown)
	released bool
}

type writerSpec struct {
	id    int
	fam   string
	keys  []uint32
	modes []bool // per key: stream writer instead of Add
	atom  uint32
}

func (s writerSpec) String() string {
	return fmt.Sprintf("w%d@%s keys=%v atom=%d", s.id, s.fam, s.keys, s.atom)
}

// windowPlan: while the commit of the operation in flight is at the given manifest seam (i.e.
// between reading the next file number it logs and applying its edit log), a helper goroutine
// opens further writers on families of the same store, as concurrent flush / compaction-output
// goroutines do in production. The commit holds the version-set mutex at these seams, so the
// helper must be a goroutine of its own; the main goroutine waits for it at the seam for at most
// windowWait and in any case right after the commit returned, before anything else happens.
type windowPlan struct {
	seamOp string
	before bool
	specs  []writerSpec
	// jobs that run on the main goroutine right at the seam (they take no version-set lock): before
	// the helper goroutine gets its time (late=false) or after it (late=true, the helper is then
	// still waiting for the version-set mutex on the unchanged tree)
	nested []nestedOp
	// a compaction job of a family started before the commit and parked at a seam of its own
	trail    *trailJob
	hasTable bool // the commit in flight brings a new table

	fired  bool
	inside bool // the helper finished while the commit was still at the seam
	done   chan struct{}
	opened []*writer
	err    error
}

func (p *windowPlan) String() string {
	if p == nil {
		return "-"
	}
	ph := "after"
	if p.before {
		ph = "before"
	}
	return fmt.Sprintf("%s/%s%v nested=%v job=%s", p.seamOp, ph, p.specs, p.nested, p.trail)
}

// nestedOp is a job of another goroutine of the store that needs no version-set lock and therefore
// really runs while a commit sits at its manifest seam.
type nestedOp struct {
	kind string // "deleteObsolete" (family.deleteObsoleteFiles), "cacheCleanup" (reader cache), "jobCleanup" (resume the parked compaction job: its trailing obsolete-file pass)
	fam  string
	late bool
}

func (n nestedOp) String() string {
	if n.late {
		return n.kind + "(" + n.fam + ",late)"
	}
	return n.kind + "(" + n.fam + ")"
}

// trailJob is a production level-0 compaction job (Family.compact / kv.JobScheduler) of a family
// that runs on a goroutine of its own next to a flusher commit. To own the schedule the harness
// starts it right before Flusher.Commit and lets it run alone until it reaches the park point;
// the main goroutine then runs the commit and resumes the job either at the manifest seam of the
// commit (only the trailing obsolete-file pass, which takes no version-set lock) or right after
// the commit returned. At any instant only one of the two goroutines runs.
type trailJob struct {
	fam        string
	force      bool
	parkOp     string // "listDir": the trailing obsolete-file pass of the job; "tableCreate": its first output table
	parkBefore bool
	atSeam     bool // resume at the commit's seam (listDir only), else after the commit returned

	armed    atomic.Bool
	parked   chan struct{}
	resume   chan struct{}
	done     chan struct{}
	isParked bool
	resumed  bool
	inWindow bool // resumed while the commit was at its seam
	ran      bool
	err      error
}

func (j *trailJob) String() string {
	if j == nil {
		return "-"
	}
	ph, at := "after", "afterCommit"
	if j.parkBefore {
		ph = "before"
	}
	if j.atSeam {
		at = "atSeam"
	}
	return fmt.Sprintf("compact(%s,force=%v) parked %s %s resumed %s", j.fam, j.force, ph, j.parkOp, at)
}

type createRec struct {
	fam string
	num int64
}

const (
	maxPending  = 4
	windowWait  = 30 * time.Millisecond
	imageStride = 3
)

var keyUniverse = []uint32{0, 1, 2, 3, 4, 5, 6, 7, 8, 9, 10, 11, 12, 13, 14, 15, 16, 17, 18, 19, 20, 21, 22, 23, 24,
	100, 101, 4095, 4096, 65534, 65535, 65536, 65537, 131071, 131072, 1 << 24, 1<<31 - 1, 1 << 31, 1<<32 - 2, 1<<32 - 1}

func (e *env) fatalf(format string, args ...any) {
	e.t.Helper()
	hist, _ := jsonString(e.ops)
	e.t.Fatalf(format+"\nhistory: %s", append(args, hist)...)
}

func (e *env) openStore() {
	s, err := kv.GetStoreManager().CreateStore(e.storePath, e.opt)
	if err != nil {
		e.fatalf("open store: %v", err)
	}
	e.store = s
	e.fams = map[string]kv.Family{}
	for _, n := range e.famNames {
		f := s.GetFamily(n)
		if f == nil {
			e.fatalf("family %s missing after (re)open", n)
		}
		e.fams[n] = f
	}
}

func (e *env) closeStore() {
	if e.store != nil {
		if err := kv.GetStoreManager().CloseStore(e.storePath); err != nil {
			e.fatalf("close store: %v", err)
		}
		e.store = nil
	}
}

// begin/end frame one history operation; states gets the committed model before the operation.
func (e *env) begin(name, family, detail string) {
	e.states = append(e.states, e.cur.clone())
	e.ops = append(e.ops, opRec{Name: name, Family: family, Detail: detail})
	e.pendingAt = append(e.pendingAt, len(e.pending))
	// who holds which file number right now: tables referenced by the current version of any
	// family of the store and tables of unfinished writers
	e.liveAtBegin = map[int64]string{}
	if e.store != nil {
		for _, n := range e.famNames {
			f, ok := e.fams[n]
			if !ok {
				continue
			}
			snap := f.GetSnapshot()
			for _, fm := range snap.GetCurrent().GetAllFiles() {
				e.liveAtBegin[fm.GetFileNumber().Int64()] = "a table referenced by family " + n
			}
			for fn := range snap.GetCurrent().GetRollupFiles() {
				e.liveAtBegin[fn.Int64()] = "a rollup file referenced by family " + n
			}
			snap.Close()
		}
	}
	for _, w := range e.pending {
		if w.num >= 0 {
			e.liveAtBegin[w.num] = fmt.Sprintf("the table of unfinished writer w%d of family %s", w.id, w.fam)
		}
	}
	e.cmu.Lock()
	e.created = e.created[:0]
	e.cmu.Unlock()
	e.tracking.Store(true)
	if !e.thorough {
		// quick tier: an image is taken at every third file-system point, the phase is generated per operation
		e.phase = rapid.IntRange(0, imageStride-1).Draw(e.t, "imagePhase")
	}
	e.im.Begin(len(e.ops)-1, name)
}

func (e *env) end() {
	e.im.End()
	e.tracking.Store(false)
	// A table must never be created under a number that a committed table or an unfinished writer
	// of the store still holds: creating the file truncates / shadows the other one, so a flush
	// whose commit returned (or will return) success would be lost.
	e.cmu.Lock()
	created := append([]createRec(nil), e.created...)
	e.cmu.Unlock()
	for _, c := range created {
		if owner, ok := e.liveAtBegin[c.num]; ok {
			e.fatalf("operation %d (%s): a new table %s/%06d.sst is created under file number %d, which is still held by %s",
				len(e.ops)-1, e.ops[len(e.ops)-1].Name, c.fam, c.num, c.num, owner)
		}
		e.liveAtBegin[c.num] = fmt.Sprintf("a table created earlier in the same operation (family %s)", c.fam)
		if e.multiWindow {
			e.classes["alloc-after-window>=2"]++
			e.histLabels["hist-window>=2-then-alloc"] = true
		}
	}
}

// hook is installed at every file-system seam of kv, kv/version and kv/table.
func (e *env) hook(op, path string, before bool) {
	if op == "tableCreate" && before && e.tracking.Load() {
		e.noteCreate(path)
	}
	if e.window.Load() && strings.HasPrefix(op, "table") {
		return // helper goroutine of a window: no image, the imager belongs to the main goroutine
	}
	e.hmu.Lock()
	e.im.Hook(op, path, before)
	e.hmu.Unlock()
	if e.ps.plan != nil {
		// an obsolete-file pass of this operation runs on the main goroutine (no kv lock is held at its
		// listDir / removeDir seams): operations of other actors complete right here
		e.passSeam(op, path, before)
	}
	if e.nestAtCreate && op == "tableCreate" && !before {
		// the writer of the operation in flight has just created its table file (no kv lock is held
		// here): another job of the family runs its obsolete-file pass right now, as the trailing
		// cleanup of a compaction / rollup job does in production. The new table must survive.
		e.nestAtCreate = false
		if f, ok := e.fams[filepath.Base(filepath.Dir(path))]; ok {
			kv.VerifDeleteObsoleteFiles(f)
			e.classes["deleteObsolete-nested-at-tableCreate"]++
		}
	}
	if j := e.trail.Load(); j != nil && j.armed.Load() && op == j.parkOp && before == j.parkBefore && seamFamily(op, path) == j.fam {
		// only the job's goroutine runs while the job is armed (the main goroutine waits in startTrail)
		if j.armed.CompareAndSwap(true, false) {
			close(j.parked)
			<-j.resume
		}
		return
	}
	if p := e.plan; p != nil && !p.fired && op == p.seamOp && before == p.before {
		e.fireWindow(p)
	}
}

// seamFamily: the family directory a listDir / table seam works on.
func seamFamily(op, path string) string {
	if op == "listDir" {
		return filepath.Base(path)
	}
	return filepath.Base(filepath.Dir(path))
}

func (e *env) noteCreate(path string) {
	base := strings.TrimSuffix(filepath.Base(path), ".sst")
	num, err := strconv.ParseInt(base, 10, 64)
	if err != nil {
		return
	}
	e.cmu.Lock()
	e.created = append(e.created, createRec{fam: filepath.Base(filepath.Dir(path)), num: num})
	e.cmu.Unlock()
}

func (e *env) fireWindow(p *windowPlan) {
	p.fired = true
	e.runNested(p, false)
	if len(p.specs) > 0 {
		p.done = make(chan struct{})
		e.window.Store(true)
		started := make(chan struct{})
		go func() {
			defer close(p.done)
			close(started)
			for _, s := range p.specs {
				w, err := e.openWriterRaw(s)
				if w != nil {
					p.opened = append(p.opened, w)
				}
				if err != nil {
					p.err = err
					return
				}
			}
		}()
		<-started // the wait below does not include the time the scheduler needs to start the helper
		timer := time.NewTimer(windowWait)
		select {
		case <-p.done:
			p.inside = true
		case <-timer.C:
		}
		timer.Stop()
	}
	e.runNested(p, true)
}

// runNested runs the lock-free jobs of the window on the main goroutine, which sits inside the
// manifest seam of the commit in flight.
func (e *env) runNested(p *windowPlan, late bool) {
	for _, n := range p.nested {
		if n.late != late {
			continue
		}
		switch n.kind {
		case "cacheCleanup":
			kv.VerifCacheCleanup(e.store)
			e.classes["window-nested-cacheCleanup"]++
			continue
		case "jobCleanup":
			if j := p.trail; j != nil && j.isParked && !j.resumed {
				// the compaction job goes on with its trailing obsolete-file pass and returns
				j.inWindow = true
				e.resumeTrail(j)
				e.classes["window-job-cleanup-inside-commit"]++
				e.noteCleanupInWindow(p, n.fam, "job-cleanup")
				continue
			}
			// the guard of the job said "nothing to compact" (or the job is done): the bare pass instead
			e.classes["window-job-cleanup-replaced-by-bare-pass"]++
		}
		if f, ok := e.fams[n.fam]; ok {
			kv.VerifDeleteObsoleteFiles(f)
			e.classes["window-nested-deleteObsolete"]++
			e.noteCleanupInWindow(p, n.fam, "deleteObsolete")
		}
	}
}

func (e *env) noteCleanupInWindow(p *windowPlan, fam, what string) {
	e.histLabels["hist-obsolete-pass-inside-commit-window"] = true
	if fam != e.ops[len(e.ops)-1].Family {
		e.classes["window-"+what+"-other-family"]++
		return
	}
	e.classes["window-"+what+"-same-family"]++
	if p.hasTable {
		// the neighbourhood of seeded C01f: table closed, record being logged, version not installed
		e.classes["window-"+what+"-same-family-commit-has-new-table"]++
		e.histLabels["hist-obsolete-pass-of-committing-family-inside-window"] = true
	}
}

// startTrail starts the compaction job of the plan and returns when it is parked or done.
func (e *env) startTrail(j *trailJob) {
	j.parked, j.resume, j.done = make(chan struct{}), make(chan struct{}), make(chan struct{})
	j.armed.Store(true)
	e.lastTrail = j
	e.trail.Store(j)
	f := e.fams[j.fam]
	go func() {
		defer close(j.done)
		j.ran, j.err = kv.VerifCompactSync(f, j.force)
	}()
	select {
	case <-j.parked:
		j.isParked = true
	case <-j.done:
		j.armed.Store(false)
	}
}

func (e *env) resumeTrail(j *trailJob) {
	if j.isParked && !j.resumed {
		j.resumed = true
		close(j.resume)
	}
	<-j.done
}

// finishTrail: the job has returned before the history goes on.
func (e *env) finishTrail(j *trailJob) {
	if j == nil || j.done == nil {
		return
	}
	e.resumeTrail(j)
	e.trail.Store(nil)
	e.classes["window-job-planned"]++
	if j.ran {
		e.classes["window-job-compaction-ran"]++
		e.commitsInSession++
	} else {
		e.classes["window-job-nothing-to-compact"]++
	}
	if !j.isParked {
		if j.ran {
			e.classes["window-job-finished-before-commit(no "+j.parkOp+" seam)"]++
		}
		return
	}
	e.classes["window-job-parked@"+j.parkOp]++
	switch {
	case j.inWindow:
		e.classes["window-job-resumed-inside-commit"]++
		e.histLabels["hist-compaction-cleanup-inside-commit-window"] = true
	case j.parkOp == "tableCreate":
		e.classes["window-job-compaction-commits-after-flush-commit"]++
		e.histLabels["hist-compaction-across-flush-commit"] = true
	default:
		e.classes["window-job-resumed-after-commit"]++
	}
}

// finishWindow is called right after the commit returned: the writers of the window are all open
// before the history goes on.
func (e *env) finishWindow(p *windowPlan) {
	e.plan = nil
	if p == nil {
		return
	}
	defer e.finishTrail(p.trail)
	e.classes["window-planned"]++
	if !p.fired {
		e.classes["window-not-reached(empty edit log)"]++
		return
	}
	e.classes["window-fired"]++
	e.classes["window-fired@"+p.seamOp]++
	if p.done == nil {
		e.classes["window-fired-without-writers"]++
		return
	}
	<-p.done
	e.window.Store(false)
	e.pending = append(e.pending, p.opened...)
	e.classes["window-fired-with-writers"]++
	e.classes["window-writers-opened"] += len(p.opened)
	if len(p.opened) >= 2 {
		e.classes["window-fired-writers>=2"]++
		e.multiWindow = true
		e.histLabels["hist-window>=2"] = true
	}
	if p.inside {
		e.classes["window-writers-opened-during-commit"]++
	} else {
		e.classes["window-writers-waited-for-commit"]++
	}
}

// ---- operations ------------------------------------------------------------------------------

func (e *env) opCreateFamily() {
	if len(e.famNames) >= 3 {
		e.t.Skip("enough families")
	}
	name := fmt.Sprintf("f%d", len(e.famNames))
	e.begin("createFamily", name, "")
	f, err := e.store.CreateFamily(name, e.famOpt)
	e.end()
	if err != nil {
		e.fatalf("create family: %v", err)
	}
	e.famNames = append(e.famNames, name)
	e.fams[name] = f
	e.cur[name] = &famModel{content: kvsim.Content{}, seqs: map[int32]int64{}}
}

func (e *env) pickFamily() string {
	if len(e.famNames) == 0 {
		e.t.Skip("no family")
	}
	return rapid.SampledFrom(e.famNames).Draw(e.t, "family")
}

func (e *env) drawKeys(min, max int) ([]uint32, []bool) {
	nKeys := rapid.IntRange(min, max).Draw(e.t, "nKeys")
	keySet := map[uint32]bool{}
	for i := 0; i < nKeys; i++ {
		keySet[rapid.SampledFrom(e.universe).Draw(e.t, "key")] = true
	}
	keys := make([]uint32, 0, len(keySet))
	for k := range keySet {
		keys = append(keys, k)
	}
	sort.Slice(keys, func(i, j int) bool { return keys[i] < keys[j] })
	modes := make([]bool, len(keys))
	for i := range keys {
		modes[i] = rapid.Bool().Draw(e.t, "stream")
	}
	return keys, modes
}

func (e *env) drawSpec() writerSpec {
	fam := e.pickFamily()
	keys, modes := e.drawKeys(1, 6)
	e.atom++
	e.writerSeq++
	return writerSpec{id: e.writerSeq, fam: fam, keys: keys, modes: modes, atom: e.atom}
}

// drawWindow decides whether (and where) other jobs of the store run inside the next commit, and which.
// fam is the family of the commit, hasTable says whether the commit brings a new table, room is the
// number of writers that may still be opened.
func (e *env) drawWindow(room int, fam string, hasTable bool) *windowPlan {
	if rapid.IntRange(0, 2).Draw(e.t, "window") != 0 {
		return nil
	}
	seam := rapid.IntRange(0, 3).Draw(e.t, "windowSeam")
	p := &windowPlan{seamOp: []string{"manifestWrite", "manifestSync"}[seam/2], before: seam%2 == 0, hasTable: hasTable}
	n := rapid.SampledFrom([]int{0, 1, 2, 2, 3}).Draw(e.t, "windowWriters")
	if n > room {
		n = room
	}
	if n < 0 {
		n = 0
	}
	for i := 0; i < n; i++ {
		p.specs = append(p.specs, e.drawSpec())
	}
	// families of the jobs: the committing family is the interesting one
	pool := append([]string{fam, fam}, e.famNames...)
	nNested := rapid.SampledFrom([]int{0, 1, 1, 2}).Draw(e.t, "windowNested")
	for i := 0; i < nNested; i++ {
		kind := rapid.SampledFrom([]string{"deleteObsolete", "deleteObsolete", "deleteObsolete", "cacheCleanup"}).Draw(e.t, "nestedKind")
		nf := rapid.SampledFrom(pool).Draw(e.t, "nestedFamily")
		if kind == "cacheCleanup" {
			nf = ""
		}
		p.nested = append(p.nested, nestedOp{kind: kind, fam: nf, late: rapid.Bool().Draw(e.t, "nestedLate")})
	}
	// families whose level 0 holds >= 2 tables: the guard of Family.Compact lets a job start
	var busy []string
	for _, n := range e.famNames {
		snap := e.fams[n].GetSnapshot()
		if snap.GetCurrent().NumberOfFilesInLevel(0) >= 2 {
			busy = append(busy, n)
			if n == fam {
				busy = append(busy, n)
			}
		}
		snap.Close()
	}
	jobOdds := 2 // 1 in 3
	if len(busy) > 0 {
		jobOdds = 1 // 1 in 2
	}
	if rapid.IntRange(0, jobOdds).Draw(e.t, "windowJob") == 0 {
		j := &trailJob{fam: rapid.SampledFrom(pool).Draw(e.t, "jobFamily"), force: rapid.Bool().Draw(e.t, "jobForce")}
		if len(busy) > 0 && rapid.IntRange(0, 3).Draw(e.t, "jobBusyFamily") != 0 {
			j.fam, j.force = rapid.SampledFrom(busy).Draw(e.t, "jobFamily"), true
		}
		switch rapid.IntRange(0, 6).Draw(e.t, "jobPark") {
		case 0:
			j.parkOp, j.parkBefore, j.atSeam = "listDir", true, true
		case 1, 2:
			j.parkOp, j.parkBefore, j.atSeam = "listDir", false, true
		case 3:
			j.parkOp, j.parkBefore = "listDir", rapid.Bool().Draw(e.t, "jobParkBefore")
		default:
			j.parkOp, j.parkBefore = "tableCreate", rapid.Bool().Draw(e.t, "jobParkBefore")
		}
		p.trail = j
		if j.atSeam {
			p.nested = append(p.nested, nestedOp{kind: "jobCleanup", fam: j.fam, late: rapid.Bool().Draw(e.t, "nestedLate")})
		}
	}
	if len(p.specs) == 0 && len(p.nested) == 0 && p.trail == nil {
		p.nested = append(p.nested, nestedOp{kind: "deleteObsolete", fam: fam})
	}
	return p
}

func addKeys(fl kv.Flusher, keys []uint32, modes []bool, atom uint32) error {
	val := kvsim.Encode(map[uint32]bool{atom: true})
	for i, k := range keys {
		if modes[i] {
			sw, err := fl.StreamWriter()
			if err != nil {
				return err
			}
			sw.Prepare(k)
			if _, err = sw.Write(val[:2]); err != nil {
				return err
			}
			if _, err = sw.Write(val[2:]); err != nil {
				return err
			}
			if err = sw.Commit(); err != nil {
				return err
			}
		} else if err := fl.Add(k, val); err != nil {
			return err
		}
	}
	return nil
}

// openWriterRaw creates a flusher and adds the data (the first key creates the table file and
// thereby takes a file number). It may run on the helper goroutine of a window: it touches no
// harness state except the seam record of created tables.
func (e *env) openWriterRaw(s writerSpec) (*writer, error) {
	f := e.fams[s.fam]
	e.cmu.Lock()
	n0 := len(e.created)
	e.cmu.Unlock()
	w := &writer{id: s.id, fam: s.fam, fl: f.NewFlusher(), keys: s.keys, atom: s.atom, num: -1}
	if err := addKeys(w.fl, s.keys, s.modes, s.atom); err != nil {
		return w, fmt.Errorf("writer %s: %w", s, err)
	}
	e.cmu.Lock()
	if len(e.created) == n0+1 {
		w.num = e.created[n0].num
	}
	e.cmu.Unlock()
	return w, nil
}

// commitTail runs a flusher commit with an optional window inside it.
func (e *env) commitTail(fl kv.Flusher, plan *windowPlan) error {
	if plan != nil && plan.trail != nil {
		// the compaction job runs (alone) up to its park point; the seam of the plan only belongs to
		// the flusher commit, so the plan is armed afterwards
		e.startTrail(plan.trail)
	}
	e.plan, e.lastPlan = plan, plan
	err := fl.Commit()
	e.finishWindow(plan)
	fl.Release()
	return err
}

func (e *env) windowError(plan *windowPlan) {
	if plan != nil && plan.err != nil {
		e.fatalf("opening a writer concurrently with a commit failed: %v", plan.err)
	}
	if plan != nil && plan.trail != nil && plan.trail.err != nil {
		e.fatalf("compaction of family %s running next to a flusher commit failed: %v", plan.trail.fam, plan.trail.err)
	}
}

func (e *env) opFlush() {
	name := e.pickFamily()
	f := e.fams[name]
	var keys []uint32
	var modes []bool
	switch rapid.IntRange(0, 9).Draw(e.t, "flushKind") {
	case 0: // empty flush
	default:
		keys, modes = e.drawKeys(1, 12)
	}
	useSeq := rapid.IntRange(0, 2).Draw(e.t, "useSeq") == 0
	var leader int32
	var seq int64
	if useSeq {
		leader = int32(rapid.IntRange(1, 2).Draw(e.t, "leader"))
		seq = e.cur[name].seqs[leader] + int64(rapid.IntRange(1, 5).Draw(e.t, "seqDelta"))
	}
	if len(keys) == 0 && !useSeq {
		// an entirely empty edit log is legal (commit returns true), keep it as a rare class
		e.classes["flush-empty-log"]++
	}
	e.atom++
	atom := e.atom
	plan := e.drawWindow(maxPending-len(e.pending), name, len(keys) > 0)
	nest := len(keys) > 0 && rapid.IntRange(0, 3).Draw(e.t, "cleanupAtTableCreate") == 0
	e.begin("flush", name, fmt.Sprintf("keys=%v atom=%d seq=%v/%d:%d window=%s nestedCleanup=%v", keys, atom, useSeq, leader, seq, plan, nest))
	fl := f.NewFlusher()
	e.nestAtCreate = nest
	err := addKeys(fl, keys, modes, atom)
	e.nestAtCreate = false
	if err == nil {
		if useSeq {
			fl.Sequence(leader, seq)
		}
		err = e.commitTail(fl, plan)
	} else {
		fl.Release()
	}
	e.end()
	if err != nil {
		e.fatalf("flush of family %s failed: %v", name, err)
	}
	e.windowError(plan)
	// commit returned success: the model moves
	for _, k := range keys {
		e.cur[name].content.AddAtom(k, atom)
	}
	if useSeq {
		e.cur[name].seqs[leader] = seq
	}
	if len(keys) > 0 || useSeq {
		e.commitsInSession++
	}
	e.classes["flush"]++
}

// opOpenWriter starts a writer and leaves it unfinished: its table exists (partly in user-space
// buffers), no record of it is in the manifest, its number is a pending output of the family.
func (e *env) opOpenWriter() {
	if len(e.pending) >= maxPending {
		e.t.Skip("enough unfinished writers")
	}
	s := e.drawSpec()
	nest := rapid.IntRange(0, 3).Draw(e.t, "cleanupAtTableCreate") == 0
	e.begin("openWriter", s.fam, fmt.Sprintf("%s nestedCleanup=%v", s, nest))
	e.nestAtCreate = nest
	w, err := e.openWriterRaw(s)
	e.nestAtCreate = false
	if w != nil {
		e.pending = append(e.pending, w) // before end(): whatever fails, the cleanup releases the flusher
	}
	e.end()
	if err != nil {
		e.fatalf("open writer: %v", err)
	}
	e.classes["op-openWriter"]++
	e.histLabels["hist-unfinished-writer"] = true
}

// commitWriter commits the idx-th unfinished writer.
func (e *env) commitWriter(idx int, useSeq bool, leader int32, seqDelta int64, plan *windowPlan) {
	w := e.pending[idx]
	var seq int64
	if useSeq {
		// the sequence is handed to the flusher right before the commit, as the callers do
		seq = e.cur[w.fam].seqs[leader] + seqDelta
	}
	e.begin("commitWriter", w.fam, fmt.Sprintf("w%d keys=%v atom=%d seq=%v/%d:%d window=%s", w.id, w.keys, w.atom, useSeq, leader, seq, plan))
	if useSeq {
		w.fl.Sequence(leader, seq)
	}
	e.pending = append(e.pending[:idx:idx], e.pending[idx+1:]...)
	w.released = true
	err := e.commitTail(w.fl, plan)
	e.end()
	if err != nil {
		e.fatalf("commit of writer w%d of family %s failed: %v", w.id, w.fam, err)
	}
	e.windowError(plan)
	for _, k := range w.keys {
		e.cur[w.fam].content.AddAtom(k, w.atom)
	}
	if useSeq {
		e.cur[w.fam].seqs[leader] = seq
	}
	e.commitsInSession++
	e.classes["op-commitWriter"]++
}

func (e *env) opCommitWriter() {
	if len(e.pending) == 0 {
		e.t.Skip("no unfinished writer")
	}
	idx := rapid.IntRange(0, len(e.pending)-1).Draw(e.t, "writer")
	if idx != 0 {
		e.classes["commitWriter-out-of-open-order"]++
	}
	useSeq := rapid.IntRange(0, 2).Draw(e.t, "useSeq") == 0
	var leader int32
	var delta int64
	if useSeq {
		leader = int32(rapid.IntRange(1, 2).Draw(e.t, "leader"))
		delta = int64(rapid.IntRange(1, 5).Draw(e.t, "seqDelta"))
	}
	plan := e.drawWindow(maxPending-(len(e.pending)-1), e.pending[idx].fam, true)
	e.commitWriter(idx, useSeq, leader, delta, plan)
}

// drainPending commits every unfinished writer (a store is only closed when its flushers are done).
func (e *env) drainPending() {
	for len(e.pending) > 0 {
		e.commitWriter(0, false, 0, 0, nil)
		e.classes["commitWriter-before-close"]++
	}
}

// opCompact and opCleanup (operations that run an obsolete-file pass on the main goroutine) live in
// passnest_test.go.

// opStoreCompact is one tick of the periodic store housekeeping (kv.JobScheduler -> Store.compact):
// every family that wants a compaction gets one, then the reader cache is cleaned. Production starts
// the family jobs as background goroutines; to keep the run a function of the seed at most one
// family (bg) is left to the background job and waited for, the others get the same job (same
// guard) on this goroutine right before the tick. With unfinished writers nothing is left to the
// background (waiting for a family also waits for its flushers).
func (e *env) opStoreCompact() {
	if len(e.famNames) == 0 {
		e.t.Skip("no family")
	}
	bg := ""
	if len(e.pending) == 0 && rapid.IntRange(0, 3).Draw(e.t, "background") != 0 {
		bg = rapid.SampledFrom(e.famNames).Draw(e.t, "bgFamily")
	}
	e.begin("storeCompact", "", "bg="+bg)
	var err error
	ranSync, l0 := 0, 0
	for _, n := range e.famNames {
		if n == bg {
			snap := e.fams[n].GetSnapshot()
			l0 = snap.GetCurrent().NumberOfFilesInLevel(0)
			snap.Close()
			continue
		}
		var ran bool
		if ran, err = kv.VerifCompactSync(e.fams[n], false); err != nil {
			break
		}
		if ran {
			ranSync++
		}
	}
	ranBg := false
	if err == nil {
		kv.VerifStoreCompact(e.store)
		if len(e.pending) == 0 {
			for _, n := range e.famNames {
				kv.VerifWaitIdle(e.fams[n])
			}
		}
		if bg != "" {
			snap := e.fams[bg].GetSnapshot()
			ranBg = l0 > 0 && snap.GetCurrent().NumberOfFilesInLevel(0) == 0
			snap.Close()
		}
	}
	e.end()
	if err != nil {
		e.fatalf("store housekeeping: compaction failed: %v", err)
	}
	e.classes["op-storeCompact"]++
	if ranSync > 0 || ranBg {
		e.classes["storeCompact-compaction-ran"]++
	}
	if ranBg {
		e.classes["storeCompact-background-compaction-ran"]++
	}
	if e.commitsInSession > 0 {
		e.classes["storeCompact-after-commit-in-session"]++
		e.histLabels["hist-storeCompact-after-commit-in-session"] = true
	} else {
		e.classes["storeCompact-before-first-commit-of-session"]++
	}
	if len(e.pending) > 0 {
		e.classes["storeCompact-with-unfinished-writers"]++
	}
	if ranSync > 0 || ranBg {
		e.commitsInSession++
	}
}

func (e *env) opReopen() {
	e.drainPending()
	e.begin("reopen", "", "")
	e.closeStore()
	e.openStore()
	e.end()
	e.commitsInSession, e.multiWindow = 0, false
	e.classes["reopen"]++
}

// ---- oracle ----------------------------------------------------------------------------------

func (e *env) checkLive() {
	for _, n := range e.famNames {
		// a table the current version references is the only copy of committed flushes: it is a file
		// of the family directory (checked first: the message names the file)
		snap0 := e.fams[n].GetSnapshot()
		var missing []string
		for _, fm := range snap0.GetCurrent().GetAllFiles() {
			name := filepath.Join(e.storePath, n, version.Table(fm.GetFileNumber()))
			if _, err := os.Stat(name); err != nil {
				missing = append(missing, fmt.Sprintf("%s/%s (%v)", n, version.Table(fm.GetFileNumber()), err))
			}
		}
		snap0.Close()
		if len(missing) > 0 {
			e.fatalf("live store, family %s: the current version references tables that are not in the family directory: %v", n, missing)
		}
		got, err := kvsim.ReadFamily(e.fams[n], e.universe)
		if err != nil {
			e.fatalf("live store, family %s: %v", n, err)
		}
		if !e.cur[n].content.Equal(got) {
			e.fatalf("live store, family %s differs from model:%s", n, kvsim.Diff(e.cur[n].content, got))
		}
		snap := e.fams[n].GetSnapshot()
		seqs := snap.GetCurrent().GetSequences()
		snap.Close()
		if !seqEqual(seqs, e.cur[n].seqs) {
			e.fatalf("live store, family %s: sequences %v, model %v", n, seqs, e.cur[n].seqs)
		}
	}
}

func seqEqual(a, b map[int32]int64) bool {
	if len(a) != len(b) {
		return false
	}
	for k, v := range a {
		if b[k] != v {
			return false
		}
	}
	return true
}

// matches reports whether the recovered family equals the model family.
func matches(fm *famModel, content kvsim.Content, seqs map[int32]int64) bool {
	return fm.content.Equal(content) && seqEqual(fm.seqs, seqs)
}

// recoverImage opens the image with the production open path and checks it against the two
// legal outcomes of the operation in flight; then it keeps working on the recovered store.
func (e *env) recoverImage(p crash.Point, deep bool) {
	before := e.states[p.OpIdx]
	var after model
	if p.OpIdx+1 < len(e.states) {
		after = e.states[p.OpIdx+1]
	} else {
		after = e.cur
	}
	op := e.ops[p.OpIdx]
	s, err := kv.GetStoreManager().CreateStore(p.Dir, e.opt)
	if err != nil {
		e.fatalf("image %s: store cannot be reopened: %v", p, err)
	}
	e.opened = append(e.opened, p.Dir)
	e.recoveredStores++
	referenced := map[int64]string{}
	recovered := map[string]kv.Family{}
	for n, afm := range after {
		bfm, existedBefore := before[n]
		f := s.GetFamily(n)
		if f == nil {
			if existedBefore {
				e.fatalf("image %s: family %s vanished", p, n)
			}
			continue // family creation in flight: not created is legal
		}
		recovered[n] = f
		snap := f.GetSnapshot()
		content, err := kvsim.ReadSnapshot(snap, e.universe)
		seqs := snap.GetCurrent().GetSequences()
		for _, fm := range snap.GetCurrent().GetAllFiles() {
			referenced[fm.GetFileNumber().Int64()] = n
		}
		for fn := range snap.GetCurrent().GetRollupFiles() {
			referenced[fn.Int64()] = n
		}
		snap.Close()
		if err != nil {
			e.fatalf("image %s: family %s unreadable after recovery: %v", p, n, err)
		}
		nestedCommits := false
		if len(e.ps.mids[p.OpIdx]) > 0 && existedBefore {
			// commits completed inside this operation (which itself leaves content alone): the image shows the
			// state after the last of them that had returned, or the state after the one in flight
			nestedCommits = true
			bfm, afm, _ = e.legalStates(p.OpIdx, n, p.Seq, bfm)
		}
		okAfter := matches(afm, content, seqs)
		okBefore := existedBefore && matches(bfm, content, seqs)
		if !existedBefore {
			okBefore = len(content) == 0 && len(seqs) == 0
		}
		if op.Family != n && existedBefore && !nestedCommits {
			// an operation on another family must not be visible here at all
			if !okBefore {
				e.fatalf("image %s: family %s (not touched by the operation in flight) differs from committed state:%s seqs=%v want=%v",
					p, n, kvsim.Diff(bfm.content, content), seqs, bfm.seqs)
			}
			continue
		}
		if !okBefore && !okAfter {
			var bc kvsim.Content
			if existedBefore {
				bc = bfm.content
			}
			e.fatalf("image %s: family %s is neither the state before nor after the operation in flight.\n vs before:%s\n vs after:%s\n seqs=%v",
				p, n, kvsim.Diff(bc, content), kvsim.Diff(afm.content, content), seqs)
		}
	}
	for n := range before {
		if _, ok := after[n]; !ok {
			e.fatalf("harness: family %s disappeared from the model", n)
		}
	}
	if !deep {
		return
	}
	// --- life after recovery: new flushes + compaction on every recovered family
	expect := map[string]kvsim.Content{}
	for n, f := range recovered {
		c, err := kvsim.ReadFamily(f, e.universe)
		if err != nil {
			e.fatalf("image %s: family %s: %v", p, n, err)
		}
		expect[n] = c
	}
	for round := 0; round < 2; round++ {
		for n, f := range recovered {
			atom := uint32(1<<30) + uint32(round)
			oldFiles := map[int64]bool{}
			osnap := f.GetSnapshot()
			for _, fm := range osnap.GetCurrent().GetAllFiles() {
				oldFiles[fm.GetFileNumber().Int64()] = true
			}
			osnap.Close()
			fl := f.NewFlusher()
			keys := []uint32{1, 2, 65536}
			for _, k := range keys {
				if err := fl.Add(k, kvsim.Encode(map[uint32]bool{atom: true})); err != nil {
					e.fatalf("image %s: post-recovery add: %v", p, err)
				}
			}
			err := fl.Commit()
			fl.Release()
			if err != nil {
				e.fatalf("image %s: post-recovery flush of %s failed: %v", p, n, err)
			}
			for _, k := range keys {
				expect[n].AddAtom(k, atom)
			}
			snap := f.GetSnapshot()
			for _, fm := range snap.GetCurrent().GetAllFiles() {
				num := fm.GetFileNumber().Int64()
				if oldFiles[num] {
					continue
				}
				// a table that did not exist in this family before the flush: its number must be fresh
				if owner, ok := referenced[num]; ok {
					snap.Close()
					e.fatalf("image %s: table created after recovery reuses number %d still referenced by family %s", p, num, owner)
				}
				referenced[num] = n
			}
			snap.Close()
		}
	}
	for n, f := range recovered {
		if _, err := kv.VerifCompactSync(f, true); err != nil {
			e.fatalf("image %s: post-recovery compaction of %s failed: %v", p, n, err)
		}
		kv.VerifDeleteObsoleteFiles(f)
	}
	for n, f := range recovered {
		got, err := kvsim.ReadFamily(f, e.universe)
		if err != nil {
			e.fatalf("image %s: family %s unreadable after post-recovery work: %v", p, n, err)
		}
		if !expect[n].Equal(got) {
			e.fatalf("image %s: family %s lost/changed content after post-recovery flush+compaction:%s", p, n, kvsim.Diff(expect[n], got))
		}
	}
}

// crashCheck recovers images of the history so far.
func (e *env) crashCheck(final bool) {
	var pts []crash.Point
	for _, p := range e.im.Points {
		if p.Dir != "" {
			pts = append(pts, p)
		}
	}
	e.classes["fs-points"] += len(e.im.Points)
	e.classes["fs-points-imaged"] += len(pts)
	if len(pts) == 0 {
		e.im.Drop()
		return
	}
	var chosen []int
	if e.thorough || len(pts) <= 10 {
		for i := range pts {
			chosen = append(chosen, i)
		}
	} else {
		// quick tier: a generated sample of the pending images
		n := 10
		seen := map[int]bool{}
		if pref := e.preferredImages(pts); len(pref) > 0 {
			// up to 4 of the sample are images taken inside or after a commit nested in an obsolete-file pass
			for k := 0; k < 4 && k < len(pref); k++ {
				i := pref[rapid.IntRange(0, len(pref)-1).Draw(e.t, "nestedCommitImage")]
				if !seen[i] {
					seen[i] = true
					chosen = append(chosen, i)
				}
			}
		}
		for len(chosen) < n {
			i := rapid.IntRange(0, len(pts)-1).Draw(e.t, "image")
			if !seen[i] {
				seen[i] = true
				chosen = append(chosen, i)
			}
		}
		sort.Ints(chosen)
	}
	deepEvery := 3
	for j, i := range chosen {
		p := pts[i]
		if p.Dir == "" {
			continue
		}
		e.recoverImage(p, e.thorough || j%deepEvery == 0)
		e.imagesChecked++
		inside := insideCommit(p)
		if inside {
			e.insideCommit++
			e.ntHashes = append(e.ntHashes, p.String())
		}
		e.classes["img-"+p.OpName]++
		e.classes["fsop-"+p.FSOp]++
		e.classifyPassImage(p)
		if p.OpIdx < len(e.pendingAt) && (e.pendingAt[p.OpIdx] > 0 || p.OpName == "openWriter") {
			e.classes["img-with-unfinished-writers"]++
			e.histLabels["hist-crash-image-with-unfinished-writers"] = true
		}
		// close the recovered store right away to bound open files / mmaps
		_ = kv.GetStoreManager().CloseStore(p.Dir)
	}
	e.opened = nil
	e.im.Drop()
}

// insideCommit: the image lies strictly inside an operation (not before its first nor after
// its last file-system operation is irrelevant here: every hook invocation while an operation is
// active is between two FS operations of it or at its edges; edges are trivial).
func insideCommit(p crash.Point) bool {
	switch p.FSOp {
	case "listDir":
		return false
	}
	return true
}

func jsonString(v any) (string, error) {
	var sb strings.Builder
	sb.WriteString(fmt.Sprintf("%+v", v))
	return sb.String(), nil
}

// ---- property --------------------------------------------------------------------------------

func runHistory(t *rapid.T, thorough bool) { runHistoryMode(t, thorough, "TestCrashRecovery", false) }

// runHistoryMode: focus=true is TestCleanupInterleavings (same operations and oracles, action menu and
// image sample biased towards obsolete-file passes with nested operations of other actors).
func runHistoryMode(t *rapid.T, thorough bool, group string, focus bool) {
	kvsim.Register()
	dir, err := os.MkdirTemp("", "c01-")
	if err != nil {
		t.Fatalf("harness: %v", err)
	}
	e := &env{
		t: t, dir: dir, storePath: filepath.Join(dir, "store"),
		fams: map[string]kv.Family{}, cur: model{}, classes: map[string]int{}, thorough: thorough,
		universe: keyUniverse, histLabels: map[string]bool{},
		ps: passState{mids: map[int][]midRec{}, focus: focus, group: group, lastSeq: -1},
	}
	e.opt = kv.StoreOption{Levels: rapid.IntRange(2, 3).Draw(t, "levels"), TTL: ltoml.Duration(time.Hour)}
	e.famOpt = kv.FamilyOption{
		Merger:           kvsim.MergerName,
		CompactThreshold: rapid.SampledFrom([]int{0, 1, 2, 3}).Draw(t, "compactThreshold"),
		MaxFileSize:      rapid.SampledFrom([]uint32{0, 8, 24, 64, 1 << 20}).Draw(t, "maxFileSize"),
	}
	e.im = &crash.Imager{Root: e.storePath, OutDir: filepath.Join(dir, "img")}
	e.im.OnPoint = func(p crash.Point) { e.ps.lastSeq = p.Seq }
	if !thorough {
		e.im.Want = func(p crash.Point) bool { return p.Seq%imageStride == e.phase }
	}
	kv.VerifSetFSHook(e.hook)
	version.VerifSetFSHook(version.VerifFSHook(e.hook))
	table.VerifSetFSHook(table.VerifFSHook(e.hook))
	defer func() {
		// no goroutine and no flusher outlives the case (a store waits for its flushers when it closes)
		if j := e.lastTrail; j != nil && j.done != nil {
			if j.isParked && !j.resumed {
				j.resumed = true
				close(j.resume)
			}
			<-j.done
		}
		if p := e.lastPlan; p != nil && p.done != nil {
			<-p.done
			for _, w := range p.opened {
				if !w.released {
					w.released = true
					w.fl.Release()
				}
			}
		}
		for _, w := range e.pending {
			if !w.released {
				w.released = true
				w.fl.Release()
			}
		}
		e.im.Active = false
		e.tracking.Store(false)
		e.window.Store(false)
		kv.VerifSetFSHook(nil)
		version.VerifSetFSHook(nil)
		table.VerifSetFSHook(nil)
		for _, d := range e.opened {
			_ = kv.GetStoreManager().CloseStore(d)
		}
		_ = kv.GetStoreManager().CloseStore(e.storePath)
		_ = os.RemoveAll(dir)
	}()

	// opening a new store is the first history operation
	e.begin("createStore", "", "")
	e.openStore()
	e.end()
	e.opCreateFamily()

	actions := map[string]func(*rapid.T){
		"createFamily": func(t *rapid.T) { e.t = t; e.opCreateFamily() },
		"flush":        func(t *rapid.T) { e.t = t; e.opFlush() },
		"flush2":       func(t *rapid.T) { e.t = t; e.opFlush() },
		"openWriter":   func(t *rapid.T) { e.t = t; e.opOpenWriter() },
		"commitWriter": func(t *rapid.T) { e.t = t; e.opCommitWriter() },
		"compact":      func(t *rapid.T) { e.t = t; e.opCompact() },
		"cleanup":      func(t *rapid.T) { e.t = t; e.opCleanup() },
		"storeCompact": func(t *rapid.T) { e.t = t; e.opStoreCompact() },
		"reopen":       func(t *rapid.T) { e.t = t; e.opReopen() },
		"crash": func(t *rapid.T) {
			e.t = t
			if len(e.im.Points) == 0 {
				t.Skip("no pending images")
			}
			e.crashCheck(false)
		},
		"": func(t *rapid.T) { e.t = t; e.checkLive() },
	}
	if focus {
		actions = e.focusActions()
	}
	t.Repeat(actions)
	e.t = t
	e.drainPending()
	e.crashCheck(true)
	e.checkLive()

	canon := fmt.Sprintf("%+v|%+v|%+v", e.opt.Levels, e.famOpt, e.ops)
	classes := []string{}
	for l := range e.histLabels {
		classes = append(classes, l)
	}
	sort.Strings(classes)
	for c, n := range e.classes {
		ev.Class(group, c, n)
	}
	nt := e.insideCommit > 0
	if focus {
		// non-trivial: a commit completed inside an obsolete-file pass and an image of the history was recovered inside an operation
		nt = nt && e.ps.commitsInPass > 0
	}
	ev.Case(group, canon, nt, classes, map[string]any{
		"levels": e.opt.Levels, "compactThreshold": e.famOpt.CompactThreshold, "maxFileSize": e.famOpt.MaxFileSize,
		"history": e.ops, "images_recovered": e.imagesChecked, "images_inside_commit": e.insideCommit,
		"commits_inside_obsolete_pass": e.ps.commitsInPass, "images_in_or_after_nested_commit": e.ps.imagesInMid,
	})
	// every recovered image inside a commit is a distinct non-trivial crash point of this history
	for _, h := range e.ntHashes {
		ev.Case("crash-points", canon+"|"+h, true, nil, nil)
	}
}

func TestCrashRecovery(t *testing.T) {
	thorough := os.Getenv("VERIF_TIER") == "thorough"
	rapid.Check(t, func(t *rapid.T) { runHistory(t, thorough) })
}

// TestCleanupInterleavings: histories in which operations of other actors (commit of a prepared
// writer, flush, new writer, another cleanup, a compaction job) complete at the listDir / removeDir
// seams of an obsolete-file pass (bare pass, trailing pass of a compaction job); see passnest_test.go.
func TestCleanupInterleavings(t *testing.T) {
	thorough := os.Getenv("VERIF_TIER") == "thorough"
	rapid.Check(t, func(t *rapid.T) { runHistoryMode(t, thorough, "TestCleanupInterleavings", true) })
}
