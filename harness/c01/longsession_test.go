package c01

// TestLongSession: long single-session histories. The other state machines of this package keep
// a session short (a few dozen commits, a manifest of a few hundred bytes); everything that
// depends on how much a store has committed since it was opened - the size of the manifest, the
// number of records in it, the size of one record, the size of the head snapshot a new manifest
// starts with - stays at its smallest value there. Here one session commits hundreds to thousands
// of flushes and compactions without a reopen, the manifest of the session grows to a generated
// target between 128KB and 4MB (thorough: 16MB), records come in generated size classes (a few
// bytes ... larger than the 256KB write buffer of the manifest writer), and every commit is
// judged later: crash images (copy of the directory) are taken between two commits - at
// generated positions, right before every compaction of a family (the last instant at which a
// lost flush of that family is still distinguishable: the compaction rewrites its tables), and
// right after a commit that took the manifest over a power-of-two size - and inside generated
// commits (every intercepted FS operation, before/after). Each image is recovered through the
// production open path and compared with the model: between two commits it must show exactly
// the model after the last commit that returned, inside a commit the state before or after it.
// Sessions end with a clean close + reopen (same oracle), 1-3 sessions per case: the next
// session starts with a head snapshot of everything the long session left behind.
//
// What makes a record big (all through the public kv API, no file is written by the harness):
// replica sequences of many leaders in one flush (Flusher.Sequence: one log per leader, the tsdb
// data family passes one per leader of the shard), level-0 compactions over many input tables
// (one DeleteFile log per input), and the head snapshot of a manifest (one NewFile log per live
// table, one sequence log per leader).

import (
	"fmt"
	"math/bits"
	"os"
	"path/filepath"
	"sort"
	"strings"
	"testing"
	"time"

	"github.com/lindb/common/pkg/ltoml"
	"pgregory.net/rapid"

	"github.com/lindb/lindb/kv"
	"github.com/lindb/lindb/kv/table"
	"github.com/lindb/lindb/kv/version"
	"github.com/lindb/lindb/verifharness/sim/crash"
	"github.com/lindb/lindb/verifharness/sim/ev"
	"github.com/lindb/lindb/verifharness/sim/kvsim"
)

const lsGroup = "TestLongSession"

type lsImage struct {
	dir     string
	why     string // between|pre-compact|boundary|in-op
	commit  int    // number of commits that had returned when the image was taken
	before  model  // legal state 1
	after   model  // legal state 2 (nil for images between two commits)
	tag     string
	session int
	manSize int64
	// in-op images: the FS point and the size of the manifest record of the commit in flight
	fsop     string
	fsBefore bool
	recSize  int64
}

type lsEnv struct {
	t         *rapid.T
	dir       string
	storePath string
	opt       kv.StoreOption
	famOpt    kv.FamilyOption
	store     kv.Store
	famNames  []string
	fams      map[string]kv.Family
	cur       model
	commits   int // commits that returned success (flushes + compactions)
	atom      uint32
	session   int
	leaders   int
	thorough  bool
	log       []string // compact description of the history (runs)
	images    []*lsImage
	imgSeq    int
	opened    []string
	classes   map[string]int
	labels    map[string]bool
	maxMan    int64 // biggest manifest of any session
	recovered int
	lateRecov int // recovered images of a session whose manifest was > 256KB when the image was taken

	// in-op imaging
	im         *crash.Imager
	inOpLeft   int
	inOpPoints int
	inOpAll    bool  // the commit in flight is looked at from inside at every FS point
	rareSeen   bool  // the commit in flight did something a commit of a running session normally does not do
	pre        model // model before the commit in flight (cloned when its first image is taken)
}

func (e *lsEnv) fatalf(format string, args ...any) {
	e.t.Helper()
	n := len(e.log)
	from := 0
	if n > 60 {
		from = n - 60
	}
	e.t.Fatalf(format+"\nsession %d, %d commits so far, leaders=%d levels=%d famOpt=%+v\nhistory (last runs): %s",
		append(args, e.session, e.commits, e.leaders, e.opt.Levels, e.famOpt, strings.Join(e.log[from:], " ; "))...)
}

// manifestSize returns the size of the manifest CURRENT names (0 if unreadable).
func (e *lsEnv) manifestSize() int64 {
	b, err := os.ReadFile(filepath.Join(e.storePath, "CURRENT"))
	if err != nil {
		return 0
	}
	st, err := os.Stat(filepath.Join(e.storePath, strings.TrimSpace(string(b))))
	if err != nil {
		return 0
	}
	return st.Size()
}

func (e *lsEnv) open() {
	s, err := kv.GetStoreManager().CreateStore(e.storePath, e.opt)
	if err != nil {
		e.fatalf("open store: %v", err)
	}
	e.store = s
	e.fams = map[string]kv.Family{}
	for _, n := range e.famNames {
		f := s.GetFamily(n)
		if f == nil {
			e.fatalf("family %s missing after (re)open", n)
		}
		e.fams[n] = f
	}
}

func (e *lsEnv) close() {
	if e.store != nil {
		if err := kv.GetStoreManager().CloseStore(e.storePath); err != nil {
			e.fatalf("close store: %v", err)
		}
		e.store = nil
	}
}

// linkTree copies a quiescent store directory: tables are immutable once closed and are
// hard-linked, everything else (manifests, CURRENT, OPTIONS, LOCK) is copied.
func linkTree(src, dst string) error {
	return filepath.Walk(src, func(path string, info os.FileInfo, err error) error {
		if err != nil {
			return err
		}
		rel, _ := filepath.Rel(src, path)
		target := filepath.Join(dst, rel)
		if info.IsDir() {
			return os.MkdirAll(target, 0o755)
		}
		if !info.Mode().IsRegular() {
			return nil
		}
		if strings.HasSuffix(path, ".sst") {
			return os.Link(path, target)
		}
		b, err := os.ReadFile(path)
		if err != nil {
			return err
		}
		return os.WriteFile(target, b, 0o644)
	})
}

// snapshotImage takes an image between two commits.
func (e *lsEnv) snapshotImage(why string) {
	dir := filepath.Join(e.dir, "img", fmt.Sprintf("q-%05d", e.imgSeq))
	e.imgSeq++
	if err := linkTree(e.storePath, dir); err != nil {
		e.fatalf("harness: image: %v", err)
	}
	e.images = append(e.images, &lsImage{dir: dir, why: why, commit: e.commits, before: e.cur.clone(),
		tag: fmt.Sprintf("%s after commit %d (session %d, manifest %d bytes)", why, e.commits, e.session, e.manifestSize()),
		session: e.session, manSize: e.manifestSize()})
	e.classes["image-"+why]++
}

// sigTornManifestTail: repaired in /repo (0da54a8: recover() ends the journal at a half-written last record).
const sigTornManifestTail = "C01/torn-manifest-tail"

// manifestWriteBuffer is the size of the bufio buffer of the manifest writer (pkg/bufioutil defaultWriteBufferSize).
const manifestWriteBuffer = 256 * 1024

// tornTailShape: the image was taken inside a commit whose manifest record does not fit into the
// write buffer of the manifest writer, after the record was handed to the writer (bufio passes the
// first 256KB on to the file) and before the sync has flushed the rest.
func (img *lsImage) tornTailShape() bool {
	if img.after == nil || img.recSize < manifestWriteBuffer {
		return false
	}
	return (img.fsop == "manifestWrite" && !img.fsBefore) || (img.fsop == "manifestSync" && img.fsBefore)
}

// lsRareOp: FS operations that a commit of a running session does not perform on the unchanged tree.
func lsRareOp(op string) bool {
	switch op {
	case "manifestCreate", "manifestClose", "writeFile", "rename", "mkDir", "encodeToml":
		return true
	}
	return false
}

func (e *lsEnv) arm(all bool, name string) {
	e.inOpAll, e.rareSeen, e.pre, e.inOpPoints = all, false, nil, 0
	e.im.Points = e.im.Points[:0]
	e.im.Begin(e.commits, name)
}

// sizeClass of one manifest record.
func recClass(n int64) string {
	switch {
	case n < 128:
		return "rec<128B"
	case n < 16384:
		return "rec<16KB"
	case n < 256*1024:
		return "rec<256KB"
	default:
		return "rec>=256KB(write buffer)"
	}
}

// afterCommit does the bookkeeping that follows a successful commit: size classes, images at
// power-of-two boundaries, images of an in-op window.
func (e *lsEnv) afterCommit(sizeBefore int64, what string) {
	e.commits++
	sizeAfter := e.manifestSize()
	if sizeAfter > e.maxMan {
		e.maxMan = sizeAfter
	}
	if sizeAfter > sizeBefore {
		e.classes[recClass(sizeAfter-sizeBefore)]++
	}
	if e.pre != nil {
		why := "in-op"
		if e.rareSeen {
			why = "in-op-new-manifest-inside-session"
		}
		after := e.cur.clone()
		for _, p := range e.im.Points {
			if p.Dir == "" {
				continue
			}
			e.images = append(e.images, &lsImage{dir: p.Dir, why: why, commit: e.commits - 1, before: e.pre, after: after,
				tag:     fmt.Sprintf("inside commit %d (%s) %s, session %d, manifest %d->%d bytes", e.commits, what, p, e.session, sizeBefore, sizeAfter),
				session: e.session, manSize: sizeBefore, fsop: p.FSOp, fsBefore: p.Before, recSize: sizeAfter - sizeBefore})
			e.classes["image-"+why]++
		}
	}
	e.im.Points = e.im.Points[:0]
	// the commit took the manifest over a power of two (>= 32KB): judge it right away
	if sizeBefore > 0 && sizeAfter >= 32*1024 && bits.Len64(uint64(sizeAfter)) != bits.Len64(uint64(sizeBefore)) {
		e.classes[fmt.Sprintf("manifest-crossed-%dKB", (uint64(1)<<(bits.Len64(uint64(sizeAfter))-1))/1024)]++
		e.snapshotImage("boundary")
	}
}

// flush commits one flush: nKeys keys of the universe get the atom of the commit, the first
// nSeq leaders (rotated by off) get a new sequence.
func (e *lsEnv) flush(fam string, keys []uint32, nSeq, off int, inOp bool) {
	f := e.fams[fam]
	e.atom++
	atom := e.atom
	sizeBefore := e.manifestSize()
	e.arm(inOp, "flush")
	fl := f.NewFlusher()
	val := kvsim.Encode(map[uint32]bool{atom: true})
	for _, k := range keys {
		if err := fl.Add(k, val); err != nil {
			fl.Release()
			e.fatalf("flush of %s: add: %v", fam, err)
		}
	}
	seq := int64(e.commits + 1)
	for i := 0; i < nSeq; i++ {
		fl.Sequence(int32((off+i)%e.leaders), seq)
	}
	err := fl.Commit()
	fl.Release()
	e.im.End()
	if err != nil {
		e.fatalf("flush of %s (commit %d) failed: %v", fam, e.commits+1, err)
	}
	fm := e.cur[fam]
	for _, k := range keys {
		fm.content.AddAtom(k, atom)
	}
	for i := 0; i < nSeq; i++ {
		fm.seqs[int32((off+i)%e.leaders)] = seq
	}
	e.afterCommit(sizeBefore, "flush "+fam)
}

func (e *lsEnv) compact(fam string, inOp bool) {
	f := e.fams[fam]
	snap := f.GetSnapshot()
	l0 := snap.GetCurrent().NumberOfFilesInLevel(0)
	snap.Close()
	if l0 <= 1 {
		return
	}
	// last instant at which a lost flush of this family can be told from the model
	e.snapshotImage("pre-compact")
	sizeBefore := e.manifestSize()
	e.arm(inOp, "compact")
	ran, err := kv.VerifCompactSync(f, true)
	e.im.End()
	if err != nil {
		e.fatalf("compaction of %s failed: %v", fam, err)
	}
	if !ran {
		e.im.Drop()
		return
	}
	e.classes["compaction-commit"]++
	switch {
	case l0 >= 256:
		e.classes["compaction-inputs>=256"]++
	case l0 >= 32:
		e.classes["compaction-inputs>=32"]++
	}
	e.afterCommit(sizeBefore, fmt.Sprintf("compact %s l0=%d", fam, l0))
}

func (e *lsEnv) checkLive(where string) {
	for _, n := range e.famNames {
		snap := e.fams[n].GetSnapshot()
		got, err := kvsim.ReadSnapshot(snap, keyUniverse)
		seqs := snap.GetCurrent().GetSequences()
		snap.Close()
		if err != nil {
			e.fatalf("%s: family %s unreadable: %v", where, n, err)
		}
		if !e.cur[n].content.Equal(got) {
			e.fatalf("%s: family %s differs from the model (every commit returned success):%s", where, n, kvsim.Diff(e.cur[n].content, got))
		}
		if !seqEqual(seqs, e.cur[n].seqs) {
			e.fatalf("%s: family %s: %d sequences differ from the model (%d)", where, n, len(seqs), len(e.cur[n].seqs))
		}
	}
}

func seqDiff(got, want map[int32]int64) string {
	var d []string
	for k, v := range want {
		if g, ok := got[k]; !ok {
			d = append(d, fmt.Sprintf("leader %d: missing, want %d", k, v))
		} else if g != v {
			d = append(d, fmt.Sprintf("leader %d: %d, want %d", k, g, v))
		}
	}
	for k, g := range got {
		if _, ok := want[k]; !ok {
			d = append(d, fmt.Sprintf("leader %d: %d, want none", k, g))
		}
	}
	sort.Strings(d)
	if len(d) > 6 {
		d = append(d[:6], fmt.Sprintf("... %d more", len(d)-6))
	}
	return strings.Join(d, "; ")
}

// recoverImage opens an image through the production open path and compares it with the model.
func (e *lsEnv) recoverImage(img *lsImage, deep bool) {
	if img.tornTailShape() {
		// repaired finding C01/torn-manifest-tail (TestRegression_TornManifestTailRecordLargerThanWriteBuffer):
		// the image holds a cut tail record; judged like every other image
		e.classes["image-with-cut-manifest-tail(record>=write buffer, between write and sync)"]++
	}
	s, err := kv.GetStoreManager().CreateStore(img.dir, e.opt)
	if err != nil {
		e.fatalf("image %s: the store cannot be reopened: %v", img.tag, err)
	}
	e.opened = append(e.opened, img.dir)
	e.recovered++
	if img.manSize > 256*1024 {
		e.lateRecov++
	}
	e.classes["recovered-"+img.why]++
	referenced := map[int64]string{}
	expect := map[string]*famModel{}
	for _, n := range e.famNames {
		bfm := img.before[n]
		f := s.GetFamily(n)
		if f == nil {
			e.fatalf("image %s: family %s vanished", img.tag, n)
		}
		snap := f.GetSnapshot()
		content, rerr := kvsim.ReadSnapshot(snap, keyUniverse)
		seqs := snap.GetCurrent().GetSequences()
		for _, fm := range snap.GetCurrent().GetAllFiles() {
			referenced[fm.GetFileNumber().Int64()] = n
			if _, serr := os.Stat(filepath.Join(img.dir, n, version.Table(fm.GetFileNumber()))); serr != nil {
				snap.Close()
				e.fatalf("image %s: recovered family %s references table %s which is not in the family directory: %v",
					img.tag, n, version.Table(fm.GetFileNumber()), serr)
			}
		}
		snap.Close()
		if rerr != nil {
			e.fatalf("image %s: family %s unreadable after recovery: %v", img.tag, n, rerr)
		}
		if matches(bfm, content, seqs) {
			expect[n] = bfm
			continue
		}
		if img.after != nil && matches(img.after[n], content, seqs) {
			expect[n] = img.after[n]
			continue
		}
		if img.after == nil {
			e.fatalf("image %s: %d commits had returned success, recovered family %s differs from the model after them.\n content:%s\n sequences: %s",
				img.tag, img.commit, n, kvsim.Diff(bfm.content, content), seqDiff(seqs, bfm.seqs))
		}
		e.fatalf("image %s: recovered family %s is neither the state before nor after the commit in flight.\n vs before:%s\n vs after:%s\n sequences vs before: %s",
			img.tag, n, kvsim.Diff(bfm.content, content), kvsim.Diff(img.after[n].content, content), seqDiff(seqs, bfm.seqs))
	}
	if !deep {
		return
	}
	// life after recovery: a flush under a fresh number, compaction, close, second open
	e.classes["life-after-recovery"]++
	want := map[string]kvsim.Content{}
	for _, n := range e.famNames {
		f := s.GetFamily(n)
		want[n] = expect[n].content.Clone()
		atom := uint32(1 << 30)
		fl := f.NewFlusher()
		for _, k := range []uint32{1, 65536} {
			if err := fl.Add(k, kvsim.Encode(map[uint32]bool{atom: true})); err != nil {
				e.fatalf("image %s: post-recovery add: %v", img.tag, err)
			}
			want[n].AddAtom(k, atom)
		}
		err := fl.Commit()
		fl.Release()
		if err != nil {
			e.fatalf("image %s: post-recovery flush of %s failed: %v", img.tag, n, err)
		}
		snap := f.GetSnapshot()
		for _, fm := range snap.GetCurrent().GetAllFiles() {
			num := fm.GetFileNumber().Int64()
			if owner, ok := referenced[num]; ok && owner != n {
				snap.Close()
				e.fatalf("image %s: table %d of family %s after recovery has the number of a table referenced by family %s", img.tag, num, n, owner)
			}
		}
		snap.Close()
		if _, err := kv.VerifCompactSync(f, true); err != nil {
			e.fatalf("image %s: post-recovery compaction of %s failed: %v", img.tag, n, err)
		}
	}
	if err := kv.GetStoreManager().CloseStore(img.dir); err != nil {
		e.fatalf("image %s: close after recovery: %v", img.tag, err)
	}
	s2, err := kv.GetStoreManager().CreateStore(img.dir, e.opt)
	if err != nil {
		e.fatalf("image %s: second open after recovery failed: %v", img.tag, err)
	}
	for _, n := range e.famNames {
		f := s2.GetFamily(n)
		if f == nil {
			e.fatalf("image %s: family %s vanished at the second open", img.tag, n)
		}
		got, err := kvsim.ReadFamily(f, keyUniverse)
		if err != nil {
			e.fatalf("image %s: family %s unreadable at the second open: %v", img.tag, n, err)
		}
		if !want[n].Equal(got) {
			e.fatalf("image %s: family %s lost/changed content over post-recovery flush + compaction + reopen:%s", img.tag, n, kvsim.Diff(want[n], got))
		}
	}
}

// judge recovers the pending images (all of them in the thorough tier; quick: at most max, the
// pre-compaction and boundary images first - between them they see every commit of the session).
func (e *lsEnv) judge(max int) {
	imgs := e.images
	e.images = nil
	pick := map[int]bool{}
	if len(imgs) > max && !e.thorough {
		var must, rest []int
		for i, im := range imgs {
			if im.why == "pre-compact" || im.why == "boundary" {
				must = append(must, i)
			} else {
				rest = append(rest, i)
			}
		}
		for len(must) > max*2/3 {
			j := rapid.IntRange(0, len(must)-1).Draw(e.t, "dropMust")
			must = append(must[:j], must[j+1:]...)
		}
		for _, i := range must {
			pick[i] = true
		}
		for len(pick) < max && len(rest) > 0 {
			j := rapid.IntRange(0, len(rest)-1).Draw(e.t, "pickImage")
			pick[rest[j]] = true
			rest = append(rest[:j], rest[j+1:]...)
		}
	} else {
		for i := range imgs {
			pick[i] = true
		}
	}
	n := 0
	for i, im := range imgs {
		if pick[i] {
			n++
			e.recoverImage(im, n%4 == 1)
			_ = kv.GetStoreManager().CloseStore(im.dir)
		}
		_ = os.RemoveAll(im.dir)
	}
}

func (e *lsEnv) drawKeys() []uint32 {
	n := rapid.IntRange(1, 3).Draw(e.t, "nKeys")
	start := rapid.IntRange(0, len(keyUniverse)-1).Draw(e.t, "key0")
	keys := make([]uint32, 0, n)
	for i := 0; i < n; i++ {
		keys = append(keys, keyUniverse[(start+i*7)%len(keyUniverse)])
	}
	sort.Slice(keys, func(i, j int) bool { return keys[i] < keys[j] })
	out := keys[:0]
	for i, k := range keys {
		if i == 0 || k != keys[i-1] {
			out = append(out, k)
		}
	}
	return out
}

func runLongSession(t *rapid.T, thorough bool) {
	kvsim.Register()
	dir, err := os.MkdirTemp("", "c01-long-")
	if err != nil {
		t.Fatalf("harness: %v", err)
	}
	e := &lsEnv{t: t, dir: dir, storePath: filepath.Join(dir, "store"), cur: model{}, classes: map[string]int{},
		labels: map[string]bool{}, thorough: thorough, inOpLeft: 4}
	e.opt = kv.StoreOption{Levels: rapid.IntRange(2, 3).Draw(t, "levels"), TTL: ltoml.Duration(time.Hour)}
	e.famOpt = kv.FamilyOption{
		Merger:           kvsim.MergerName,
		CompactThreshold: rapid.SampledFrom([]int{0, 4}).Draw(t, "compactThreshold"),
		MaxFileSize:      rapid.SampledFrom([]uint32{0, 64, 1 << 20}).Draw(t, "maxFileSize"),
	}
	e.im = &crash.Imager{Root: e.storePath, OutDir: filepath.Join(dir, "img-inop")}
	// Every commit runs with the imager armed. A generated few are looked at from inside at each of
	// their first 40 FS points (a flush has about a dozen; of a wide compaction this covers the output
	// table, the commit and the first removals). All others only from the first FS operation on that a
	// commit of a running session normally does not perform (a manifest is created or closed, CURRENT or
	// OPTIONS is written, a directory is made: the version set starts a new manifest inside the session).
	e.im.Want = func(p crash.Point) bool {
		if lsRareOp(p.FSOp) {
			e.rareSeen = true
		}
		if (e.inOpAll || e.rareSeen) && e.inOpPoints < 40 {
			if e.pre == nil {
				e.pre = e.cur.clone()
			}
			return true
		}
		return false
	}
	e.im.OnPoint = func(p crash.Point) {
		if p.Dir != "" {
			e.inOpPoints++
		}
	}
	hook := func(op, path string, before bool) { e.im.Hook(op, path, before) }
	kv.VerifSetFSHook(hook)
	version.VerifSetFSHook(version.VerifFSHook(hook))
	table.VerifSetFSHook(table.VerifFSHook(hook))
	defer func() {
		e.im.Active = false
		kv.VerifSetFSHook(nil)
		version.VerifSetFSHook(nil)
		table.VerifSetFSHook(nil)
		for _, d := range e.opened {
			_ = kv.GetStoreManager().CloseStore(d)
		}
		_ = kv.GetStoreManager().CloseStore(e.storePath)
		_ = os.RemoveAll(dir)
	}()

	// how many leaders the shard has seen (one sequence log per leader in a flush record and in the
	// head snapshot): decides how fast the manifest grows
	e.leaders = rapid.SampledFrom([]int{3, 400, 3000, 12000, 12000, 12000, 45000, 45000}).Draw(t, "leaders")
	nFam := rapid.IntRange(1, 2).Draw(t, "families")
	e.open()
	for i := 0; i < nFam; i++ {
		n := fmt.Sprintf("f%d", i)
		f, err := e.store.CreateFamily(n, e.famOpt)
		if err != nil {
			e.fatalf("create family: %v", err)
		}
		e.famNames = append(e.famNames, n)
		e.fams[n] = f
		e.cur[n] = &famModel{content: kvsim.Content{}, seqs: map[int32]int64{}}
	}

	sessions := rapid.IntRange(1, 3).Draw(t, "sessions")
	maxExp := 22 // 4MB
	if thorough {
		maxExp = 24
	}
	commitCap := 700
	if thorough {
		commitCap = 12000
	}
	for e.session = 1; e.session <= sessions; e.session++ {
		// target size of the manifest of this session: log-uniform 256KB .. 4MB, plus a generated overshoot
		exp := rapid.IntRange(18, maxExp-1).Draw(t, "targetExp")
		target := (int64(1) << exp) + int64(rapid.IntRange(0, 1<<exp-1).Draw(t, "targetFrac"))
		most := int64(e.leaders) * 350
		if most < 24*1024 {
			most = 24 * 1024 // a handful of leaders: the session is long in records, not in bytes
		}
		if !thorough && target > most {
			// records of at most ~6 bytes per leader: keep the number of commits of a quick case payable
			// (a table builder allocates its 256KB write buffer per flush)
			target = most/4 + target%(most-most/4)
		}
		tail := rapid.IntRange(0, 12).Draw(t, "tailCommits") // commits after the target was reached
		start := e.commits
		e.log = append(e.log, fmt.Sprintf("session %d target=%d tail=%d", e.session, target, tail))
		reached := false
		for {
			if !reached && e.manifestSize() >= target {
				reached = true
			}
			if reached {
				if tail == 0 {
					break
				}
				tail--
			}
			if e.commits-start > commitCap {
				e.classes["target-not-reached(commit cap)"]++
				break
			}
			fam := e.famNames[rapid.IntRange(0, len(e.famNames)-1).Draw(t, "family")]
			kind := rapid.SampledFrom([]string{"tiny", "part", "part", "part", "part", "part", "part", "full", "full", "full", "compact", "wide"}).Draw(t, "run")
			if reached && (kind == "tiny" || kind == "wide") {
				kind = "part"
			}
			inOp := e.inOpLeft > 0 && rapid.IntRange(0, 9).Draw(t, "inOp") == 0
			if !inOp && e.inOpLeft > 0 {
				// a commit that is about to take the manifest over a power of two is looked at from inside as well
				sz := e.manifestSize()
				if sz >= 48*1024 && bits.Len64(uint64(sz+sz/16)) != bits.Len64(uint64(sz)) && rapid.Bool().Draw(t, "inOpNearBoundary") {
					inOp = true
				}
			}
			if inOp {
				e.inOpLeft--
			}
			image := rapid.IntRange(0, 5).Draw(t, "imageAfter") == 0
			switch kind {
			case "tiny":
				// a run of small commits (few keys, 0-2 sequences): records of a few dozen bytes
				n := rapid.IntRange(5, 30).Draw(t, "n")
				nSeq := rapid.IntRange(0, 2).Draw(t, "nSeq")
				keys := e.drawKeys()
				at := rapid.IntRange(0, n-1).Draw(t, "imageAt")
				for i := 0; i < n; i++ {
					e.flush(fam, keys, nSeq, i, inOp && i == at)
					if image && i == at {
						e.snapshotImage("between")
					}
				}
				e.log = append(e.log, fmt.Sprintf("tiny %s x%d keys=%v seq=%d", fam, n, keys, nSeq))
			case "part":
				n := rapid.IntRange(1, 6).Draw(t, "n")
				for i := 0; i < n; i++ {
					nSeq := rapid.IntRange(1, e.leaders).Draw(t, "nSeq")
					off := rapid.IntRange(0, e.leaders-1).Draw(t, "off")
					keys := e.drawKeys()
					e.flush(fam, keys, nSeq, off, inOp && i == 0)
					e.log = append(e.log, fmt.Sprintf("flush %s keys=%v seq=%d@%d", fam, keys, nSeq, off))
				}
				if image {
					e.snapshotImage("between")
				}
			case "full":
				keys := e.drawKeys()
				e.flush(fam, keys, e.leaders, 0, inOp)
				e.log = append(e.log, fmt.Sprintf("flush %s keys=%v seq=all", fam, keys))
				if image {
					e.snapshotImage("between")
				}
			case "compact":
				e.compact(fam, inOp)
				e.log = append(e.log, "compact "+fam)
				if image {
					e.snapshotImage("between")
				}
			case "wide":
				// many level-0 tables, then one compaction over all of them: a record with one DeleteFile per input
				n := rapid.SampledFrom([]int{10, 30, 80}).Draw(t, "n")
				if thorough {
					n *= 2
				}
				keys := e.drawKeys()
				for i := 0; i < n; i++ {
					e.flush(fam, keys, 0, 0, false)
				}
				e.compact(fam, inOp)
				e.log = append(e.log, fmt.Sprintf("wide %s x%d keys=%v + compact", fam, n, keys))
				if image {
					e.snapshotImage("between")
				}
			}
			if len(e.images) >= 24 {
				e.judge(10)
			}
		}
		if reached {
			e.classes["target-reached"]++
		}
		sz := e.manifestSize()
		switch {
		case sz >= 4<<20:
			e.classes["session-manifest>=4MB"]++
		case sz >= 2<<20:
			e.classes["session-manifest>=2MB"]++
		case sz >= 1<<20:
			e.classes["session-manifest>=1MB"]++
		case sz >= 512<<10:
			e.classes["session-manifest>=512KB"]++
		case sz >= 256<<10:
			e.classes["session-manifest>=256KB"]++
		default:
			e.classes["session-manifest<256KB"]++
		}
		e.classes["commits"] += e.commits - start
		// the end of the session is a crash point like any other, then a clean close + reopen
		e.snapshotImage("between")
		e.checkLive(fmt.Sprintf("live store at the end of session %d", e.session))
		e.judge(12)
		e.close()
		e.open()
		e.checkLive(fmt.Sprintf("after clean close + reopen at the end of session %d (manifest of the session: %d bytes)", e.session, sz))
		if hs := e.manifestSize(); hs >= 16384 {
			e.classes["head-snapshot>=16KB"]++
			if hs >= 256*1024 {
				e.classes["head-snapshot>=256KB"]++
			}
		}
		e.log = append(e.log, "reopen")
	}
	e.close()

	canon := fmt.Sprintf("%d|%+v|%d|%v", e.opt.Levels, e.famOpt, e.leaders, e.log)
	var labels []string
	for l := range e.labels {
		labels = append(labels, l)
	}
	sort.Strings(labels)
	for c, n := range e.classes {
		ev.Class(lsGroup, c, n)
	}
	// non-trivial: a crash image of a session whose manifest had outgrown the 256KB write buffer was recovered
	ev.Case(lsGroup, canon, e.lateRecov > 0, labels, map[string]any{
		"levels": e.opt.Levels, "leaders": e.leaders, "families": len(e.famNames), "sessions": sessions,
		"commits": e.commits, "biggest_manifest": e.maxMan, "images_recovered": e.recovered,
		"images_recovered_late_in_a_big_session": e.lateRecov,
	})
}

func TestLongSession(t *testing.T) {
	thorough := os.Getenv("VERIF_TIER") == "thorough"
	rapid.Check(t, func(t *rapid.T) { runLongSession(t, thorough) })
}
