package c01

import (
	"os"
	"path/filepath"
	"testing"
	"time"

	"github.com/lindb/common/pkg/ltoml"

	"github.com/lindb/lindb/kv"
	"github.com/lindb/lindb/kv/version"
	"github.com/lindb/lindb/verifharness/sim/crash"
	"github.com/lindb/lindb/verifharness/sim/kvsim"
)

// TestRegression_TornManifestTailRecordLargerThanWriteBuffer (finding C01/torn-manifest-tail, found by
// TestLongSession): a manifest record that is larger than the 256KB buffer of the manifest writer
// reaches the file in two writes - bufio hands the first 256KB to the file inside
// BufioWriter.Write, the rest follows with the flush inside Sync. A process that dies between
// the two leaves a manifest whose last record is cut short; Recover fails with
// "unexpected EOF" and the store can never be opened again, although the commit in flight had
// not returned and every commit before it had ("a half-written ... metadata record ... never
// prevents reopening"). Repaired in /repo (0da54a8): recover() ends the journal at a half-written
// last record. The test must pass: the store reopens, the commit in flight appears entirely or
// not at all (here: not at all, its record is incomplete), the earlier commit is present.
func TestRegression_TornManifestTailRecordLargerThanWriteBuffer(t *testing.T) {
	kvsim.Register()
	dir, err := os.MkdirTemp("", "c01-torn-")
	if err != nil {
		t.Fatal(err)
	}
	defer os.RemoveAll(dir)
	storePath := filepath.Join(dir, "store")
	opt := kv.StoreOption{Levels: 2, TTL: ltoml.Duration(time.Hour)}
	// the seam wraps manifests created after it was set: set it before the store is opened
	img := filepath.Join(dir, "img")
	armed, taken := false, false
	version.VerifSetFSHook(func(op, path string, before bool) {
		if op == "manifestWrite" && !before && armed && !taken {
			taken = true
			if err := crash.CopyTree(storePath, img); err != nil {
				panic(err)
			}
		}
	})
	defer version.VerifSetFSHook(nil)
	s, err := kv.GetStoreManager().CreateStore(storePath, opt)
	if err != nil {
		t.Fatal(err)
	}
	defer func() { _ = kv.GetStoreManager().CloseStore(storePath) }()
	f, err := s.CreateFamily("f", kv.FamilyOption{Merger: kvsim.MergerName})
	if err != nil {
		t.Fatal(err)
	}
	flush := func(key uint32, atom uint32, leaders int) {
		fl := f.NewFlusher()
		defer fl.Release()
		if err := fl.Add(key, kvsim.Encode(map[uint32]bool{atom: true})); err != nil {
			t.Fatal(err)
		}
		for l := 0; l < leaders; l++ {
			fl.Sequence(int32(l), int64(atom))
		}
		if err := fl.Commit(); err != nil {
			t.Fatal(err)
		}
	}
	flush(1, 1, 3) // committed: must survive
	armed = true
	flush(2, 2, 60000) // record of ~400KB; the process "dies" after the record was handed to the writer
	armed = false
	if st, err := os.Stat(filepath.Join(img, "MANIFEST-000001")); err != nil || st.Size() < manifestWriteBuffer {
		t.Fatalf("harness: the image does not hold the first %d bytes of the record (%v)", manifestWriteBuffer, err)
	}
	if !taken {
		t.Fatal("harness: no manifestWrite seen")
	}
	r, err := kv.GetStoreManager().CreateStore(img, opt)
	if err != nil {
		t.Fatalf("%s: process death between the write and the sync of a %d-leader flush record: the store cannot be reopened: %v",
			sigTornManifestTail, 60000, err)
	}
	defer func() { _ = kv.GetStoreManager().CloseStore(img) }()
	// repaired tree: the commit in flight appears entirely or not at all, the committed flush is there
	rf := r.GetFamily("f")
	if rf == nil {
		t.Fatal("family f vanished")
	}
	got, err := kvsim.ReadFamily(rf, []uint32{1, 2})
	if err != nil {
		t.Fatal(err)
	}
	before := kvsim.Content{}
	before.AddAtom(1, 1)
	after := before.Clone()
	after.AddAtom(2, 2)
	if !before.Equal(got) && !after.Equal(got) {
		t.Fatalf("recovered content is neither the state before nor after the flush in flight:%s", kvsim.Diff(before, got))
	}
	snap := rf.GetSnapshot()
	seqs := snap.GetCurrent().GetSequences()
	snap.Close()
	wantSeqs := map[int32]int64{0: 1, 1: 1, 2: 1}
	if after.Equal(got) {
		t.Fatalf("the flush in flight is visible although its record was incomplete in the image")
	}
	if !seqEqual(seqs, wantSeqs) {
		t.Fatalf("recovered sequences %d entries (%s), want those of the committed flush only", len(seqs), seqDiff(seqs, wantSeqs))
	}
}
