// TestRollupBookkeeping: histories with rollup-bookkeeping operations (the fourth operation kind of
// the quantifier of C01 next to create-family / flush / compaction / reopen).
//
// The store is opened with rollup target intervals (StoreOption.Rollup), so every flusher commit
// that produced a table also records "this table waits for the rollup into interval I" marks in
// the same manifest record, exactly as a data family of a shard does. The further bookkeeping
// commits of the rollup job are generated as the edit logs the job commits through
// Family.commitEditLog == StoreVersionSet.CommitFamilyEditLog (kv/family_rollup.go):
//   - rollupDone: DeleteRollupFile records for a generated subset of the marks of the family
//     (source side, after the job merged the files); records for marks that are gone already are
//     legal (the job commits them again after a failed clean-up),
//   - refAdd: NewReferenceFile records (target side: "source file n of family id of store s is
//     merged into this family"),
//   - refClean: DeleteReferenceFile records (target side clean-up), present or absent ones.
//
// The merge of the rollup job itself (which data lands in which slot) is C04's subject and is not
// run here; what C01 states is that these commits are atomic and durable like every other one.
//
// Oracle: reference model per family (content, replica sequences, rollup marks as a set of
// table-number@interval, reference files as a set of store/family/number). The live store shows the
// model after every operation; every crash image recovered through the production open path shows,
// per family, the state before or after the operation in flight (all four parts together: a flush
// appears with its marks or not at all); after recovery a new flush gets a table number that neither
// a recovered table nor a recovered rollup mark holds.
package c01

import (
	"fmt"
	"os"
	"path/filepath"
	"sort"
	"strings"
	"testing"
	"time"

	"github.com/lindb/common/pkg/ltoml"
	"pgregory.net/rapid"

	"github.com/lindb/lindb/kv"
	"github.com/lindb/lindb/kv/table"
	"github.com/lindb/lindb/kv/version"
	"github.com/lindb/lindb/pkg/timeutil"
	"github.com/lindb/lindb/verifharness/sim/crash"
	"github.com/lindb/lindb/verifharness/sim/ev"
	"github.com/lindb/lindb/verifharness/sim/kvsim"
)

type rbFam struct {
	content kvsim.Content
	seqs    map[int32]int64
	marks   map[string]bool // "<table number>@<interval ms>"
	refs    map[string]bool // "<store>/<family id>/<table number>"
}

func newRbFam() *rbFam {
	return &rbFam{content: kvsim.Content{}, seqs: map[int32]int64{}, marks: map[string]bool{}, refs: map[string]bool{}}
}

func cloneSet(s map[string]bool) map[string]bool {
	o := make(map[string]bool, len(s))
	for k := range s {
		o[k] = true
	}
	return o
}

func setEqual(a, b map[string]bool) bool {
	if len(a) != len(b) {
		return false
	}
	for k := range a {
		if !b[k] {
			return false
		}
	}
	return true
}

func setString(s map[string]bool) string {
	ks := make([]string, 0, len(s))
	for k := range s {
		ks = append(ks, k)
	}
	sort.Strings(ks)
	return "{" + strings.Join(ks, " ") + "}"
}

func (f *rbFam) clone() *rbFam {
	s := map[int32]int64{}
	for k, v := range f.seqs {
		s[k] = v
	}
	return &rbFam{content: f.content.Clone(), seqs: s, marks: cloneSet(f.marks), refs: cloneSet(f.refs)}
}

func (f *rbFam) same(o *rbFam) bool {
	return f.content.Equal(o.content) && seqEqual(f.seqs, o.seqs) && setEqual(f.marks, o.marks) && setEqual(f.refs, o.refs)
}

func (f *rbFam) diff(got *rbFam) string {
	return fmt.Sprintf("content:%s seqs want=%v got=%v marks want=%s got=%s refs want=%s got=%s",
		kvsim.Diff(f.content, got.content), f.seqs, got.seqs, setString(f.marks), setString(got.marks),
		setString(f.refs), setString(got.refs))
}

type rbModel map[string]*rbFam

func (m rbModel) clone() rbModel {
	o := rbModel{}
	for k, v := range m {
		o[k] = v.clone()
	}
	return o
}

type rbEnv struct {
	t         *rapid.T
	dir       string
	storePath string
	opt       kv.StoreOption
	famOpt    kv.FamilyOption
	store     kv.Store
	famNames  []string
	fams      map[string]kv.Family
	cur       rbModel
	states    []rbModel
	ops       []string
	opFam     []string
	im        *crash.Imager
	thorough  bool
	phase     int
	atom      uint32
	classes   map[string]int
	labels    map[string]bool
	images    int
	inside    int
	opened    []string
	// numbers of all tables that ever were part of a version of the family (flush outputs, compaction outputs)
	known map[string]map[int64]bool
	// a flusher whose table was opened but got no entry was committed: its (abandoned) table number may carry
	// rollup marks, which nothing reads (family.rollup skips numbers that are no level-0 table); the oracle
	// then only looks at the marks of tables that were committed
	noEntries bool
}

func (e *rbEnv) fatalf(format string, args ...any) {
	e.t.Helper()
	e.t.Fatalf(format+"\nrollup targets: %v\nhistory: %s", append(args, e.opt.Rollup, strings.Join(e.ops, " ; "))...)
}

// observe reads what a family shows: content, sequences, rollup marks, reference files and the
// numbers of the tables of its current version.
func rbObserve(f kv.Family) (*rbFam, map[int64]bool, error) {
	snap := f.GetSnapshot()
	defer snap.Close()
	content, err := kvsim.ReadSnapshot(snap, keyUniverse)
	if err != nil {
		return nil, nil, err
	}
	cur := snap.GetCurrent()
	o := &rbFam{content: content, seqs: cur.GetSequences(), marks: map[string]bool{}, refs: map[string]bool{}}
	for fn, ivs := range cur.GetRollupFiles() {
		for _, iv := range ivs {
			k := fmt.Sprintf("%d@%d", fn.Int64(), iv.Int64())
			for o.marks[k] {
				k += "#again" // a mark listed twice is not the same as a mark listed once
			}
			o.marks[k] = true
		}
	}
	for st, fams := range cur.GetAllReferenceFiles() {
		for fid, files := range fams {
			for _, n := range files {
				k := fmt.Sprintf("%s/%d/%d", st, fid.Int32(), n.Int64())
				for o.refs[k] {
					k += "#again"
				}
				o.refs[k] = true
			}
		}
	}
	nums := map[int64]bool{}
	for _, fm := range cur.GetAllFiles() {
		nums[fm.GetFileNumber().Int64()] = true
	}
	return o, nums, nil
}

// view drops the marks the oracle does not judge (see rbEnv.noEntries).
func (e *rbEnv) view(fam string, o *rbFam) *rbFam {
	if !e.noEntries {
		return o
	}
	c := o.clone()
	for k := range c.marks {
		n, _ := parseMark(k)
		if !e.known[fam][n] {
			delete(c.marks, k)
		}
	}
	return c
}

func (e *rbEnv) note(fam string, nums map[int64]bool) {
	if e.known[fam] == nil {
		e.known[fam] = map[int64]bool{}
	}
	for n := range nums {
		e.known[fam][n] = true
	}
}

func (e *rbEnv) openStore() {
	s, err := kv.GetStoreManager().CreateStore(e.storePath, e.opt)
	if err != nil {
		e.fatalf("open store: %v", err)
	}
	e.store = s
	e.fams = map[string]kv.Family{}
	for _, n := range e.famNames {
		f := s.GetFamily(n)
		if f == nil {
			e.fatalf("family %s missing after (re)open", n)
		}
		e.fams[n] = f
	}
}

func (e *rbEnv) begin(name, fam string) {
	e.states = append(e.states, e.cur.clone())
	e.ops = append(e.ops, name)
	e.opFam = append(e.opFam, fam)
	if !e.thorough {
		e.phase = rapid.IntRange(0, 1).Draw(e.t, "imagePhase")
	}
	e.im.Begin(len(e.ops)-1, name)
}

func (e *rbEnv) end() { e.im.End() }

func (e *rbEnv) pickFamily() string {
	return rapid.SampledFrom(e.famNames).Draw(e.t, "family")
}

func (e *rbEnv) opCreateFamily() {
	if len(e.famNames) >= 2 {
		e.t.Skip("enough families")
	}
	name := fmt.Sprintf("f%d", len(e.famNames))
	e.begin("createFamily("+name+")", name)
	f, err := e.store.CreateFamily(name, e.famOpt)
	e.end()
	if err != nil {
		e.fatalf("create family: %v", err)
	}
	e.famNames = append(e.famNames, name)
	e.fams[name] = f
	e.cur[name] = newRbFam()
}

func (e *rbEnv) opFlush() {
	fam := e.pickFamily()
	f := e.fams[fam]
	nKeys := rapid.IntRange(0, 4).Draw(e.t, "nKeys")
	keySet := map[uint32]bool{}
	for i := 0; i < nKeys; i++ {
		keySet[rapid.SampledFrom(keyUniverse).Draw(e.t, "key")] = true
	}
	keys := make([]uint32, 0, len(keySet))
	for k := range keySet {
		keys = append(keys, k)
	}
	sort.Slice(keys, func(i, j int) bool { return keys[i] < keys[j] })
	modes := make([]bool, len(keys))
	for i := range modes {
		modes[i] = rapid.Bool().Draw(e.t, "stream")
	}
	useSeq := rapid.Bool().Draw(e.t, "useSeq")
	// what the flushers of tsdb and index do when they are created: the stream writer (and with it the table
	// file) is opened before the first entry; a flush that then has nothing to write commits a writer whose
	// table is empty (the table is abandoned, the sequences are committed)
	openFirst := rapid.Bool().Draw(e.t, "openStreamWriterFirst")
	leader := int32(rapid.IntRange(0, 2).Draw(e.t, "leader"))
	delta := int64(rapid.IntRange(1, 1000).Draw(e.t, "seqDelta"))
	e.atom++
	atom := e.atom
	_, numsBefore, err := rbObserve(f)
	if err != nil {
		e.fatalf("read family %s: %v", fam, err)
	}
	e.begin(fmt.Sprintf("flush(%s,keys=%v,seq=%v,openFirst=%v)", fam, keys, useSeq, openFirst), fam)
	fl := f.NewFlusher()
	if openFirst {
		_, err = fl.StreamWriter()
	}
	if err == nil {
		err = addKeys(fl, keys, modes, atom)
	}
	next := e.cur[fam].clone()
	if err == nil {
		if useSeq {
			next.seqs[leader] = e.cur[fam].seqs[leader] + delta
			fl.Sequence(leader, next.seqs[leader])
		}
		err = fl.Commit()
	}
	fl.Release()
	e.end()
	if err != nil {
		e.fatalf("flush of family %s: %v", fam, err)
	}
	for _, k := range keys {
		next.content.AddAtom(k, atom)
	}
	// the tables this commit added wait for the rollup into every target interval of the store
	_, numsAfter, err := rbObserve(f)
	if err != nil {
		e.fatalf("read family %s: %v", fam, err)
	}
	e.note(fam, numsAfter)
	if openFirst && len(keys) == 0 {
		e.noEntries = true
		e.classes["flush-table-opened-no-entries"]++
		if useSeq {
			e.classes["flush-table-opened-no-entries-with-sequence"]++
		}
	} else if openFirst {
		e.classes["flush-stream-writer-opened-first"]++
	}
	added := 0
	for n := range numsAfter {
		if !numsBefore[n] {
			added++
			for _, iv := range e.opt.Rollup {
				next.marks[fmt.Sprintf("%d@%d", n, iv.Int64())] = true
			}
		}
	}
	if len(keys) > 0 && added != 1 {
		e.fatalf("flush of family %s with %d keys added %d tables to the version", fam, len(keys), added)
	}
	if len(keys) == 0 && added != 0 {
		e.fatalf("flush of family %s without keys added %d tables to the version", fam, added)
	}
	e.cur[fam] = next
	if added > 0 && len(e.opt.Rollup) > 0 {
		e.classes["flush-with-rollup-marks"]++
	} else {
		e.classes["flush-without-marks"]++
	}
}

func (e *rbEnv) commitLog(fam string, el version.EditLog) {
	f := e.fams[fam]
	fv, ok := kv.VerifFamilyVersion(f).(version.FamilyVersion)
	if !ok {
		e.fatalf("harness: family version of %s not accessible", fam)
	}
	err := fv.GetVersionSet().CommitFamilyEditLog(fam, el)
	e.end()
	if err != nil {
		e.fatalf("rollup bookkeeping commit of family %s: %v", fam, err)
	}
}

func parseMark(k string) (int64, int64) {
	var n, iv int64
	_, _ = fmt.Sscanf(k, "%d@%d", &n, &iv)
	return n, iv
}

func sortedKeys(s map[string]bool) []string {
	ks := make([]string, 0, len(s))
	for k := range s {
		ks = append(ks, k)
	}
	sort.Strings(ks)
	return ks
}

// opRollupDone: the source-side commit of a rollup job.
func (e *rbEnv) opRollupDone() {
	fam := e.pickFamily()
	next := e.cur[fam].clone()
	marks := sortedKeys(next.marks)
	el := version.NewEditLog(e.fams[fam].ID())
	var desc []string
	present, absent := 0, 0
	for _, k := range marks {
		if rapid.IntRange(0, 2).Draw(e.t, "takeMark") > 0 {
			n, iv := parseMark(k)
			el.Add(version.CreateDeleteRollupFile(table.FileNumber(n), timeutil.Interval(iv)))
			delete(next.marks, k)
			desc = append(desc, k)
			present++
		}
	}
	if present == 0 || rapid.IntRange(0, 3).Draw(e.t, "absentMark") == 0 {
		// a mark that is not (or no longer) listed: another interval of a listed table or a table without marks
		n := int64(rapid.IntRange(1, 40).Draw(e.t, "absentNum"))
		iv := rapid.SampledFrom(rbIntervals).Draw(e.t, "absentInterval")
		k := fmt.Sprintf("%d@%d", n, iv.Int64())
		if !e.cur[fam].marks[k] {
			el.Add(version.CreateDeleteRollupFile(table.FileNumber(n), iv))
			desc = append(desc, k+"(absent)")
			absent++
		}
	}
	if present+absent == 0 {
		e.t.Skip("nothing to commit")
	}
	e.begin(fmt.Sprintf("rollupDone(%s,%v)", fam, desc), fam)
	e.commitLog(fam, el)
	e.cur[fam] = next
	if present > 0 {
		e.classes["rollupDone-present-marks"]++
		if len(next.marks) > 0 {
			e.classes["rollupDone-some-marks-left"]++
		}
	}
	if absent > 0 {
		e.classes["rollupDone-absent-mark"]++
	}
}

var rbIntervals = []timeutil.Interval{1, 127, 128, 10_000, 300_000, 3_600_000, 86_400_000, 1 << 40}
var rbStores = []string{"20230517", "20230518", "202305", ""}

func (e *rbEnv) drawRef() (string, version.FamilyID, table.FileNumber, string) {
	st := rapid.SampledFrom(rbStores).Draw(e.t, "refStore")
	fid := version.FamilyID(rapid.SampledFrom([]int{0, 1, 2, 127, 128, 70000}).Draw(e.t, "refFamily"))
	n := table.FileNumber(rapid.SampledFrom([]int64{1, 2, 3, 7, 127, 128, 16384, 1 << 33}).Draw(e.t, "refNum"))
	return st, fid, n, fmt.Sprintf("%s/%d/%d", st, fid.Int32(), n.Int64())
}

// opRefAdd: the target-side record "these source files are merged into this family".
func (e *rbEnv) opRefAdd() {
	fam := e.pickFamily()
	next := e.cur[fam].clone()
	el := version.NewEditLog(e.fams[fam].ID())
	cnt := rapid.IntRange(1, 3).Draw(e.t, "refs")
	var desc []string
	for i := 0; i < cnt; i++ {
		st, fid, n, k := e.drawRef()
		el.Add(version.CreateNewReferenceFile(st, fid, n))
		if next.refs[k] {
			e.classes["refAdd-listed-already"]++
		}
		next.refs[k] = true
		desc = append(desc, k)
	}
	e.begin(fmt.Sprintf("refAdd(%s,%v)", fam, desc), fam)
	e.commitLog(fam, el)
	e.cur[fam] = next
	e.classes["refAdd"]++
}

// opRefClean: the target-side clean-up after the source committed its rollupDone.
func (e *rbEnv) opRefClean() {
	fam := e.pickFamily()
	next := e.cur[fam].clone()
	el := version.NewEditLog(e.fams[fam].ID())
	var desc []string
	present, absent := 0, 0
	for _, k := range sortedKeys(next.refs) {
		if rapid.Bool().Draw(e.t, "takeRef") {
			parts := strings.Split(k, "/")
			var fid int32
			var n int64
			_, _ = fmt.Sscanf(parts[1], "%d", &fid)
			_, _ = fmt.Sscanf(parts[2], "%d", &n)
			el.Add(version.CreateDeleteReferenceFile(parts[0], version.FamilyID(fid), table.FileNumber(n)))
			delete(next.refs, k)
			desc = append(desc, k)
			present++
		}
	}
	if present == 0 || rapid.IntRange(0, 3).Draw(e.t, "absentRef") == 0 {
		st, fid, n, k := e.drawRef()
		if !e.cur[fam].refs[k] {
			el.Add(version.CreateDeleteReferenceFile(st, fid, n))
			desc = append(desc, k+"(absent)")
			absent++
		}
	}
	if present+absent == 0 {
		e.t.Skip("nothing to commit")
	}
	e.begin(fmt.Sprintf("refClean(%s,%v)", fam, desc), fam)
	e.commitLog(fam, el)
	e.cur[fam] = next
	if present > 0 {
		e.classes["refClean-present"]++
		if len(next.refs) > 0 {
			e.classes["refClean-some-refs-left"]++
		}
	}
	if absent > 0 {
		e.classes["refClean-absent"]++
	}
}

func (e *rbEnv) opCompact() {
	fam := e.pickFamily()
	e.begin("compact("+fam+")", fam)
	did, err := kv.VerifCompactSync(e.fams[fam], true)
	e.end()
	if err != nil {
		e.fatalf("compaction of family %s: %v", fam, err)
	}
	if _, nums, err := rbObserve(e.fams[fam]); err == nil {
		e.note(fam, nums)
	}
	if did {
		e.classes["compaction-ran"]++
		if len(e.cur[fam].marks) > 0 {
			e.classes["compaction-with-marks-pending"]++
		}
	}
}

func (e *rbEnv) opReopen() {
	e.begin("reopen", "")
	if err := kv.GetStoreManager().CloseStore(e.storePath); err != nil {
		e.fatalf("close store: %v", err)
	}
	e.store = nil
	e.openStore()
	e.end()
	e.classes["reopen"]++
	for _, n := range e.famNames {
		if len(e.cur[n].marks) > 0 {
			e.classes["reopen-with-marks"]++
			e.labels["reopen-with-marks"] = true
		}
		if len(e.cur[n].refs) > 0 {
			e.classes["reopen-with-refs"]++
			e.labels["reopen-with-refs"] = true
		}
	}
}

func (e *rbEnv) checkLive() {
	for _, n := range e.famNames {
		got, _, err := rbObserve(e.fams[n])
		if err != nil {
			e.fatalf("live store: family %s unreadable: %v", n, err)
		}
		got = e.view(n, got)
		if !e.cur[n].same(got) {
			e.fatalf("live store: family %s differs from the committed state: %s", n, e.cur[n].diff(got))
		}
	}
}

func (e *rbEnv) recoverImage(p crash.Point) {
	before := e.states[p.OpIdx]
	after := e.cur
	if p.OpIdx+1 < len(e.states) {
		after = e.states[p.OpIdx+1]
	}
	s, err := kv.GetStoreManager().CreateStore(p.Dir, e.opt)
	if err != nil {
		e.fatalf("image %s: store cannot be reopened: %v", p, err)
	}
	e.opened = append(e.opened, p.Dir)
	defer func() {
		_ = kv.GetStoreManager().CloseStore(p.Dir)
	}()
	held := map[int64]string{}
	var recovered []string
	for n, afm := range after {
		bfm, existed := before[n]
		f := s.GetFamily(n)
		if f == nil {
			if existed {
				e.fatalf("image %s: family %s vanished", p, n)
			}
			continue
		}
		recovered = append(recovered, n)
		got, nums, err := rbObserve(f)
		if err != nil {
			e.fatalf("image %s: family %s unreadable after recovery: %v", p, n, err)
		}
		got = e.view(n, got)
		for num := range nums {
			held[num] = "a table of family " + n
		}
		for k := range got.marks {
			num, _ := parseMark(k)
			if _, ok := held[num]; !ok {
				held[num] = "a rollup mark of family " + n
			}
		}
		if !existed {
			bfm = newRbFam()
		}
		okB, okA := bfm.same(got), afm.same(got)
		if e.opFam[p.OpIdx] != n && existed {
			if !okB {
				e.fatalf("image %s: family %s (not touched by the operation in flight) differs from the committed state: %s", p, n, bfm.diff(got))
			}
			continue
		}
		if !okB && !okA {
			e.fatalf("image %s: family %s is neither the state before nor after the operation in flight.\n vs before: %s\n vs after: %s",
				p, n, bfm.diff(got), afm.diff(got))
		}
		if !okB || !bfm.same(afm) {
			if len(got.marks) > 0 {
				e.classes["image-recovered-with-marks"]++
			}
			if len(got.refs) > 0 {
				e.classes["image-recovered-with-refs"]++
			}
		}
	}
	// life after recovery: a new table never takes a number the recovered state still holds
	sort.Strings(recovered)
	for _, n := range recovered {
		f := s.GetFamily(n)
		_, numsBefore, _ := rbObserve(f)
		fl := f.NewFlusher()
		err := fl.Add(7, kvsim.Encode(map[uint32]bool{1 << 30: true}))
		if err == nil {
			err = fl.Commit()
		}
		fl.Release()
		if err != nil {
			e.fatalf("image %s: flush after recovery into family %s: %v", p, n, err)
		}
		_, numsAfter, err := rbObserve(f)
		if err != nil {
			e.fatalf("image %s: family %s unreadable after a flush after recovery: %v", p, n, err)
		}
		for num := range numsAfter {
			if numsBefore[num] {
				continue
			}
			if owner, ok := held[num]; ok {
				e.fatalf("image %s: after recovery a new table of family %s gets file number %d, which is still held by %s", p, n, num, owner)
			}
			held[num] = "a table created after recovery in family " + n
		}
	}
	e.images++
	if insideCommit(p) {
		e.inside++
	}
}

func (e *rbEnv) crashCheck() {
	pts := e.im.Points
	for _, p := range pts {
		if p.Dir == "" {
			continue
		}
		e.recoverImage(p)
	}
	e.im.Drop()
}

func runRollupBookkeeping(t *rapid.T, thorough bool) {
	kvsim.Register()
	dir, err := os.MkdirTemp("", "c01rb-")
	if err != nil {
		t.Fatalf("harness: %v", err)
	}
	e := &rbEnv{t: t, dir: dir, storePath: filepath.Join(dir, "store"), fams: map[string]kv.Family{}, cur: rbModel{},
		classes: map[string]int{}, labels: map[string]bool{}, thorough: thorough, known: map[string]map[int64]bool{}}
	nTargets := rapid.IntRange(1, 3).Draw(t, "rollupTargets")
	seen := map[timeutil.Interval]bool{}
	for len(e.opt.Rollup) < nTargets {
		iv := rapid.SampledFrom(rbIntervals).Draw(t, "rollupInterval")
		if !seen[iv] {
			seen[iv] = true
			e.opt.Rollup = append(e.opt.Rollup, iv)
		}
	}
	e.opt.Levels = rapid.IntRange(2, 3).Draw(t, "levels")
	e.opt.TTL = ltoml.Duration(time.Hour)
	e.opt.Source = timeutil.Interval(10_000)
	e.famOpt = kv.FamilyOption{Merger: kvsim.MergerName, CompactThreshold: 0,
		MaxFileSize: rapid.SampledFrom([]uint32{0, 24, 1 << 20}).Draw(t, "maxFileSize")}
	e.im = &crash.Imager{Root: e.storePath, OutDir: filepath.Join(dir, "img")}
	if !thorough {
		e.im.Want = func(p crash.Point) bool { return p.Seq%2 == e.phase }
	}
	kv.VerifSetFSHook(e.im.Hook)
	version.VerifSetFSHook(version.VerifFSHook(e.im.Hook))
	table.VerifSetFSHook(table.VerifFSHook(e.im.Hook))
	defer func() {
		e.im.Active = false
		kv.VerifSetFSHook(nil)
		version.VerifSetFSHook(nil)
		table.VerifSetFSHook(nil)
		for _, d := range e.opened {
			_ = kv.GetStoreManager().CloseStore(d)
		}
		_ = kv.GetStoreManager().CloseStore(e.storePath)
		_ = os.RemoveAll(dir)
	}()
	e.begin("createStore", "")
	e.openStore()
	e.end()
	e.opCreateFamily()
	step := func(f func()) func(*rapid.T) {
		return func(t *rapid.T) { e.t = t; f(); e.checkLive() }
	}
	t.Repeat(map[string]func(*rapid.T){
		"createFamily": step(e.opCreateFamily),
		"flush":        step(e.opFlush),
		"flush2":       step(e.opFlush),
		"rollupDone":   step(e.opRollupDone),
		"refAdd":       step(e.opRefAdd),
		"refClean":     step(e.opRefClean),
		"compact":      step(e.opCompact),
		"reopen":       step(e.opReopen),
		"crash": func(t *rapid.T) {
			e.t = t
			if len(e.im.Points) == 0 {
				t.Skip("no pending images")
			}
			e.crashCheck()
		},
	})
	e.t = t
	e.crashCheck()
	e.checkLive()
	for c, n := range e.classes {
		ev.Class("TestRollupBookkeeping", c, n)
	}
	labels := sortedKeys(e.labels)
	book := e.classes["rollupDone-present-marks"] + e.classes["refAdd"] + e.classes["refClean-present"]
	canon := fmt.Sprintf("%v|%d|%d|%v", e.opt.Rollup, e.opt.Levels, e.famOpt.MaxFileSize, e.ops)
	// non-trivial: rollup bookkeeping was committed and an image inside a commit was recovered
	ev.Case("TestRollupBookkeeping", canon, book > 0 && e.inside > 0, labels, map[string]any{
		"rollup": e.opt.Rollup, "history": e.ops, "images_recovered": e.images, "images_inside_commit": e.inside,
	})
}

func TestRollupBookkeeping(t *testing.T) {
	thorough := os.Getenv("VERIF_TIER") == "thorough"
	rapid.Check(t, func(t *rapid.T) { runRollupBookkeeping(t, thorough) })
}
