package c01

// TestFamilyIdentity: how families come into existence.
//
// TestCrashRecovery creates its families with one fresh FamilyOption (no id) in one store. Real
// callers are more varied (read: kv/store.go CreateFamily/GetFamily, kv/family_rollup.go,
// tsdb/segment.go GetOrCreateDataFamily, index/metric_*_database.go):
//
//   - tsdb creates data families lazily by name with a fresh option {Merger, CompactThreshold}
//     (GetFamily first, CreateFamily when nil) and re-gets them after a restart;
//   - the index/meta databases call CreateFamily(name, fresh option) on EVERY open, i.e. on names
//     that already exist (CreateFamily of an existing name returns the existing family);
//   - the rollup job creates its target families with the option OF THE SOURCE FAMILY
//     (targetStore.CreateFamily(strconv.Itoa(tFamilyTime), f.option)): that option is what the
//     source store has stored for the source family, so Name, ID, Merger, CompactThreshold,
//     RollupThreshold and MaxFileSize are all pre-set, Name/ID being those of ANOTHER family,
//     usually of ANOTHER store; one source family rolls up into several target stores (the same
//     option value is used for several new families);
//   - several stores live in one process (kv.StoreManager): families of equal names and equal
//     ids exist in different stores (tsdb lays every shard/segment out the same way).
//
// The manifest identifies the owner of a record by the family id alone (version_set.go
// familyIDs), the directory of a family is <store>/<name>. Identity of a family (name, id,
// directory) across reopen / crash recovery is therefore part of "every family shows exactly
// the content of its committed flushes".
//
// History: 1-2 stores (tsdb-like paths with EQUAL segment names), createFamily with option
// variants (fresh | copy of a family of the same store: id already taken | copy of a family of
// the other store | the option value of the previous creation once more) on a new or on an
// existing name, flush, compact, obsolete-file pass, reopen (one store / all; families re-got by
// GetFamily, by CreateFamily with a fresh option, or by CreateFamily with a copied option), crash
// (recover images of the whole root = all stores).
//
// Oracle: the reference model per (store, family) as in TestCrashRecovery (live store after every
// operation, recovered image = state before or after the single operation in flight, untouched
// families = state before), plus identity:
//   - CreateFamily(name) returns a family called name; on an existing name the existing family
//     (same id, same content, nothing changes on disk that recovery could notice);
//   - families of one store never share a family id, live and recovered; a family keeps its id
//     across reopen and recovery;
//   - every table created by a flush/compaction of a family is created in <store>/<family>, under
//     a number no referenced table of that store holds; every table a version references is a
//     file of the family's own directory, live and recovered;
//   - recovery never deletes a table that the family references in both legal outcomes of the
//     operation in flight (recovery runs the obsolete-file pass of EVERY family);
//   - life after recovery: flushes into every recovered family, a further family created from a
//     copied option, compaction, then a SECOND close + open: identity damage typically shows one
//     restart later than the session that caused it.

import (
	"fmt"
	"os"
	"path/filepath"
	"sort"
	"strconv"
	"strings"
	"testing"
	"time"

	"github.com/lindb/common/pkg/ltoml"
	"pgregory.net/rapid"

	"github.com/lindb/lindb/kv"
	"github.com/lindb/lindb/kv/table"
	"github.com/lindb/lindb/kv/version"
	"github.com/lindb/lindb/verifharness/sim/crash"
	"github.com/lindb/lindb/verifharness/sim/ev"
	"github.com/lindb/lindb/verifharness/sim/kvsim"
)

const (
	idGroup        = "TestFamilyIdentity"
	idMaxFamilies  = 4
	idImageStride  = 2
	idImagesPerAct = 8
)

// names as callers use them: tsdb family times (hour of day / day of month ...) and the fixed
// names of the index databases. Both stores draw from the same pool: equal names are the rule.
var idNamePool = []string{"0", "7", "12", "23", "series", "forward"}

// idFam is the model of one family.
type idFam struct {
	*famModel
	id      int             // the id the family got when it was created
	opt     kv.FamilyOption // the option callers were given + what the store must have filled in (Name, ID)
	passed  kv.FamilyOption // the option value the creating call passed
	variant string          // how it was created
	carried bool            // created with an option that already carried an id (and a foreign name)
}

type idModel map[int]map[string]*idFam // store index -> family name -> family

func (m idModel) clone() idModel {
	out := idModel{}
	for s, fams := range m {
		out[s] = map[string]*idFam{}
		for n, f := range fams {
			c := *f
			c.famModel = f.famModel.clone()
			out[s][n] = &c
		}
	}
	return out
}

func (m idModel) names(s int) []string {
	var out []string
	for n := range m[s] {
		out = append(out, n)
	}
	sort.Strings(out)
	return out
}

type idStore struct {
	idx   int
	rel   string // below the imaged root
	path  string
	opt   kv.StoreOption
	store kv.Store
	fams  map[string]kv.Family
}

type idOp struct {
	Name   string `json:"op"`
	Store  int    `json:"store"`
	Family string `json:"family,omitempty"`
	Detail string `json:"detail,omitempty"`
}

type idRefs map[int]map[string]map[int64]bool // store -> family -> referenced table numbers

type idEnv struct {
	t        *rapid.T
	dir      string
	root     string
	stores   []*idStore
	im       *crash.Imager
	states   []idModel // states[i] = committed model before history operation i
	refs     []idRefs  // refs[i] = referenced tables before history operation i
	cur      idModel
	ops      []idOp
	atom     uint32
	thorough bool
	phase    int

	lastOpt *kv.FamilyOption // option value of the previous creating CreateFamily

	// tables created (tableCreate seam) while a checked operation is in flight
	trackDir string // "" = not checked, else the only directory tables may be created in
	created  []string

	classes map[string]int
	labels  map[string]bool

	imagesChecked, insideCommit, identityObserved int
	ntHashes                                      []string
}

func (e *idEnv) fatalf(format string, args ...any) {
	e.t.Helper()
	e.t.Fatalf(format+"\nhistory: %+v", append(args, e.ops)...)
}

func (e *idEnv) hook(op, path string, before bool) {
	if op == "tableCreate" && before {
		e.created = append(e.created, path)
	}
	e.im.Hook(op, path, before)
}

// liveRefs: which tables the current versions of the live families reference.
func (e *idEnv) liveRefs() idRefs {
	out := idRefs{}
	for _, st := range e.stores {
		out[st.idx] = map[string]map[int64]bool{}
		if st.store == nil {
			continue
		}
		for n, f := range st.fams {
			set := map[int64]bool{}
			snap := f.GetSnapshot()
			for _, fm := range snap.GetCurrent().GetAllFiles() {
				set[fm.GetFileNumber().Int64()] = true
			}
			snap.Close()
			out[st.idx][n] = set
		}
	}
	return out
}

func (e *idEnv) begin(name string, store int, family, detail string) {
	e.states = append(e.states, e.cur.clone())
	e.refs = append(e.refs, e.liveRefs())
	e.ops = append(e.ops, idOp{Name: name, Store: store, Family: family, Detail: detail})
	e.created = e.created[:0]
	if !e.thorough {
		e.phase = rapid.IntRange(0, idImageStride-1).Draw(e.t, "imagePhase")
	}
	e.im.Begin(len(e.ops)-1, name)
}

// end closes the operation. A flush / compaction of family fam of store s (checked=true) may only
// create tables in the directory of that family and only under numbers nobody in the store holds.
func (e *idEnv) end(checked bool, s int, fam string) {
	e.im.End()
	if !checked {
		return
	}
	st := e.stores[s]
	want := filepath.Join(st.path, fam)
	held := map[int64]string{}
	for n, set := range e.refs[len(e.refs)-1][s] {
		for num := range set {
			held[num] = n
		}
	}
	for _, p := range e.created {
		if filepath.Dir(p) != want {
			e.fatalf("operation %d (%s of family %s of store %d): a table is created as %s, outside the directory of the family (%s)",
				len(e.ops)-1, e.ops[len(e.ops)-1].Name, fam, s, p, want)
		}
		num, err := strconv.ParseInt(strings.TrimSuffix(filepath.Base(p), ".sst"), 10, 64)
		if err != nil {
			continue
		}
		if owner, ok := held[num]; ok {
			e.fatalf("operation %d (%s of family %s of store %d): new table %s takes file number %d, still held by a table referenced by family %s",
				len(e.ops)-1, e.ops[len(e.ops)-1].Name, fam, s, p, num, owner)
		}
		held[num] = fam + " (created earlier in the same operation)"
	}
}

func (e *idEnv) openStore(st *idStore) {
	s, err := kv.GetStoreManager().CreateStore(st.path, st.opt)
	if err != nil {
		e.fatalf("open store %d (%s): %v", st.idx, st.rel, err)
	}
	st.store = s
	st.fams = map[string]kv.Family{}
}

func (e *idEnv) closeStore(st *idStore) {
	if st.store != nil {
		if err := kv.GetStoreManager().CloseStore(st.path); err != nil {
			e.fatalf("close store %d: %v", st.idx, err)
		}
		st.store, st.fams = nil, map[string]kv.Family{}
	}
}

// optionOf: the option a caller holding the family would pass on (family_rollup.go passes
// f.option = what the store keeps for the family: the creation option with Name and ID filled in).
func (e *idEnv) optionOf(s int, name string) kv.FamilyOption {
	o := e.cur[s][name].opt
	f := e.stores[s].fams[name]
	o.Name, o.ID = f.Name(), int(f.ID())
	return o
}

// ---- operations ------------------------------------------------------------------------------

func (e *idEnv) pickStore() int {
	if len(e.stores) == 1 {
		return 0
	}
	return rapid.IntRange(0, len(e.stores)-1).Draw(e.t, "store")
}

func (e *idEnv) pickFamily() (int, string) {
	var withFams []int
	for _, st := range e.stores {
		if len(e.cur[st.idx]) > 0 {
			withFams = append(withFams, st.idx)
		}
	}
	if len(withFams) == 0 {
		e.t.Skip("no family")
	}
	s := rapid.SampledFrom(withFams).Draw(e.t, "store")
	names := e.cur.names(s)
	// families that came from an id-carrying option are the point of this test
	var pool []string
	for _, n := range names {
		pool = append(pool, n)
		if e.cur[s][n].carried {
			pool = append(pool, n)
		}
	}
	return s, rapid.SampledFrom(pool).Draw(e.t, "family")
}

func (e *idEnv) freshOption() kv.FamilyOption {
	return kv.FamilyOption{
		Merger:           kvsim.MergerName,
		CompactThreshold: rapid.SampledFrom([]int{0, 0, 1, 2, 3}).Draw(e.t, "compactThreshold"),
		RollupThreshold:  rapid.SampledFrom([]int{0, 0, 3}).Draw(e.t, "rollupThreshold"),
		MaxFileSize:      rapid.SampledFrom([]uint32{0, 0, 24, 64, 1 << 20}).Draw(e.t, "maxFileSize"),
	}
}

// drawOption draws the option of a CreateFamily call on store s.
func (e *idEnv) drawOption(s int) (kv.FamilyOption, string) {
	variants := []string{"fresh"}
	if len(e.cur[s]) > 0 {
		variants = append(variants, "copy-same-store", "copy-same-store")
	}
	other := -1
	if len(e.stores) == 2 && len(e.cur[1-s]) > 0 {
		other = 1 - s
		variants = append(variants, "copy-other-store", "copy-other-store", "copy-other-store")
	}
	if e.lastOpt != nil {
		variants = append(variants, "reuse-previous-option", "reuse-previous-option")
	}
	switch v := rapid.SampledFrom(variants).Draw(e.t, "optionVariant"); v {
	case "copy-same-store":
		return e.optionOf(s, rapid.SampledFrom(e.cur.names(s)).Draw(e.t, "sourceFamily")), v
	case "copy-other-store":
		return e.optionOf(other, rapid.SampledFrom(e.cur.names(other)).Draw(e.t, "sourceFamily")), v
	case "reuse-previous-option":
		return *e.lastOpt, v
	default:
		return e.freshOption(), v
	}
}

func (e *idEnv) idTaken(s, id int) bool {
	for _, f := range e.cur[s] {
		if f.id == id {
			return true
		}
	}
	return false
}

func (e *idEnv) opCreateFamily() {
	s := e.pickStore()
	st := e.stores[s]
	existing := len(e.cur[s]) > 0 && rapid.IntRange(0, 3).Draw(e.t, "existingName") == 0
	var name string
	if existing {
		name = rapid.SampledFrom(e.cur.names(s)).Draw(e.t, "name")
	} else {
		if len(e.cur[s]) >= idMaxFamilies {
			e.t.Skip("enough families")
		}
		var free []string
		for _, n := range idNamePool {
			if _, ok := e.cur[s][n]; !ok {
				free = append(free, n)
			}
		}
		// tsdb: the same family time exists in every shard/segment: prefer a name the other store has
		if len(e.stores) == 2 {
			for _, n := range e.cur.names(1 - s) {
				if _, ok := e.cur[s][n]; !ok {
					free = append(free, n, n)
				}
			}
		}
		name = rapid.SampledFrom(free).Draw(e.t, "name")
	}
	opt, variant := e.drawOption(s)
	e.begin("createFamily", s, name, fmt.Sprintf("existing=%v variant=%s option=%+v", existing, variant, opt))
	f, err := st.store.CreateFamily(name, opt)
	e.end(false, 0, "")
	if err != nil {
		e.fatalf("CreateFamily(%s, %+v) on store %d: %v", name, opt, s, err)
	}
	if f.Name() != name {
		e.fatalf("CreateFamily(%s, %+v) on store %d returns a family called %q", name, opt, s, f.Name())
	}
	if g := st.store.GetFamily(name); g == nil || g.ID() != f.ID() || g.Name() != name {
		e.fatalf("store %d: GetFamily(%s) after CreateFamily(%s, %+v) = %v, created family has id %d", s, name, name, opt, g, f.ID())
	}
	carriesID := opt.ID != 0
	if existing {
		old := e.cur[s][name]
		if int(f.ID()) != old.id {
			e.fatalf("store %d: CreateFamily(%s, %+v) on an existing family returns id %d, the family has id %d", s, name, opt, f.ID(), old.id)
		}
		st.fams[name] = f
		e.classes["create-existing-name"]++
		e.classes["create-existing-name/"+variant]++
		e.labels["hist-create-existing-name"] = true
		return // lastOpt: only creating calls count ("the same option for two new families")
	}
	for n, o := range e.cur[s] {
		if o.id == int(f.ID()) {
			e.fatalf("store %d: new family %s (CreateFamily with %+v, variant %s) gets family id %d, which family %s of the same store already has: the manifest cannot tell their records apart",
				s, name, opt, variant, f.ID(), n)
		}
	}
	e.classes["create-new"]++
	e.classes["create-new/"+variant]++
	if carriesID {
		e.classes["create-new-option-carries-id"]++
		e.labels["hist-family-from-id-carrying-option"] = true
		if e.idTaken(s, opt.ID) {
			e.classes["create-new-option-id-taken-in-this-store"]++
			e.labels["hist-option-id-taken-in-target-store"] = true
		} else {
			e.classes["create-new-option-id-free-in-this-store"]++
			e.labels["hist-option-id-free-in-target-store"] = true
		}
		if e.lastOpt != nil && variant == "reuse-previous-option" {
			e.classes["create-new-same-id-carrying-option-twice"]++
			e.labels["hist-same-id-carrying-option-for-two-families"] = true
		}
		if opt.Name != name {
			e.classes["create-new-option-carries-foreign-name"]++
		}
	}
	stored := opt
	stored.Name, stored.ID = name, int(f.ID())
	st.fams[name] = f
	e.cur[s][name] = &idFam{famModel: &famModel{content: kvsim.Content{}, seqs: map[int32]int64{}},
		id: int(f.ID()), opt: stored, passed: opt, variant: variant, carried: carriesID}
	if len(e.stores) == 2 {
		if o, ok := e.cur[1-s][name]; ok {
			e.classes["two-stores-equal-family-name"]++
			if o.id == int(f.ID()) {
				e.classes["two-stores-equal-family-name-and-id"]++
			} else {
				e.classes["two-stores-equal-family-name-different-id"]++
			}
		}
	}
	lo := opt
	e.lastOpt = &lo
}

func (e *idEnv) drawKeys(min, max int) ([]uint32, []bool) {
	n := rapid.IntRange(min, max).Draw(e.t, "nKeys")
	set := map[uint32]bool{}
	for i := 0; i < n; i++ {
		set[rapid.SampledFrom(keyUniverse).Draw(e.t, "key")] = true
	}
	keys := make([]uint32, 0, len(set))
	for k := range set {
		keys = append(keys, k)
	}
	sort.Slice(keys, func(i, j int) bool { return keys[i] < keys[j] })
	modes := make([]bool, len(keys))
	for i := range modes {
		modes[i] = rapid.Bool().Draw(e.t, "stream")
	}
	return keys, modes
}

func (e *idEnv) opFlush() {
	s, name := e.pickFamily()
	f := e.stores[s].fams[name]
	keys, modes := e.drawKeys(1, 8)
	useSeq := rapid.IntRange(0, 3).Draw(e.t, "useSeq") == 0
	var leader int32
	var seq int64
	if useSeq {
		leader = int32(rapid.IntRange(1, 2).Draw(e.t, "leader"))
		seq = e.cur[s][name].seqs[leader] + int64(rapid.IntRange(1, 5).Draw(e.t, "seqDelta"))
	}
	e.atom++
	atom := e.atom
	e.begin("flush", s, name, fmt.Sprintf("keys=%v atom=%d seq=%v/%d:%d", keys, atom, useSeq, leader, seq))
	fl := f.NewFlusher()
	err := addKeys(fl, keys, modes, atom)
	if err == nil {
		if useSeq {
			fl.Sequence(leader, seq)
		}
		err = fl.Commit()
	}
	fl.Release()
	e.end(true, s, name)
	if err != nil {
		e.fatalf("flush of family %s of store %d failed: %v", name, s, err)
	}
	m := e.cur[s][name]
	for _, k := range keys {
		m.content.AddAtom(k, atom)
	}
	if useSeq {
		m.seqs[leader] = seq
	}
	e.classes["flush"]++
	if m.carried {
		e.classes["flush-into-family-from-id-carrying-option"]++
	}
}

func (e *idEnv) opCompact() {
	s, name := e.pickFamily()
	force := rapid.Bool().Draw(e.t, "force")
	e.begin("compact", s, name, fmt.Sprintf("force=%v", force))
	ran, err := kv.VerifCompactSync(e.stores[s].fams[name], force)
	e.end(true, s, name)
	if err != nil {
		e.fatalf("compaction of family %s of store %d failed: %v", name, s, err)
	}
	if ran {
		e.classes["compact-ran"]++
		if e.cur[s][name].carried {
			e.classes["compact-ran-in-family-from-id-carrying-option"]++
		}
	}
}

func (e *idEnv) opCleanup() {
	s, name := e.pickFamily()
	e.begin("deleteObsolete", s, name, "")
	kv.VerifDeleteObsoleteFiles(e.stores[s].fams[name])
	e.end(false, 0, "")
	e.classes["deleteObsolete"]++
}

// reget fetches the families of a freshly opened store the way callers do.
func (e *idEnv) reget(st *idStore, style string) {
	s := st.idx
	for _, n := range e.cur.names(s) {
		var f kv.Family
		var err error
		switch style {
		case "getFamily": // tsdb segment.getOrLoadFamily / GetOrCreateDataFamily
			f = st.store.GetFamily(n)
		case "createFresh": // index / meta databases: CreateFamily(name, fresh option) on every open
			f, err = st.store.CreateFamily(n, kv.FamilyOption{Merger: kvsim.MergerName})
		default: // rollup job after a restart: target family exists, option of a source family
			opt := e.cur[s][n].opt
			if len(e.stores) == 2 && len(e.cur[1-s]) > 0 {
				names := e.cur.names(1 - s)
				opt = e.cur[1-s][names[len(names)-1]].opt
			}
			f, err = st.store.CreateFamily(n, opt)
		}
		if err != nil {
			e.fatalf("store %d after reopen: CreateFamily(%s) of the existing family: %v", s, n, err)
		}
		if f == nil {
			e.fatalf("store %d: family %s missing after reopen", s, n)
		}
		st.fams[n] = f
	}
}

func (e *idEnv) opReopen() {
	which := -1 // all
	if len(e.stores) == 2 && rapid.Bool().Draw(e.t, "oneStore") {
		which = rapid.IntRange(0, 1).Draw(e.t, "store")
	}
	style := rapid.SampledFrom([]string{"getFamily", "getFamily", "createFresh", "createCopied"}).Draw(e.t, "regetStyle")
	e.begin("reopen", which, "", "reget="+style)
	for _, st := range e.stores {
		if which >= 0 && st.idx != which {
			continue
		}
		e.closeStore(st)
		e.openStore(st)
		e.reget(st, style)
		for _, f := range e.cur[st.idx] {
			if f.carried && len(f.content) > 0 {
				e.identityObserved++
				e.classes["reopen-with-data-in-family-from-id-carrying-option"]++
				break
			}
		}
	}
	e.end(false, 0, "")
	e.classes["reopen"]++
	e.classes["reopen-reget/"+style]++
}

// ---- oracle ----------------------------------------------------------------------------------

func sstNumbers(dir string) map[int64]bool {
	out := map[int64]bool{}
	ents, err := os.ReadDir(dir)
	if err != nil {
		return out
	}
	for _, en := range ents {
		if strings.HasSuffix(en.Name(), ".sst") {
			if n, err := strconv.ParseInt(strings.TrimSuffix(en.Name(), ".sst"), 10, 64); err == nil {
				out[n] = true
			}
		}
	}
	return out
}

func sortedNums(m map[int64]bool) []int64 {
	out := make([]int64, 0, len(m))
	for n := range m {
		out = append(out, n)
	}
	sort.Slice(out, func(i, j int) bool { return out[i] < out[j] })
	return out
}

// checkFamilies checks identity and content of the families of one open store against a model;
// what = "live store 0" / "image ... store 1".
func (e *idEnv) checkIdentity(what, storePath string, s kv.Store, fams map[string]kv.Family) {
	byID := map[version.FamilyID]string{}
	var names []string
	for n := range fams {
		names = append(names, n)
	}
	sort.Strings(names)
	for _, n := range names {
		f := fams[n]
		if f.Name() != n {
			e.fatalf("%s: the family registered as %s calls itself %q", what, n, f.Name())
		}
		if o, ok := byID[f.ID()]; ok {
			e.fatalf("%s: families %s and %s share family id %d", what, o, n, f.ID())
		}
		byID[f.ID()] = n
		snap := f.GetSnapshot()
		var missing []string
		for _, fm := range snap.GetCurrent().GetAllFiles() {
			p := filepath.Join(storePath, n, version.Table(fm.GetFileNumber()))
			if _, err := os.Stat(p); err != nil {
				missing = append(missing, fmt.Sprintf("%s/%s", n, version.Table(fm.GetFileNumber())))
			}
		}
		snap.Close()
		if len(missing) > 0 {
			e.fatalf("%s: family %s references tables that are not files of its directory: %v (directory holds %v)",
				what, n, missing, sortedNums(sstNumbers(filepath.Join(storePath, n))))
		}
	}
}

func (e *idEnv) checkLive() {
	for _, st := range e.stores {
		s := st.idx
		got := st.store.ListFamilyNames()
		sort.Strings(got)
		if want := e.cur.names(s); fmt.Sprint(got) != fmt.Sprint(want) {
			e.fatalf("live store %d: ListFamilyNames = %v, created families: %v", s, got, want)
		}
		e.checkIdentity(fmt.Sprintf("live store %d", s), st.path, st.store, st.fams)
		for _, n := range e.cur.names(s) {
			f, m := st.fams[n], e.cur[s][n]
			if f == nil {
				e.fatalf("harness: no handle for family %s of store %d", n, s)
			}
			if int(f.ID()) != m.id {
				e.fatalf("live store %d: family %s has id %d, it was created with id %d", s, n, f.ID(), m.id)
			}
			got, err := kvsim.ReadFamily(f, keyUniverse)
			if err != nil {
				e.fatalf("live store %d, family %s: %v", s, n, err)
			}
			if !m.content.Equal(got) {
				e.fatalf("live store %d, family %s (id %d, %s) differs from model:%s", s, n, m.id, m.variant, kvsim.Diff(m.content, got))
			}
			snap := f.GetSnapshot()
			seqs := snap.GetCurrent().GetSequences()
			snap.Close()
			if !seqEqual(seqs, m.seqs) {
				e.fatalf("live store %d, family %s: sequences %v, model %v", s, n, seqs, m.seqs)
			}
		}
	}
}

// recoverImage opens every store of the image through the production open path.
func (e *idEnv) recoverImage(p crash.Point, deep bool) {
	before := e.states[p.OpIdx]
	after, refsAfter := e.cur, idRefs(nil)
	if p.OpIdx+1 < len(e.states) {
		after, refsAfter = e.states[p.OpIdx+1], e.refs[p.OpIdx+1]
	} else {
		refsAfter = e.liveRefs()
	}
	refsBefore := e.refs[p.OpIdx]
	op := e.ops[p.OpIdx]
	observed := false
	for _, st := range e.stores {
		s := st.idx
		if p.OpIdx < s {
			continue // the store is created by a later operation
		}
		imgPath := filepath.Join(p.Dir, st.rel)
		what := fmt.Sprintf("image %s, store %d", p, s)
		// tables every legal outcome references: recovery (and whatever ran before the image) must leave them alone
		committed := map[string]map[int64]bool{}
		for n := range before[s] {
			set := map[int64]bool{}
			for num := range refsBefore[s][n] {
				if refsAfter[s][n][num] {
					set[num] = true
				}
			}
			committed[n] = set
			onDisk := sstNumbers(filepath.Join(imgPath, n))
			for _, num := range sortedNums(set) {
				if !onDisk[num] {
					e.fatalf("%s: table %s/%06d.sst, referenced before and after the operation in flight, is not in the image", what, n, num)
				}
			}
		}
		rs, err := kv.GetStoreManager().CreateStore(imgPath, st.opt)
		if err != nil {
			e.fatalf("%s: store cannot be reopened: %v", what, err)
		}
		closed := false
		closeIt := func() {
			if !closed {
				closed = true
				_ = kv.GetStoreManager().CloseStore(imgPath)
			}
		}
		defer closeIt()
		for _, n := range before.names(s) {
			onDisk := sstNumbers(filepath.Join(imgPath, n))
			for _, num := range sortedNums(committed[n]) {
				if !onDisk[num] {
					e.fatalf("%s: recovery deleted table %s/%06d.sst, which family %s references in every legal outcome (operation in flight: %s of family %q of store %d)",
						what, n, num, n, op.Name, op.Family, op.Store)
				}
			}
		}
		listed := rs.ListFamilyNames()
		sort.Strings(listed)
		for _, n := range listed {
			if _, ok := after[s][n]; !ok {
				e.fatalf("%s: recovered store lists family %q, which was never created (created: %v)", what, n, after.names(s))
			}
		}
		recovered := map[string]kv.Family{}
		for _, n := range after.names(s) {
			afm := after[s][n]
			_, existedBefore := before[s][n]
			f := rs.GetFamily(n)
			if f == nil {
				if existedBefore {
					e.fatalf("%s: family %s vanished", what, n)
				}
				continue // creation in flight
			}
			recovered[n] = f
			if int(f.ID()) != afm.id {
				e.fatalf("%s: family %s comes back with id %d, it was created with id %d", what, n, f.ID(), afm.id)
			}
		}
		e.checkIdentity(what, imgPath, rs, recovered)
		for _, n := range after.names(s) {
			f, ok := recovered[n]
			if !ok {
				continue
			}
			afm := after[s][n]
			bfm, existedBefore := before[s][n]
			snap := f.GetSnapshot()
			content, err := kvsim.ReadSnapshot(snap, keyUniverse)
			seqs := snap.GetCurrent().GetSequences()
			snap.Close()
			if err != nil {
				e.fatalf("%s: family %s (id %d, %s) unreadable after recovery: %v", what, n, afm.id, afm.variant, err)
			}
			okAfter := matches(afm.famModel, content, seqs)
			okBefore := existedBefore && matches(bfm.famModel, content, seqs)
			if !existedBefore {
				okBefore = len(content) == 0 && len(seqs) == 0
			}
			touched := op.Family == n && op.Store == s
			if !touched && existedBefore {
				if !okBefore {
					e.fatalf("%s: family %s (id %d, %s; not touched by the operation in flight: %s of %q of store %d) differs from its committed state:%s seqs=%v want=%v",
						what, n, afm.id, afm.variant, op.Name, op.Family, op.Store, kvsim.Diff(bfm.content, content), seqs, bfm.seqs)
				}
			} else if !okBefore && !okAfter {
				var bc kvsim.Content
				if existedBefore {
					bc = bfm.content
				}
				e.fatalf("%s: family %s (id %d, %s) is neither the state before nor after the operation in flight.\n vs before:%s\n vs after:%s\n seqs=%v",
					what, n, afm.id, afm.variant, kvsim.Diff(bc, content), kvsim.Diff(afm.content, content), seqs)
			}
			if afm.carried && len(content) > 0 {
				observed = true
			}
		}
		if deep {
			e.lifeAfterRecovery(p, st, imgPath, rs, recovered, after, op)
			closed = true // lifeAfterRecovery closes the store itself
		}
		closeIt()
	}
	if observed {
		e.identityObserved++
		e.classes["img-with-data-in-family-from-id-carrying-option"]++
	}
}

// lifeAfterRecovery keeps working on a recovered store and restarts it once more.
func (e *idEnv) lifeAfterRecovery(p crash.Point, st *idStore, imgPath string, rs kv.Store, recovered map[string]kv.Family, after idModel, op idOp) {
	what := fmt.Sprintf("image %s, store %d, life after recovery", p, st.idx)
	defer func() { _ = kv.GetStoreManager().CloseStore(imgPath) }()
	var names []string
	expect := map[string]kvsim.Content{}
	ids := map[string]version.FamilyID{}
	for n, f := range recovered {
		names = append(names, n)
		c, err := kvsim.ReadFamily(f, keyUniverse)
		if err != nil {
			e.fatalf("%s: family %s: %v", what, n, err)
		}
		expect[n] = c
		ids[n] = f.ID()
	}
	sort.Strings(names)
	if m, ok := after[st.idx][op.Family]; ok && op.Name == "createFamily" && op.Store == st.idx && recovered[op.Family] == nil {
		// the creation in flight did not survive: after the restart the caller creates the family again
		// (tsdb GetOrCreateDataFamily on the next write, the rollup job on its next run)
		rf, err := rs.CreateFamily(op.Family, m.passed)
		if err != nil {
			e.fatalf("%s: CreateFamily(%s, %+v) once more after the crash inside its creation: %v", what, op.Family, m.passed, err)
		}
		if rf.Name() != op.Family {
			e.fatalf("%s: CreateFamily(%s, %+v) once more after the crash inside its creation returns a family called %q", what, op.Family, m.passed, rf.Name())
		}
		for _, n := range names {
			if ids[n] == rf.ID() {
				e.fatalf("%s: family %s created once more after the crash inside its creation gets family id %d of family %s", what, op.Family, rf.ID(), n)
			}
		}
		recovered[op.Family], expect[op.Family], ids[op.Family] = rf, kvsim.Content{}, rf.ID()
		names = append(names, op.Family)
		sort.Strings(names)
		e.classes["life-after-recovery-lost-creation-repeated"]++
	}
	// one more family, created the way the rollup job does it: from the option of a recovered family
	extra := "31"
	opt := kv.FamilyOption{Merger: kvsim.MergerName}
	if len(names) > 0 {
		src := names[len(names)-1]
		opt = after[st.idx][src].opt
		opt.Name, opt.ID = src, int(recovered[src].ID())
	}
	nf, err := rs.CreateFamily(extra, opt)
	if err != nil {
		e.fatalf("%s: CreateFamily(%s, %+v): %v", what, extra, opt, err)
	}
	if nf.Name() != extra {
		e.fatalf("%s: CreateFamily(%s, %+v) returns a family called %q", what, extra, opt, nf.Name())
	}
	for _, n := range names {
		if ids[n] == nf.ID() {
			e.fatalf("%s: family %s created after recovery (option %+v) gets family id %d of the recovered family %s", what, extra, opt, nf.ID(), n)
		}
	}
	recovered[extra], expect[extra], ids[extra] = nf, kvsim.Content{}, nf.ID()
	names = append(names, extra)
	sort.Strings(names)
	held := map[int64]string{}
	for _, n := range names {
		snap := recovered[n].GetSnapshot()
		for _, fm := range snap.GetCurrent().GetAllFiles() {
			held[fm.GetFileNumber().Int64()] = n
		}
		snap.Close()
	}
	for round := 0; round < 2; round++ {
		for i, n := range names {
			atom := uint32(1<<30) + uint32(round*16+i)
			e.created = e.created[:0]
			fl := recovered[n].NewFlusher()
			keys := []uint32{1, 2, 65536}
			var err error
			for _, k := range keys {
				if err = fl.Add(k, kvsim.Encode(map[uint32]bool{atom: true})); err != nil {
					break
				}
			}
			if err == nil {
				err = fl.Commit()
			}
			fl.Release()
			if err != nil {
				e.fatalf("%s: flush of family %s failed: %v", what, n, err)
			}
			for _, k := range keys {
				expect[n].AddAtom(k, atom)
			}
			for _, cp := range e.created {
				if filepath.Dir(cp) != filepath.Join(imgPath, n) {
					e.fatalf("%s: the table of a flush of family %s is created as %s", what, n, cp)
				}
				num, perr := strconv.ParseInt(strings.TrimSuffix(filepath.Base(cp), ".sst"), 10, 64)
				if perr != nil {
					continue
				}
				if owner, ok := held[num]; ok {
					e.fatalf("%s: table created after recovery reuses number %d still referenced by family %s", what, num, owner)
				}
				held[num] = n
			}
		}
	}
	for _, n := range names {
		if _, err := kv.VerifCompactSync(recovered[n], true); err != nil {
			e.fatalf("%s: compaction of %s failed: %v", what, n, err)
		}
		kv.VerifDeleteObsoleteFiles(recovered[n])
	}
	verify := func(when string, s kv.Store) {
		fams := map[string]kv.Family{}
		for _, n := range names {
			f := s.GetFamily(n)
			if f == nil {
				e.fatalf("%s, %s: family %s vanished", what, when, n)
			}
			if f.ID() != ids[n] {
				e.fatalf("%s, %s: family %s has id %d, before it had id %d", what, when, n, f.ID(), ids[n])
			}
			fams[n] = f
		}
		e.checkIdentity(what+", "+when, imgPath, s, fams)
		for _, n := range names {
			got, err := kvsim.ReadFamily(fams[n], keyUniverse)
			if err != nil {
				e.fatalf("%s, %s: family %s unreadable: %v", what, when, n, err)
			}
			if !expect[n].Equal(got) {
				e.fatalf("%s, %s: family %s lost/changed content:%s", what, when, n, kvsim.Diff(expect[n], got))
			}
		}
	}
	verify("after flushes + compaction", rs)
	if err := kv.GetStoreManager().CloseStore(imgPath); err != nil {
		e.fatalf("%s: close: %v", what, err)
	}
	rs2, err := kv.GetStoreManager().CreateStore(imgPath, st.opt)
	if err != nil {
		e.fatalf("%s: second restart: store cannot be reopened: %v", what, err)
	}
	verify("after the second restart", rs2)
	e.classes["life-after-recovery"]++
}

func (e *idEnv) crashCheck() {
	var pts []crash.Point
	for _, p := range e.im.Points {
		if p.Dir != "" {
			pts = append(pts, p)
		}
	}
	e.classes["fs-points"] += len(e.im.Points)
	e.classes["fs-points-imaged"] += len(pts)
	if len(pts) == 0 {
		e.im.Drop()
		return
	}
	var chosen []int
	if e.thorough || len(pts) <= idImagesPerAct {
		for i := range pts {
			chosen = append(chosen, i)
		}
	} else {
		seen := map[int]bool{}
		for len(chosen) < idImagesPerAct {
			i := rapid.IntRange(0, len(pts)-1).Draw(e.t, "image")
			if !seen[i] {
				seen[i] = true
				chosen = append(chosen, i)
			}
		}
		sort.Ints(chosen)
	}
	for j, i := range chosen {
		p := pts[i]
		e.recoverImage(p, (e.thorough && j%2 == 0) || j%3 == 0)
		e.imagesChecked++
		if insideCommit(p) {
			e.insideCommit++
			e.ntHashes = append(e.ntHashes, p.String())
		}
		e.classes["img-"+p.OpName]++
		if p.OpName == "createFamily" {
			e.classes["img-createFamily@"+p.FSOp]++
		}
	}
	e.im.Drop()
}

// ---- property --------------------------------------------------------------------------------

func runIdentityHistory(t *rapid.T, thorough bool) {
	kvsim.Register()
	dir, err := os.MkdirTemp("", "c01id-")
	if err != nil {
		t.Fatalf("harness: %v", err)
	}
	e := &idEnv{t: t, dir: dir, root: filepath.Join(dir, "root"), cur: idModel{}, thorough: thorough,
		classes: map[string]int{}, labels: map[string]bool{}}
	nStores := rapid.SampledFrom([]int{1, 2, 2}).Draw(t, "stores")
	for i := 0; i < nStores; i++ {
		// tsdb layout: <db>/shard/<id>/segment/day/<segment name>: the segment name is the same in every shard
		rel := filepath.Join("db", "shard", strconv.Itoa(i+1), "segment", "day", "20190704")
		e.stores = append(e.stores, &idStore{idx: i, rel: rel, path: filepath.Join(e.root, rel), fams: map[string]kv.Family{},
			opt: kv.StoreOption{Levels: rapid.IntRange(2, 3).Draw(t, "levels"), TTL: ltoml.Duration(time.Hour)}})
		e.cur[i] = map[string]*idFam{}
	}
	if err := os.MkdirAll(e.root, 0o755); err != nil {
		t.Fatalf("harness: %v", err)
	}
	e.im = &crash.Imager{Root: e.root, OutDir: filepath.Join(dir, "img")}
	if !thorough {
		e.im.Want = func(p crash.Point) bool { return p.Seq%idImageStride == e.phase }
	}
	kv.VerifSetFSHook(e.hook)
	version.VerifSetFSHook(version.VerifFSHook(e.hook))
	table.VerifSetFSHook(table.VerifFSHook(e.hook))
	defer func() {
		e.im.Active = false
		kv.VerifSetFSHook(nil)
		version.VerifSetFSHook(nil)
		table.VerifSetFSHook(nil)
		for _, st := range e.stores {
			_ = kv.GetStoreManager().CloseStore(st.path)
		}
		for _, s := range kv.GetStoreManager().GetStores() {
			if strings.HasPrefix(s.Path(), dir) {
				_ = kv.GetStoreManager().CloseStore(s.Name())
			}
		}
		_ = os.RemoveAll(dir)
	}()

	for _, st := range e.stores {
		e.begin("createStore", st.idx, "", "")
		e.openStore(st)
		e.end(false, 0, "")
	}
	e.opCreateFamily()

	t.Repeat(map[string]func(*rapid.T){
		"createFamily":  func(t *rapid.T) { e.t = t; e.opCreateFamily() },
		"createFamily2": func(t *rapid.T) { e.t = t; e.opCreateFamily() },
		"flush":         func(t *rapid.T) { e.t = t; e.opFlush() },
		"flush2":        func(t *rapid.T) { e.t = t; e.opFlush() },
		"compact":       func(t *rapid.T) { e.t = t; e.opCompact() },
		"cleanup":       func(t *rapid.T) { e.t = t; e.opCleanup() },
		"reopen":        func(t *rapid.T) { e.t = t; e.opReopen() },
		"crash": func(t *rapid.T) {
			e.t = t
			if len(e.im.Points) == 0 {
				t.Skip("no pending images")
			}
			e.crashCheck()
		},
		"": func(t *rapid.T) { e.t = t; e.checkLive() },
	})
	e.t = t
	e.crashCheck()
	e.checkLive()

	var optsCanon []string
	for _, st := range e.stores {
		optsCanon = append(optsCanon, fmt.Sprint(st.opt.Levels))
	}
	canon := fmt.Sprintf("identity|%v|%+v", optsCanon, e.ops)
	if len(e.stores) == 2 {
		e.labels["hist-two-stores"] = true
	} else {
		e.labels["hist-one-store"] = true
	}
	var classes []string
	for l := range e.labels {
		classes = append(classes, l)
	}
	sort.Strings(classes)
	for c, n := range e.classes {
		ev.Class(idGroup, c, n)
	}
	// non-trivial: the history committed data into a family that was created from an option that
	// already carried an id, and a restart or a recovered crash image looked at that family afterwards
	nt := e.identityObserved > 0
	ev.Case(idGroup, canon, nt, classes, map[string]any{
		"stores": len(e.stores), "history": e.ops, "images_recovered": e.imagesChecked, "images_inside_commit": e.insideCommit,
		"restarts_or_images_over_families_from_id_carrying_options": e.identityObserved,
	})
	for _, h := range e.ntHashes {
		ev.Case("crash-points", canon+"|"+h, true, nil, nil)
	}
}

func TestFamilyIdentity(t *testing.T) {
	thorough := os.Getenv("VERIF_TIER") == "thorough"
	rapid.Check(t, func(t *rapid.T) { runIdentityHistory(t, thorough) })
}
