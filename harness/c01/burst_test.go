package c01

// TestCommitBurst: concurrent commits.
//
// TestCrashRecovery interleaves other jobs at the seams of ONE flusher commit (a helper that opens
// writers, obsolete-file passes, a parked compaction job); two COMMITS never race there. In
// production the flush commits of several families of one store, a flush commit and a compaction
// commit of the same family, and rollup commits run on goroutines of their own and queue on the
// version-set mutex (kv/version/version_set.go CommitFamilyEditLog, NextFileNumber).
//
// Operation "burst": 2-4 prepared flusher commits (tables written, Commit not yet called) of the
// same family / of different families and optionally a production level-0 compaction job of one of
// the families are started on goroutines of their own while another flusher commit of the store
// (the holder) sits at a generated manifestWrite|manifestSync (before|after) seam, i.e. holds the
// version-set mutex: they all queue on the lock and wake together when the holder's commit
// returns. Everything is joined; optionally a compaction + obsolete-file pass follows; then crash
// images / reopen as usual. A plain flush is a burst without members.
//
// Owning the file system while several goroutines run: every intercepted FS operation is a flat
// bracket (before-hook, operation, after-hook; no bracket contains another one). The harness holds
// one mutex from the before-hook to the after-hook, so at most one intercepted operation of the
// process is in flight at any time, and a directory image is copied inside a hook, i.e. while no
// other goroutine is inside a file-system operation: every image is the on-disk state at one
// instant between two FS operations (process-crash model). The holder gives the mutex up while it
// waits at its seam.
// Serialising the FS operations (and copying images inside them) stretches the distance between
// the commits, so every other burst is "free-running": from the holder's Commit to the join the
// hooks neither serialise nor copy (real parallelism between the commits); images of such an
// operation come from the preparation and from the tail only.
//
// Oracle (independent of the order the scheduler picks; the union merger makes content
// independent of how commits and compactions interleave):
//   - every Commit of a burst returns nil; after the join a FRESH snapshot of every family shows
//     the model with all commits of the burst applied, and every table the current version
//     references is a file of the family directory; the same after the optional tail;
//   - a recovered image of the operation shows, per family, the content before the operation plus
//     a SUBSET of the operation's commits, each entirely or not at all, and every commit whose
//     Commit had returned before the image was taken (flag read inside the hook, before the copy)
//     is in that subset - so all of them for images taken after the join;
//   - recovered stores reopen, referenced tables exist, life after recovery (flushes under fresh
//     numbers, compaction, obsolete-file pass) keeps the content.
// The observed return order of the commits is recorded in the history (printed with a failure).

import (
	"fmt"
	"os"
	"path/filepath"
	"sort"
	"strconv"
	"strings"
	"sync"
	"sync/atomic"
	"testing"
	"time"

	"github.com/lindb/common/pkg/ltoml"
	"pgregory.net/rapid"

	"github.com/lindb/lindb/kv"
	"github.com/lindb/lindb/kv/table"
	"github.com/lindb/lindb/kv/version"
	"github.com/lindb/lindb/verifharness/sim/crash"
	"github.com/lindb/lindb/verifharness/sim/ev"
	"github.com/lindb/lindb/verifharness/sim/kvsim"
)

const (
	burstGroup       = "TestCommitBurst"
	burstSettle      = 2 * time.Millisecond // members get this long to reach the version-set mutex; detection power only
	burstImagesPer   = 10
	burstInsidePer   = 6 // of these, images taken inside a burst (when there are that many)
)

// bCommit is one flusher commit of an operation.
type bCommit struct {
	id     int
	fam    string
	keys   []uint32
	modes  []bool
	atom   uint32
	holder bool

	fl       kv.Flusher
	path     string // its table file
	closed   chan struct{}
	closedFn sync.Once
	done     chan struct{}
	returned atomic.Bool
	order    int32
	err      error
	released bool
}

func (c *bCommit) release() {
	if c.fl != nil && !c.released {
		c.released = true
		c.fl.Release()
	}
}

func (c *bCommit) String() string {
	h := ""
	if c.holder {
		h = "holder "
	}
	return fmt.Sprintf("%sc%d@%s keys=%v atom=%d", h, c.id, c.fam, c.keys, c.atom)
}

type bPlan struct {
	seamOp  string
	before  bool
	members []*bCommit
	compact string // family of the compaction job started with the members ("" = none)

	fired bool
	cdone chan struct{}
	cran  bool
	cerr  error
}

type bOp struct {
	Name   string `json:"op"`
	Family string `json:"family,omitempty"`
	Detail string `json:"detail,omitempty"`
}

type bImageInfo struct {
	must   map[int]bool // commits of the operation whose Commit had returned
	inside bool         // taken while members were started and not all commits had returned
}

type bEnv struct {
	t         *rapid.T
	dir       string
	storePath string
	opt       kv.StoreOption
	famOpt    kv.FamilyOption
	store     kv.Store
	fams      map[string]kv.Family
	famNames  []string
	im        *crash.Imager
	thorough  bool
	phase     int
	stride    int // quick tier: every stride-th FS point is copied (1 inside a burst, sparse while tables are prepared)

	fsmu sync.Mutex  // held from the before-hook to the after-hook of every intercepted FS operation
	free atomic.Bool // free-running phase of a burst: no bracket, no image (only flipped while one goroutine runs)

	states  []map[string]kvsim.Content // states[i] = committed content before operation i
	commits [][]*bCommit               // commits[i] = flusher commits of operation i
	cur     map[string]kvsim.Content
	ops     []bOp
	atom    uint32
	cseq    int

	// guarded by fsmu while goroutines run
	lastCreated string
	byPath      map[string]*bCommit
	inflight    []*bCommit
	started     bool // members of the burst in flight are running
	info        map[int]bImageInfo
	plan        *bPlan
	orderCtr    atomic.Int32

	classes map[string]int
	labels  map[string]bool

	imagesChecked, insideOp, insideBurst, properSubset int
	ntHashes                                           []string
}

func (e *bEnv) fatalf(format string, args ...any) {
	e.t.Helper()
	e.t.Fatalf(format+"\nhistory: %+v", append(args, e.ops)...)
}

// hook is installed at every FS seam of kv, kv/version and kv/table; it runs on whatever goroutine
// performs the operation.
func (e *bEnv) hook(op, path string, before bool) {
	if e.free.Load() {
		// bookkeeping only; the mutex is not held across the operation
		var fire *bPlan
		e.fsmu.Lock()
		if op == "tableClose" && !before {
			if c := e.byPath[path]; c != nil {
				c.closedFn.Do(func() { close(c.closed) })
			}
		}
		if p := e.plan; p != nil && !p.fired && op == p.seamOp && before == p.before {
			p.fired = true
			fire = p
		}
		e.fsmu.Unlock()
		if fire != nil {
			e.fireBurst(fire)
		}
		return
	}
	if before {
		e.fsmu.Lock()
	}
	// from here to the end of the after-hook this goroutine owns the file system
	var fire *bPlan
	func() {
		defer func() {
			if r := recover(); r != nil {
				e.fsmu.Unlock()
				panic(r)
			}
		}()
		if op == "tableCreate" && before {
			e.lastCreated = path
		}
		// which commits had returned: read BEFORE the copy (a commit returning during the copy had
		// its record synced before this hook got the mutex, so the image holds it anyway)
		inf := bImageInfo{must: map[int]bool{}}
		all := true
		for _, c := range e.inflight {
			if c.returned.Load() {
				inf.must[c.id] = true
			} else {
				all = false
			}
		}
		inf.inside = e.started && !all
		n := len(e.im.Points)
		e.im.Hook(op, path, before)
		if len(e.im.Points) > n {
			e.info[e.im.Points[n].Seq] = inf
		}
		if op == "tableClose" && !before {
			if c := e.byPath[path]; c != nil {
				c.closedFn.Do(func() { close(c.closed) })
			}
		}
		if p := e.plan; p != nil && !p.fired && op == p.seamOp && before == p.before {
			p.fired = true // only the holder runs until the members are started
			fire = p
		}
	}()
	if !before {
		e.fsmu.Unlock()
	}
	if fire != nil {
		if before {
			e.fsmu.Unlock()
		}
		e.fireBurst(fire)
		if before {
			e.fsmu.Lock()
		}
	}
}

// fireBurst runs on the holder's goroutine inside its manifest seam (the version-set mutex is held).
func (e *bEnv) fireBurst(p *bPlan) {
	e.fsmu.Lock()
	e.started = true
	e.fsmu.Unlock()
	for _, c := range p.members {
		go func(c *bCommit) {
			defer close(c.done)
			c.err = c.fl.Commit()
			if c.err == nil {
				c.order = e.orderCtr.Add(1)
				c.returned.Store(true)
			}
		}(c)
	}
	if p.compact != "" {
		p.cdone = make(chan struct{})
		f := e.fams[p.compact]
		go func() {
			defer close(p.cdone)
			p.cran, p.cerr = kv.VerifCompactSync(f, true)
		}()
	}
	// the members close their tables (no version-set lock needed) and then queue on the mutex
	for _, c := range p.members {
		select {
		case <-c.closed:
		case <-c.done:
		}
	}
	time.Sleep(burstSettle)
}

func (e *bEnv) begin(name, family, detail string) {
	st := map[string]kvsim.Content{}
	for n, c := range e.cur {
		st[n] = c.Clone()
	}
	e.states = append(e.states, st)
	e.commits = append(e.commits, nil)
	e.ops = append(e.ops, bOp{Name: name, Family: family, Detail: detail})
	e.inflight, e.started = nil, false
	if !e.thorough {
		e.phase = rapid.IntRange(0, 11).Draw(e.t, "imagePhase")
	}
	e.setStride(6)
	e.im.Begin(len(e.ops)-1, name)
}

func (e *bEnv) setStride(n int) {
	e.fsmu.Lock()
	e.stride = n
	e.fsmu.Unlock()
}

func (e *bEnv) end() {
	e.im.End()
	e.inflight, e.started = nil, false
}

func (e *bEnv) openStore() {
	s, err := kv.GetStoreManager().CreateStore(e.storePath, e.opt)
	if err != nil {
		e.fatalf("open store: %v", err)
	}
	e.store = s
	e.fams = map[string]kv.Family{}
	for _, n := range e.famNames {
		f := s.GetFamily(n)
		if f == nil {
			e.fatalf("family %s missing after (re)open", n)
		}
		e.fams[n] = f
	}
}

// ---- operations ------------------------------------------------------------------------------

func (e *bEnv) opCreateFamily() {
	if len(e.famNames) >= 3 {
		e.t.Skip("enough families")
	}
	name := fmt.Sprintf("f%d", len(e.famNames))
	e.begin("createFamily", name, "")
	f, err := e.store.CreateFamily(name, e.famOpt)
	e.end()
	if err != nil {
		e.fatalf("create family: %v", err)
	}
	e.famNames = append(e.famNames, name)
	e.fams[name] = f
	e.cur[name] = kvsim.Content{}
}

func (e *bEnv) drawKeys(min, max int) ([]uint32, []bool) {
	n := rapid.IntRange(min, max).Draw(e.t, "nKeys")
	set := map[uint32]bool{}
	for i := 0; i < n; i++ {
		set[rapid.SampledFrom(keyUniverse).Draw(e.t, "key")] = true
	}
	keys := make([]uint32, 0, len(set))
	for k := range set {
		keys = append(keys, k)
	}
	sort.Slice(keys, func(i, j int) bool { return keys[i] < keys[j] })
	modes := make([]bool, len(keys))
	for i := range modes {
		modes[i] = rapid.Bool().Draw(e.t, "stream")
	}
	return keys, modes
}

func (e *bEnv) newCommit(fam string, holder bool) *bCommit {
	keys, modes := e.drawKeys(1, 6)
	e.atom++
	e.cseq++
	return &bCommit{id: e.cseq, fam: fam, keys: keys, modes: modes, atom: e.atom, holder: holder,
		closed: make(chan struct{}), done: make(chan struct{})}
}

// prepare opens the flusher of a commit and writes its data (main goroutine, before anything runs concurrently).
func (e *bEnv) prepare(c *bCommit) {
	c.fl = e.fams[c.fam].NewFlusher()
	e.fsmu.Lock()
	e.lastCreated = ""
	e.inflight = append(e.inflight, c)
	e.fsmu.Unlock()
	e.commits[len(e.commits)-1] = append(e.commits[len(e.commits)-1], c)
	if err := addKeys(c.fl, c.keys, c.modes, c.atom); err != nil {
		e.fatalf("writing the table of %s failed: %v", c, err)
	}
	e.fsmu.Lock()
	c.path = e.lastCreated
	if c.path != "" {
		e.byPath[c.path] = c
	}
	e.fsmu.Unlock()
	if filepath.Dir(c.path) != filepath.Join(e.storePath, c.fam) {
		e.fatalf("harness: table of %s created as %q", c, c.path)
	}
}

func (e *bEnv) l0Files(fam string) int {
	snap := e.fams[fam].GetSnapshot()
	defer snap.Close()
	return snap.GetCurrent().NumberOfFilesInLevel(0)
}

// opBurst: members = 0 is a plain flush.
func (e *bEnv) opBurst(withMembers bool) {
	if len(e.famNames) == 0 {
		e.t.Skip("no family")
	}
	holderFam := rapid.SampledFrom(e.famNames).Draw(e.t, "holderFamily")
	holder := e.newCommit(holderFam, true)
	p := &bPlan{}
	shape := "flush"
	freeRun := false
	tail, tailFam := "none", ""
	if withMembers {
		seam := rapid.IntRange(0, 3).Draw(e.t, "seam")
		p.seamOp, p.before = []string{"manifestWrite", "manifestSync"}[seam/2], seam%2 == 0
		n := rapid.SampledFrom([]int{2, 2, 3, 4}).Draw(e.t, "members")
		shape = rapid.SampledFrom([]string{"same-family", "same-family", "same-as-holder", "different-families", "mixed"}).Draw(e.t, "shape")
		var famOf func(i int) string
		switch shape {
		case "same-family":
			f := rapid.SampledFrom(e.famNames).Draw(e.t, "memberFamily")
			famOf = func(int) string { return f }
		case "same-as-holder":
			famOf = func(int) string { return holderFam }
		case "different-families":
			off := rapid.IntRange(0, len(e.famNames)-1).Draw(e.t, "offset")
			famOf = func(i int) string { return e.famNames[(off+i)%len(e.famNames)] }
		default:
			famOf = func(int) string { return rapid.SampledFrom(e.famNames).Draw(e.t, "memberFamily") }
		}
		for i := 0; i < n; i++ {
			p.members = append(p.members, e.newCommit(famOf(i), false))
		}
		if rapid.IntRange(0, 1).Draw(e.t, "withCompaction") == 0 {
			// a family of the burst whose level 0 lets the job start, else any family of the burst
			var busy, any []string
			for _, c := range append([]*bCommit{holder}, p.members...) {
				any = append(any, c.fam)
				if e.l0Files(c.fam) >= 2 {
					busy = append(busy, c.fam)
				}
			}
			if len(busy) > 0 {
				p.compact = rapid.SampledFrom(busy).Draw(e.t, "compactFamily")
			} else {
				p.compact = rapid.SampledFrom(any).Draw(e.t, "compactFamily")
			}
		}
		freeRun = rapid.Bool().Draw(e.t, "freeRunning")
		tail = rapid.SampledFrom([]string{"none", "compact+deleteObsolete", "compact+deleteObsolete", "deleteObsolete"}).Draw(e.t, "tail")
		if tail != "none" {
			var pool []string
			for _, c := range p.members {
				pool = append(pool, c.fam)
			}
			tailFam = rapid.SampledFrom(pool).Draw(e.t, "tailFamily")
		}
	}
	name := "flush"
	if withMembers {
		name = "burst"
	}
	ph := "after"
	if p.before {
		ph = "before"
	}
	e.begin(name, holderFam, "")
	opi := len(e.ops) - 1
	describe := func(order string) {
		if !withMembers {
			e.ops[opi].Detail = holder.String()
			return
		}
		e.ops[opi].Detail = fmt.Sprintf("%s seam=%s/%s freeRunning=%v members=%v compaction=%q tail=%s(%s) %s", holder, p.seamOp, ph, freeRun, p.members, p.compact, tail, tailFam, order)
	}
	describe("")
	if withMembers {
		e.setStride(12) // the tables of the commits are written: plain table writes, sparse images
	}
	for _, c := range p.members {
		e.prepare(c)
	}
	e.prepare(holder)
	if withMembers {
		e.fsmu.Lock()
		e.plan = p
		e.stride = 3 // from the holder's commit to the join: every 3rd FS point
		e.fsmu.Unlock()
		e.free.Store(freeRun)
	}
	holder.err = holder.fl.Commit()
	if holder.err == nil {
		holder.order = e.orderCtr.Add(1)
		holder.returned.Store(true)
	}
	// join
	if p.fired {
		for _, c := range p.members {
			<-c.done
		}
		if p.cdone != nil {
			<-p.cdone
		}
	}
	e.free.Store(false) // everything is joined: one goroutine again
	e.fsmu.Lock()
	e.plan = nil
	e.stride = 3
	e.fsmu.Unlock()
	all := append([]*bCommit{holder}, p.members...)
	if withMembers && !p.fired {
		// cannot happen (the holder always brings a table); commit the members one by one then
		for _, c := range p.members {
			if c.err = c.fl.Commit(); c.err == nil {
				c.order = e.orderCtr.Add(1)
				c.returned.Store(true)
			}
		}
		e.classes["burst-seam-not-reached"]++
	}
	for _, c := range all {
		c.release()
	}
	byOrder := append([]*bCommit(nil), all...)
	sort.Slice(byOrder, func(i, j int) bool { return byOrder[i].order < byOrder[j].order })
	var order []string
	for _, c := range byOrder {
		order = append(order, fmt.Sprintf("c%d", c.id))
	}
	describe(fmt.Sprintf("observedReturnOrder=%v compactionRan=%v", order, p.cran))
	for _, c := range all {
		if c.err != nil {
			e.end()
			e.fatalf("operation %d: Commit of %s failed: %v", opi, c, c.err)
		}
	}
	if p.cerr != nil {
		e.end()
		e.fatalf("operation %d: compaction of family %s running next to the commits failed: %v", opi, p.compact, p.cerr)
	}
	// every Commit returned nil: the model moves
	for _, c := range all {
		for _, k := range c.keys {
			e.cur[c.fam].AddAtom(k, c.atom)
		}
	}
	if withMembers {
		e.checkLive(fmt.Sprintf("after the join of burst operation %d", opi))
		switch tail {
		case "compact+deleteObsolete":
			ran, err := kv.VerifCompactSync(e.fams[tailFam], true)
			if err != nil {
				e.end()
				e.fatalf("operation %d: compaction of family %s after the burst failed: %v", opi, tailFam, err)
			}
			kv.VerifDeleteObsoleteFiles(e.fams[tailFam])
			if ran {
				e.classes["burst-tail-compaction-ran"]++
			}
		case "deleteObsolete":
			kv.VerifDeleteObsoleteFiles(e.fams[tailFam])
		}
	}
	e.end()
	if !withMembers {
		e.classes["flush"]++
		return
	}
	e.checkLive(fmt.Sprintf("after burst operation %d", opi))
	e.classes["burst"]++
	e.classes["burst-shape/"+shape]++
	if freeRun {
		e.classes["burst-free-running(no images between holder commit and join)"]++
	} else {
		e.classes["burst-imaged"]++
	}
	e.classes["burst-seam/"+p.seamOp+"/"+ph]++
	e.classes[fmt.Sprintf("burst-members=%d", len(p.members))]++
	perFam := map[string]int{}
	for _, c := range all {
		perFam[c.fam]++
	}
	same, fams := false, 0
	for _, n := range perFam {
		fams++
		if n >= 2 {
			same = true
		}
	}
	if same {
		e.classes["burst-with->=2-commits-of-one-family"]++
		e.labels["hist-burst-same-family"] = true
	}
	if fams >= 2 {
		e.classes["burst-over->=2-families"]++
		e.labels["hist-burst-different-families"] = true
	}
	if p.compact != "" {
		e.classes["burst+compaction"]++
		if p.cran {
			e.classes["burst+compaction-ran"]++
			e.labels["hist-burst+compaction-ran"] = true
			if perFam[p.compact] > 0 {
				e.classes["burst+compaction-ran-in-family-with-commit"]++
			}
		} else {
			e.classes["burst+compaction-nothing-to-compact"]++
		}
	}
	if byOrder[0] != holder {
		e.classes["burst-member-returned-before-holder"]++
	}
	inOrder := true
	for i := 1; i < len(p.members); i++ {
		if p.members[i].order < p.members[i-1].order {
			inOrder = false
		}
	}
	if !inOrder {
		e.classes["burst-members-returned-out-of-start-order"]++
	}
	e.classes["burst-tail/"+tail]++
}

func (e *bEnv) opCompact() {
	if len(e.famNames) == 0 {
		e.t.Skip("no family")
	}
	name := rapid.SampledFrom(e.famNames).Draw(e.t, "family")
	force := rapid.Bool().Draw(e.t, "force")
	e.begin("compact", name, fmt.Sprintf("force=%v", force))
	ran, err := kv.VerifCompactSync(e.fams[name], force)
	if err == nil {
		kv.VerifDeleteObsoleteFiles(e.fams[name])
	}
	e.end()
	if err != nil {
		e.fatalf("compaction of family %s failed: %v", name, err)
	}
	if ran {
		e.classes["compact-ran"]++
	}
}

func (e *bEnv) opReopen() {
	e.begin("reopen", "", "")
	if err := kv.GetStoreManager().CloseStore(e.storePath); err != nil {
		e.end()
		e.fatalf("close store: %v", err)
	}
	e.openStore()
	e.end()
	e.classes["reopen"]++
}

// ---- oracle ----------------------------------------------------------------------------------

func (e *bEnv) checkLive(when string) {
	for _, n := range e.famNames {
		snap := e.fams[n].GetSnapshot()
		var missing []string
		for _, fm := range snap.GetCurrent().GetAllFiles() {
			if _, err := os.Stat(filepath.Join(e.storePath, n, version.Table(fm.GetFileNumber()))); err != nil {
				missing = append(missing, n+"/"+version.Table(fm.GetFileNumber()))
			}
		}
		snap.Close()
		if len(missing) > 0 {
			e.fatalf("live store %s, family %s: the current version references tables that are not in the family directory: %v", when, n, missing)
		}
		got, err := kvsim.ReadFamily(e.fams[n], keyUniverse)
		if err != nil {
			e.fatalf("live store %s, family %s: %v", when, n, err)
		}
		if !e.cur[n].Equal(got) {
			e.fatalf("live store %s, family %s: a fresh snapshot differs from the commits that returned success:%s", when, n, kvsim.Diff(e.cur[n], got))
		}
	}
}

func (e *bEnv) recoverImage(p crash.Point, deep bool) {
	before := e.states[p.OpIdx]
	commits := e.commits[p.OpIdx]
	inf := e.info[p.Seq]
	s, err := kv.GetStoreManager().CreateStore(p.Dir, e.opt)
	if err != nil {
		e.fatalf("image %s: store cannot be reopened: %v", p, err)
	}
	defer func() { _ = kv.GetStoreManager().CloseStore(p.Dir) }()
	after := e.cur
	if p.OpIdx+1 < len(e.states) {
		after = e.states[p.OpIdx+1]
	}
	referenced := map[int64]string{}
	recovered := map[string]kv.Family{}
	applied, possible := 0, 0
	var names []string
	for n := range after {
		names = append(names, n)
	}
	sort.Strings(names)
	for _, n := range names {
		bc, existedBefore := before[n]
		f := s.GetFamily(n)
		if f == nil {
			if existedBefore {
				e.fatalf("image %s: family %s vanished", p, n)
			}
			continue
		}
		recovered[n] = f
		snap := f.GetSnapshot()
		var missing []string
		for _, fm := range snap.GetCurrent().GetAllFiles() {
			referenced[fm.GetFileNumber().Int64()] = n
			if _, err := os.Stat(filepath.Join(p.Dir, n, version.Table(fm.GetFileNumber()))); err != nil {
				missing = append(missing, n+"/"+version.Table(fm.GetFileNumber()))
			}
		}
		if len(missing) > 0 {
			snap.Close()
			e.fatalf("image %s: recovered family %s references tables that do not exist: %v", p, n, missing)
		}
		content, err := kvsim.ReadSnapshot(snap, keyUniverse)
		snap.Close()
		if err != nil {
			e.fatalf("image %s: family %s unreadable after recovery: %v", p, n, err)
		}
		// take the commits of the operation in flight out of the content: each entirely or not at all
		rest := content.Clone()
		for _, c := range commits {
			if c.fam != n {
				continue
			}
			possible++
			have := 0
			for _, k := range c.keys {
				if rest[k][c.atom] {
					have++
					delete(rest[k], c.atom)
					if len(rest[k]) == 0 {
						delete(rest, k)
					}
				}
			}
			switch {
			case have == len(c.keys):
				applied++
			case have != 0:
				e.fatalf("image %s: family %s shows %d of the %d keys of %s: a commit is visible in part", p, n, have, len(c.keys), c)
			case inf.must[c.id]:
				e.fatalf("image %s: family %s lacks %s, whose Commit had returned success before the image was taken (commits returned by then: %v)",
					p, n, c, sortedIDs(inf.must))
			}
		}
		if !existedBefore {
			bc = kvsim.Content{}
		}
		if !bc.Equal(rest) {
			e.fatalf("image %s: family %s, apart from the commits of the operation in flight, differs from its committed state:%s", p, n, kvsim.Diff(bc, rest))
		}
	}
	if inf.inside {
		e.insideBurst++
		e.classes["img-inside-burst"]++
		if applied > 0 && applied < possible {
			e.properSubset++
			e.classes["img-inside-burst-proper-subset-of-commits-applied"]++
		} else if applied == 0 {
			e.classes["img-inside-burst-no-commit-applied"]++
		} else {
			e.classes["img-inside-burst-all-commits-applied"]++
		}
		if len(inf.must) > 0 {
			e.classes["img-inside-burst-with-returned-commits"]++
		}
	} else if p.OpName == "burst" {
		if len(inf.must) == len(commits) && len(commits) > 0 {
			e.classes["img-burst-after-join(tail)"]++
		} else {
			e.classes["img-burst-before-members-started"]++
		}
	}
	if !deep {
		return
	}
	// life after recovery: flushes under fresh numbers, compaction, obsolete-file pass
	expect := map[string]kvsim.Content{}
	var rnames []string
	for n, f := range recovered {
		rnames = append(rnames, n)
		c, err := kvsim.ReadFamily(f, keyUniverse)
		if err != nil {
			e.fatalf("image %s: family %s: %v", p, n, err)
		}
		expect[n] = c
	}
	sort.Strings(rnames)
	for round := 0; round < 2; round++ {
		for i, n := range rnames {
			f := recovered[n]
			atom := uint32(1<<30) + uint32(round*8+i)
			old := map[int64]bool{}
			snap := f.GetSnapshot()
			for _, fm := range snap.GetCurrent().GetAllFiles() {
				old[fm.GetFileNumber().Int64()] = true
			}
			snap.Close()
			fl := f.NewFlusher()
			keys := []uint32{1, 2, 65536}
			var err error
			for _, k := range keys {
				if err = fl.Add(k, kvsim.Encode(map[uint32]bool{atom: true})); err != nil {
					break
				}
			}
			if err == nil {
				err = fl.Commit()
			}
			fl.Release()
			if err != nil {
				e.fatalf("image %s: post-recovery flush of %s failed: %v", p, n, err)
			}
			for _, k := range keys {
				expect[n].AddAtom(k, atom)
			}
			snap = f.GetSnapshot()
			for _, fm := range snap.GetCurrent().GetAllFiles() {
				num := fm.GetFileNumber().Int64()
				if old[num] {
					continue
				}
				if owner, ok := referenced[num]; ok {
					snap.Close()
					e.fatalf("image %s: table created after recovery reuses number %d still referenced by family %s", p, num, owner)
				}
				referenced[num] = n
			}
			snap.Close()
		}
	}
	for _, n := range rnames {
		if _, err := kv.VerifCompactSync(recovered[n], true); err != nil {
			e.fatalf("image %s: post-recovery compaction of %s failed: %v", p, n, err)
		}
		kv.VerifDeleteObsoleteFiles(recovered[n])
	}
	for _, n := range rnames {
		got, err := kvsim.ReadFamily(recovered[n], keyUniverse)
		if err != nil {
			e.fatalf("image %s: family %s unreadable after post-recovery work: %v", p, n, err)
		}
		if !expect[n].Equal(got) {
			e.fatalf("image %s: family %s lost/changed content after post-recovery flush+compaction:%s", p, n, kvsim.Diff(expect[n], got))
		}
	}
}

func sortedIDs(m map[int]bool) []string {
	var ids []int
	for id := range m {
		ids = append(ids, id)
	}
	sort.Ints(ids)
	out := make([]string, len(ids))
	for i, id := range ids {
		out[i] = "c" + strconv.Itoa(id)
	}
	return out
}

func (e *bEnv) crashCheck() {
	var pts []crash.Point
	for _, p := range e.im.Points {
		if p.Dir != "" {
			pts = append(pts, p)
		}
	}
	e.classes["fs-points"] += len(e.im.Points)
	e.classes["fs-points-imaged"] += len(pts)
	if len(pts) == 0 {
		e.im.Drop()
		return
	}
	chosen := map[int]bool{}
	if e.thorough || len(pts) <= burstImagesPer {
		for i := range pts {
			chosen[i] = true
		}
	} else {
		// the number of FS points of a burst may depend on the schedule (what the compaction job
		// picked): draw positions as fractions so that the draws themselves do not
		var inside []int
		for i, p := range pts {
			if e.info[p.Seq].inside {
				inside = append(inside, i)
			}
		}
		nIn := len(inside)
		if nIn > burstInsidePer {
			nIn = burstInsidePer
		}
		for k := 0; k < burstImagesPer; k++ {
			fr := rapid.IntRange(0, 9999).Draw(e.t, "imagePos")
			i := fr * len(pts) / 10000
			if k < nIn {
				i = inside[fr*len(inside)/10000]
			}
			for chosen[i] {
				i = (i + 1) % len(pts)
			}
			chosen[i] = true
		}
	}
	var idx []int
	for i := range chosen {
		idx = append(idx, i)
	}
	sort.Ints(idx)
	for j, i := range idx {
		p := pts[i]
		e.recoverImage(p, (e.thorough && j%2 == 0) || j%3 == 0)
		e.imagesChecked++
		if insideCommit(p) {
			e.insideOp++
			e.ntHashes = append(e.ntHashes, p.String())
		}
		e.classes["img-"+p.OpName]++
	}
	e.im.Drop()
	e.info = map[int]bImageInfo{}
}

// ---- property --------------------------------------------------------------------------------

func runBurstHistory(t *rapid.T, thorough bool) {
	kvsim.Register()
	dir, err := os.MkdirTemp("", "c01burst-")
	if err != nil {
		t.Fatalf("harness: %v", err)
	}
	e := &bEnv{t: t, dir: dir, storePath: filepath.Join(dir, "store"), fams: map[string]kv.Family{},
		cur: map[string]kvsim.Content{}, thorough: thorough, byPath: map[string]*bCommit{}, info: map[int]bImageInfo{},
		classes: map[string]int{}, labels: map[string]bool{}}
	e.opt = kv.StoreOption{Levels: rapid.IntRange(2, 3).Draw(t, "levels"), TTL: ltoml.Duration(time.Hour)}
	e.famOpt = kv.FamilyOption{
		Merger:           kvsim.MergerName,
		CompactThreshold: rapid.SampledFrom([]int{0, 1, 2, 3}).Draw(t, "compactThreshold"),
		MaxFileSize:      rapid.SampledFrom([]uint32{0, 8, 24, 64, 1 << 20}).Draw(t, "maxFileSize"),
	}
	e.im = &crash.Imager{Root: e.storePath, OutDir: filepath.Join(dir, "img")}
	if !thorough {
		e.im.Want = func(p crash.Point) bool { return p.Seq%e.stride == e.phase%e.stride }
	}
	kv.VerifSetFSHook(e.hook)
	version.VerifSetFSHook(version.VerifFSHook(e.hook))
	table.VerifSetFSHook(table.VerifFSHook(e.hook))
	defer func() {
		// no flusher outlives the case (a store waits for its flushers when it closes); goroutines of
		// a burst are always joined before anything can fail
		for _, cs := range e.commits {
			for _, c := range cs {
				c.release()
			}
		}
		e.im.Active = false
		kv.VerifSetFSHook(nil)
		version.VerifSetFSHook(nil)
		table.VerifSetFSHook(nil)
		for _, s := range kv.GetStoreManager().GetStores() {
			if strings.HasPrefix(s.Path(), dir) {
				_ = kv.GetStoreManager().CloseStore(s.Name())
			}
		}
		_ = os.RemoveAll(dir)
	}()

	e.begin("createStore", "", "")
	e.openStore()
	e.end()
	e.opCreateFamily()
	if rapid.Bool().Draw(t, "secondFamily") {
		e.opCreateFamily()
	}

	t.Repeat(map[string]func(*rapid.T){
		"createFamily": func(t *rapid.T) { e.t = t; e.opCreateFamily() },
		"flush":        func(t *rapid.T) { e.t = t; e.opBurst(false) },
		"burst":        func(t *rapid.T) { e.t = t; e.opBurst(true) },
		"compact":      func(t *rapid.T) { e.t = t; e.opCompact() },
		"reopen":       func(t *rapid.T) { e.t = t; e.opReopen() },
		"crash": func(t *rapid.T) {
			e.t = t
			if len(e.im.Points) == 0 {
				t.Skip("no pending images")
			}
			e.crashCheck()
		},
		"": func(t *rapid.T) { e.t = t; e.checkLive("between operations") },
	})
	e.t = t
	e.crashCheck()
	e.checkLive("at the end")

	// the canonical form leaves the observed order out: the case is what was generated
	var gen []string
	for _, o := range e.ops {
		d := o.Detail
		if i := strings.Index(d, " observedReturnOrder="); i >= 0 {
			d = d[:i]
		}
		gen = append(gen, o.Name+"|"+o.Family+"|"+d)
	}
	canon := fmt.Sprintf("burst|%d|%+v|%v", e.opt.Levels, e.famOpt, gen)
	var classes []string
	for l := range e.labels {
		classes = append(classes, l)
	}
	sort.Strings(classes)
	for c, n := range e.classes {
		ev.Class(burstGroup, c, n)
	}
	// non-trivial: a crash image taken inside a burst (members running, not all commits returned) was recovered
	nt := e.insideBurst > 0
	ev.Case(burstGroup, canon, nt, classes, map[string]any{
		"levels": e.opt.Levels, "compactThreshold": e.famOpt.CompactThreshold, "maxFileSize": e.famOpt.MaxFileSize,
		"history": e.ops, "images_recovered": e.imagesChecked, "images_inside_operation": e.insideOp,
		"images_inside_burst": e.insideBurst, "images_inside_burst_with_proper_subset_applied": e.properSubset,
	})
	for _, h := range e.ntHashes {
		ev.Case("crash-points", canon+"|"+h, true, nil, nil)
	}
}

func TestCommitBurst(t *testing.T) {
	thorough := os.Getenv("VERIF_TIER") == "thorough"
	rapid.Check(t, func(t *rapid.T) { runBurstHistory(t, thorough) })
}
