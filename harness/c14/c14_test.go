// Package c14 checks property C14: storage codecs are lossless.
//
// Codecs under test (all driven through their exported production API):
//
//	pkg/bit            bit writer / reader                      (bit_test.go)
//	pkg/stream         binary stream writer / reader            (stream_test.go)
//	pkg/encoding       XOR float codec                          (xor_test.go)
//	pkg/encoding       time-series block encoder / decoder      (tsd_test.go, tsd_history_test.go)
//	pkg/encoding       delta bit packing                        (delta_test.go)
//	pkg/encoding       fixed-width offset table                 (fixedoffset_test.go)
//	pkg/encoding       roaring bitmap marshal / unmarshal       (bitmap_test.go)
//	pkg/compress       snappy chunk writer / reader             (snappy_test.go)
//
// Oracles are reference models written from the format documentation (bit strings, sorted
// sets, plain slices), never the implementation's own encoder used as its decoder's oracle
// without a model in between.
package c14

import (
	"fmt"
	"math"
	"math/bits"
	"strings"
	"testing"

	"pgregory.net/rapid"

	"github.com/lindb/lindb/verifharness/sim/ev"
)

func TestMain(m *testing.M) { ev.Main(m) }

// failer is what the check helpers need from *rapid.T / *testing.T.
type failer interface {
	Fatalf(format string, args ...any)
}

// ---- IEEE-754 bit patterns ----------------------------------------------------------------------

const (
	posInfBits = uint64(0x7FF0000000000000)
	negInfBits = uint64(0xFFF0000000000000)
	expMask    = uint64(0x7FF0000000000000)
	fracMask   = uint64(0x000FFFFFFFFFFFFF)
	signMask   = uint64(0x8000000000000000)
)

var specialBits = []uint64{
	0,                           // +0
	signMask,                    // -0
	posInfBits,                  // +Inf
	negInfBits,                  // -Inf
	0x7FF8000000000000,          // canonical quiet NaN
	0x7FF8000000000001,          // Go's math.NaN()
	0x7FF0000000000001,          // signalling NaN, smallest payload
	0xFFF0000000000001,          // negative signalling NaN
	0x7FFFFFFFFFFFFFFF,          // NaN, all payload bits
	0xFFFFFFFFFFFFFFFF,          // all ones
	0x0000000000000001,          // smallest subnormal
	0x000FFFFFFFFFFFFF,          // largest subnormal
	0x8000000000000001,          // negative smallest subnormal
	0x0010000000000000,          // smallest normal
	0x7FEFFFFFFFFFFFFF,          // MaxFloat64
	0xFFEFFFFFFFFFFFFF,          // -MaxFloat64
	0x3FF0000000000000,          // 1.0
	0xBFF0000000000000,          // -1.0
	0x8000000000000000 >> 1,     // 2.0 (single bit)
	1 << 63,                     // sign only
	0x5555555555555555,          // alternating
	0xAAAAAAAAAAAAAAAA,          // alternating
	math.Float64bits(math.Pi),   //
	math.Float64bits(1.0 / 3.0), //
}

// classifyBits names the IEEE-754 class of a pattern (evidence histogram only).
func classifyBits(b uint64) string {
	e := b & expMask
	f := b & fracMask
	switch {
	case e == expMask && f != 0:
		return "nan"
	case e == expMask:
		return "inf"
	case e == 0 && f == 0:
		return "zero"
	case e == 0:
		return "subnormal"
	default:
		return "normal"
	}
}

// genBits draws one 64-bit value pattern. prev/hasPrev allow patterns relative to the previous
// value of the sequence (same value, small XOR windows).
func genBits(t *rapid.T, label string, prev uint64, hasPrev bool) uint64 {
	kind := rapid.IntRange(0, 9).Draw(t, label+"K")
	if !hasPrev && (kind == 5 || kind == 6 || kind == 7) {
		kind = 3
	}
	switch kind {
	case 0:
		return rapid.SampledFrom(specialBits).Draw(t, label+"S")
	case 1: // NaN with arbitrary payload and sign
		frac := rapid.Uint64Range(1, fracMask).Draw(t, label+"P")
		b := expMask | frac
		if rapid.Bool().Draw(t, label+"Sg") {
			b |= signMask
		}
		return b
	case 2: // subnormal
		frac := rapid.Uint64Range(1, fracMask).Draw(t, label+"P")
		if rapid.Bool().Draw(t, label+"Sg") {
			frac |= signMask
		}
		return frac
	case 3:
		return rapid.Uint64().Draw(t, label+"R")
	case 4: // dyadic rational k/8 as used by the other properties
		k := rapid.IntRange(-(1 << 20), 1<<20).Draw(t, label+"D")
		return math.Float64bits(float64(k) / 8)
	case 5: // same as previous -> XOR delta 0
		return prev
	case 6, 7: // previous XOR a window of w meaningful bits at a shift
		w := rapid.IntRange(1, 24).Draw(t, label+"W")
		if kind == 7 {
			w = rapid.IntRange(1, 64).Draw(t, label+"W")
		}
		sh := rapid.IntRange(0, 64-w).Draw(t, label+"Sh")
		var m uint64
		if w == 64 {
			m = rapid.Uint64().Draw(t, label+"M")
		} else {
			m = rapid.Uint64Range(0, (uint64(1)<<uint(w))-1).Draw(t, label+"M")
		}
		return prev ^ (m << uint(sh))
	case 8:
		return math.Float64bits(rapid.Float64().Draw(t, label+"F"))
	default: // small integers
		return math.Float64bits(float64(rapid.IntRange(-100, 100).Draw(t, label+"I")))
	}
}

func genBitsSeq(t *rapid.T, label string, n int) []uint64 {
	out := make([]uint64, n)
	var prev uint64
	for i := 0; i < n; i++ {
		out[i] = genBits(t, fmt.Sprintf("%s%d", label, i), prev, i > 0)
		prev = out[i]
	}
	return out
}

// xorWindowChanges counts how often a Gorilla encoder following the documented format would
// have to open a new leading/trailing-zero window for the sequence (non-trivial rule, "a XOR
// window change"). It is a property of the value sequence, not of lindb's encoder.
func xorWindowChanges(vals []uint64) int {
	if len(vals) < 2 {
		return 0
	}
	changes := 0
	have := false
	lead, trail := 0, 0
	for i := 1; i < len(vals); i++ {
		d := vals[i] ^ vals[i-1]
		if d == 0 {
			continue
		}
		l, tr := bits.LeadingZeros64(d), bits.TrailingZeros64(d)
		if !have || l < lead || tr < trail {
			if have {
				changes++
			}
			have = true
			lead, trail = l, tr
		}
	}
	return changes
}

func valueClasses(vals []uint64) []string {
	seen := map[string]bool{}
	for _, v := range vals {
		seen["val="+classifyBits(v)] = true
	}
	out := make([]string, 0, len(seen))
	for _, k := range []string{"val=nan", "val=inf", "val=zero", "val=subnormal", "val=normal"} {
		if seen[k] {
			out = append(out, k)
		}
	}
	return out
}

// ---- slot masks -----------------------------------------------------------------------------------

var maskKinds = []string{"empty", "dense", "sparse", "random", "edges", "tail", "head", "alternate", "holes"}

// genLen draws a block length: mostly small, sometimes large.
func genLen(t *rapid.T, label string) int {
	switch rapid.IntRange(0, 9).Draw(t, label+"K") {
	case 0:
		return 1
	case 1, 2, 3, 4:
		return rapid.IntRange(2, 16).Draw(t, label)
	case 5, 6, 7:
		return rapid.IntRange(9, 80).Draw(t, label)
	case 8:
		return rapid.SampledFrom([]int{7, 8, 9, 15, 16, 17, 63, 64, 65}).Draw(t, label)
	default:
		return rapid.IntRange(81, 400).Draw(t, label)
	}
}

func genMask(t *rapid.T, label string, n int) ([]bool, string) {
	kind := rapid.SampledFrom(maskKinds).Draw(t, label+"K")
	m := make([]bool, n)
	switch kind {
	case "empty":
	case "dense":
		for i := range m {
			m[i] = true
		}
	case "sparse":
		k := rapid.IntRange(1, 1+n/8).Draw(t, label+"N")
		for j := 0; j < k; j++ {
			m[rapid.IntRange(0, n-1).Draw(t, label+"P")] = true
		}
	case "random":
		for i := range m {
			m[i] = rapid.Bool().Draw(t, label+"B")
		}
	case "edges":
		m[0], m[n-1] = true, true
	case "tail":
		m[n-1] = true
	case "head":
		m[0] = true
	case "alternate":
		off := rapid.IntRange(0, 1).Draw(t, label+"O")
		for i := range m {
			m[i] = (i+off)%2 == 0
		}
	default: // dense with a few holes
		for i := range m {
			m[i] = true
		}
		k := rapid.IntRange(1, 1+n/8).Draw(t, label+"N")
		for j := 0; j < k; j++ {
			m[rapid.IntRange(0, n-1).Draw(t, label+"P")] = false
		}
	}
	return m, kind
}

func popcount(m []bool) int {
	c := 0
	for _, b := range m {
		if b {
			c++
		}
	}
	return c
}

func isSparse(m []bool) bool {
	c := popcount(m)
	return c > 0 && c < len(m)
}

func maskString(m []bool) string {
	var sb strings.Builder
	for _, b := range m {
		if b {
			sb.WriteByte('1')
		} else {
			sb.WriteByte('0')
		}
	}
	return sb.String()
}

// genStart draws the first slot of a block. Production slots are below 3600 (one family holds
// at most 3600 slots: 1h of 1s points); larger start slots are still drawn because the format
// allows any uint16, but the block always ends at or below 65534 (a block ending at 65535 makes
// TSDDecoder.Next loop for ever through uint16 wrap-around; no family can produce it).
func genStart(t *rapid.T, label string, n int) uint16 {
	var s int
	switch rapid.IntRange(0, 5).Draw(t, label+"K") {
	case 0:
		s = 0
	case 1, 2:
		s = rapid.IntRange(0, 300).Draw(t, label)
	case 3, 4:
		s = rapid.IntRange(0, 3600).Draw(t, label)
	default:
		s = rapid.IntRange(0, 65534).Draw(t, label)
	}
	if s+n-1 > 65534 {
		s = 65534 - (n - 1)
	}
	return uint16(s)
}

func hex(vals []uint64) []string {
	out := make([]string, len(vals))
	for i, v := range vals {
		out[i] = fmt.Sprintf("%016x", v)
	}
	return out
}

func capList[T any](l []T, n int) []T {
	if len(l) > n {
		return l[:n]
	}
	return l
}
