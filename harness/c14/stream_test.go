package c14

import (
	"bytes"
	"encoding/binary"
	"fmt"
	"testing"

	"pgregory.net/rapid"

	"github.com/lindb/lindb/pkg/stream"
	"github.com/lindb/lindb/verifharness/sim/ev"
)

type streamOp struct {
	Kind string
	U    uint64 // integer payload (two's complement for signed kinds)
	B    []byte // bytes payload
	size int    // encoded size according to the format documentation
}

var streamKinds = []string{"byte", "bytes", "varint32", "varint64", "uvarint32", "uvarint64",
	"uint16", "int16", "uint32", "int32", "uint64", "int64"}

// uvarintLen is the LEB128 length written from the format definition (7 bits per byte).
func uvarintLen(u uint64) int {
	n := 1
	for u >= 0x80 {
		u >>= 7
		n++
	}
	return n
}

func zigzag(v int64) uint64 { return uint64(v<<1) ^ uint64(v>>63) }

func genInt(t *rapid.T, label string, bitsN uint) uint64 {
	var v uint64
	switch rapid.IntRange(0, 3).Draw(t, label+"k") {
	case 0:
		v = rapid.SampledFrom([]uint64{0, 1, 127, 128, 255, 256, 16383, 16384, 1<<31 - 1, 1 << 31, 1<<32 - 1, 1 << 32,
			1<<63 - 1, 1 << 63, 1<<64 - 1}).Draw(t, label+"s")
	case 1:
		v = uint64(rapid.IntRange(0, 300).Draw(t, label+"sm"))
	default:
		v = rapid.Uint64().Draw(t, label+"r")
	}
	if bitsN < 64 {
		v &= (uint64(1) << bitsN) - 1
	}
	return v
}

func genStreamOps(t *rapid.T, label string) []streamOp {
	n := rapid.IntRange(0, 24).Draw(t, label+"N")
	ops := make([]streamOp, 0, n)
	for i := 0; i < n; i++ {
		l := fmt.Sprintf("%s%d", label, i)
		k := rapid.SampledFrom(streamKinds).Draw(t, l+"K")
		op := streamOp{Kind: k}
		switch k {
		case "byte":
			op.U, op.size = genInt(t, l, 8), 1
		case "bytes":
			op.B = rapid.SliceOfN(rapid.Byte(), 0, 20).Draw(t, l+"B")
			op.size = len(op.B)
		case "varint32":
			op.U = genInt(t, l, 32)
			op.size = uvarintLen(zigzag(int64(int32(uint32(op.U)))))
		case "varint64":
			op.U = genInt(t, l, 64)
			op.size = uvarintLen(zigzag(int64(op.U)))
		case "uvarint32":
			op.U = genInt(t, l, 32)
			op.size = uvarintLen(op.U)
		case "uvarint64":
			op.U = genInt(t, l, 64)
			op.size = uvarintLen(op.U)
		case "uint16", "int16":
			op.U, op.size = genInt(t, l, 16), 2
		case "uint32", "int32":
			op.U, op.size = genInt(t, l, 32), 4
		default:
			op.U, op.size = genInt(t, l, 64), 8
		}
		ops = append(ops, op)
	}
	return ops
}

type streamWriter interface {
	PutBytes(v []byte)
	PutByte(v byte)
	PutVarint32(v int32)
	PutVarint64(v int64)
	PutUvarint32(v uint32)
	PutUvarint64(v uint64)
	PutUint32(v uint32)
	PutUint64(v uint64)
	PutInt32(v int32)
	PutInt64(v int64)
	PutUInt16(v uint16)
	PutInt16(v int16)
	Len() int
	Bytes() ([]byte, error)
}

func writeOps(t failer, w streamWriter, ops []streamOp, base int) {
	written := base
	for _, op := range ops {
		switch op.Kind {
		case "byte":
			w.PutByte(byte(op.U))
		case "bytes":
			w.PutBytes(op.B)
		case "varint32":
			w.PutVarint32(int32(uint32(op.U)))
			if s := stream.VariantSize(int64(int32(uint32(op.U)))); s != op.size {
				t.Fatalf("VariantSize(%d) = %d, LEB128 length %d", int32(uint32(op.U)), s, op.size)
			}
		case "varint64":
			w.PutVarint64(int64(op.U))
			if s := stream.VariantSize(int64(op.U)); s != op.size {
				t.Fatalf("VariantSize(%d) = %d, LEB128 length %d", int64(op.U), s, op.size)
			}
		case "uvarint32":
			w.PutUvarint32(uint32(op.U))
		case "uvarint64":
			w.PutUvarint64(op.U)
			if s := stream.UvariantSize(op.U); s != op.size {
				t.Fatalf("UvariantSize(%d) = %d, LEB128 length %d", op.U, s, op.size)
			}
		case "uint16":
			w.PutUInt16(uint16(op.U))
		case "int16":
			w.PutInt16(int16(uint16(op.U)))
		case "uint32":
			w.PutUint32(uint32(op.U))
		case "int32":
			w.PutInt32(int32(uint32(op.U)))
		case "uint64":
			w.PutUint64(op.U)
		default:
			w.PutInt64(int64(op.U))
		}
		written += op.size
		if w.Len() != written {
			t.Fatalf("after %s: writer Len() = %d, expected %d", op.Kind, w.Len(), written)
		}
	}
}

// readOp reads one op and compares it with what was written.
func readOp(t failer, r *stream.Reader, op streamOp, useSlice bool) {
	switch op.Kind {
	case "byte":
		if g := r.ReadByte(); g != byte(op.U) {
			t.Fatalf("ReadByte = %d, wrote %d", g, byte(op.U))
		}
	case "bytes":
		var g []byte
		if useSlice {
			g = r.ReadSlice(len(op.B))
		} else {
			g = r.ReadBytes(len(op.B))
		}
		if !bytes.Equal(g, op.B) {
			t.Fatalf("Read%v(%d) = %x, wrote %x", map[bool]string{true: "Slice", false: "Bytes"}[useSlice], len(op.B), g, op.B)
		}
	case "varint32":
		if g := r.ReadVarint32(); g != int32(uint32(op.U)) {
			t.Fatalf("ReadVarint32 = %d, wrote %d", g, int32(uint32(op.U)))
		}
	case "varint64":
		if g := r.ReadVarint64(); g != int64(op.U) {
			t.Fatalf("ReadVarint64 = %d, wrote %d", g, int64(op.U))
		}
	case "uvarint32":
		if g := r.ReadUvarint32(); g != uint32(op.U) {
			t.Fatalf("ReadUvarint32 = %d, wrote %d", g, uint32(op.U))
		}
	case "uvarint64":
		if g := r.ReadUvarint64(); g != op.U {
			t.Fatalf("ReadUvarint64 = %d, wrote %d", g, op.U)
		}
	case "uint16":
		if g := r.ReadUint16(); g != uint16(op.U) {
			t.Fatalf("ReadUint16 = %d, wrote %d", g, uint16(op.U))
		}
	case "int16":
		if g := r.ReadInt16(); g != int16(uint16(op.U)) {
			t.Fatalf("ReadInt16 = %d, wrote %d", g, int16(uint16(op.U)))
		}
	case "uint32":
		if g := r.ReadUint32(); g != uint32(op.U) {
			t.Fatalf("ReadUint32 = %d, wrote %d", g, uint32(op.U))
		}
	case "int32":
		if g := r.ReadInt32(); g != int32(uint32(op.U)) {
			t.Fatalf("ReadInt32 = %d, wrote %d", g, int32(uint32(op.U)))
		}
	case "uint64":
		if g := r.ReadUint64(); g != op.U {
			t.Fatalf("ReadUint64 = %d, wrote %d", g, op.U)
		}
	default:
		if g := r.ReadInt64(); g != int64(op.U) {
			t.Fatalf("ReadInt64 = %d, wrote %d", g, int64(op.U))
		}
	}
	if err := r.Error(); err != nil {
		t.Fatalf("reader error after %s: %v", op.Kind, err)
	}
}

// readOpLoose performs the typed read of op without comparing anything (truncated stream).
func readOpLoose(r *stream.Reader, op streamOp, useSlice bool) {
	switch op.Kind {
	case "byte":
		_ = r.ReadByte()
	case "bytes":
		if useSlice {
			_ = r.ReadSlice(len(op.B))
		} else {
			_ = r.ReadBytes(len(op.B))
		}
	case "varint32":
		_ = r.ReadVarint32()
	case "varint64":
		_ = r.ReadVarint64()
	case "uvarint32":
		_ = r.ReadUvarint32()
	case "uvarint64":
		_ = r.ReadUvarint64()
	case "uint16":
		_ = r.ReadUint16()
	case "int16":
		_ = r.ReadInt16()
	case "uint32":
		_ = r.ReadUint32()
	case "int32":
		_ = r.ReadInt32()
	case "uint64":
		_ = r.ReadUint64()
	default:
		_ = r.ReadInt64()
	}
}

// TestStreamRoundTrip: any sequence of typed writes is read back unchanged by the matching typed
// reads, sizes follow the documented encodings (LEB128 / little endian fixed width), Position and
// Empty track the cursor, ReadAt re-positions on any written boundary, and a writer / reader that
// is reused (Reset, SwitchBuffer) for a second stream does not leak state of the first.
func TestStreamRoundTrip(t *testing.T) {
	rapid.Check(t, func(t *rapid.T) {
		rounds := rapid.IntRange(1, 3).Draw(t, "rounds")
		var shared bytes.Buffer
		bw := stream.NewBufferWriter(&shared)
		rd := stream.NewReader(nil)
		canon := ""
		nOps := 0
		kinds := map[string]bool{}
		truncBefore := false
		for round := 0; round < rounds; round++ {
			ops := genStreamOps(t, fmt.Sprintf("o%d_", round))
			total := 0
			for _, op := range ops {
				total += op.size
				kinds[op.Kind] = true
			}
			var w streamWriter
			wk := rapid.SampledFrom([]string{"reuse-reset", "switch-buffer", "new-nil", "slice"}).Draw(t, fmt.Sprintf("writer%d", round))
			switch wk {
			case "reuse-reset":
				bw.Reset()
				w = bw
			case "switch-buffer":
				bw.SwitchBuffer(&bytes.Buffer{})
				w = bw
			case "new-nil":
				w = stream.NewBufferWriter(nil)
			default:
				// the documented contract of SliceWriter: the caller provides enough room
				w = stream.NewSliceWriter(make([]byte, total+rapid.IntRange(0, 8).Draw(t, fmt.Sprintf("slack%d", round))))
			}
			writeOps(t, w, ops, 0)
			data, err := w.Bytes()
			if err != nil {
				t.Fatalf("writer.Bytes: %v", err)
			}
			if len(data) != total {
				t.Fatalf("stream has %d bytes, documented encodings need %d", len(data), total)
			}
			data = append([]byte(nil), data...)
			if wk == "switch-buffer" {
				bw.SwitchBuffer(&shared)
			}

			var r *stream.Reader
			if rapid.Bool().Draw(t, fmt.Sprintf("reuseReader%d", round)) {
				if len(data) > 0 && rapid.IntRange(0, 2).Draw(t, fmt.Sprintf("truncFirst%d", round)) == 0 {
					// the reused reader first goes over a truncated copy of the stream (typed reads run past the
					// end, the reader records an error), then it is Reset to the intact stream
					cut := rapid.IntRange(0, len(data)-1).Draw(t, fmt.Sprintf("truncAt%d", round))
					rd.Reset(data[:cut:cut])
					for i, op := range ops {
						readOpLoose(rd, op, i%2 == 0)
					}
					if rd.Error() == nil && !rd.Empty() {
						t.Fatalf("round %d: all %d ops read from a stream cut to %d of %d bytes, no error and bytes left", round, len(ops), cut, len(data))
					}
					truncBefore = true
				}
				rd.Reset(data)
				r = rd
			} else {
				r = stream.NewReader(data)
			}
			pos := 0
			starts := make([]int, len(ops))
			for i, op := range ops {
				starts[i] = pos
				if r.Position() != pos {
					t.Fatalf("Position() = %d before op %d, expected %d", r.Position(), i, pos)
				}
				if r.Empty() != (pos == total) {
					t.Fatalf("Empty() = %v at position %d of %d", r.Empty(), pos, total)
				}
				if !bytes.Equal(r.UnreadSlice(), data[pos:]) {
					t.Fatalf("UnreadSlice at %d differs", pos)
				}
				readOp(t, r, op, rapid.Bool().Draw(t, fmt.Sprintf("slice%d_%d", round, i)))
				pos += op.size
			}
			if !r.Empty() || r.Position() != total {
				t.Fatalf("after all reads: Empty=%v Position=%d total=%d", r.Empty(), r.Position(), total)
			}
			// reading past the end is reported, never invented
			_ = r.ReadByte()
			if r.Error() == nil {
				t.Fatalf("ReadByte past the end gave no error")
			}
			// random access: ReadAt any op boundary and re-read from there
			if len(ops) > 0 {
				j := rapid.IntRange(0, len(ops)-1).Draw(t, fmt.Sprintf("at%d", round))
				r.ReadAt(starts[j])
				if r.Error() != nil || r.Position() != starts[j] {
					t.Fatalf("ReadAt(%d): err=%v pos=%d", starts[j], r.Error(), r.Position())
				}
				for i := j; i < len(ops); i++ {
					readOp(t, r, ops[i], i%2 == 0)
				}
				r.SeekStart()
				readOp(t, r, ops[0], true)
			}
			nOps += len(ops)
			canon += fmt.Sprintf("%s:%x;", wk, data)
		}
		classes := []string{fmt.Sprintf("rounds=%d", rounds)}
		if truncBefore {
			classes = append(classes, "reader-ran-past-truncated-end-before")
		}
		for _, k := range streamKinds {
			if kinds[k] {
				classes = append(classes, "op="+k)
			}
		}
		ev.Case("TestStreamRoundTrip", canon, nOps >= 2 && (rounds > 1 || len(kinds) >= 3), classes,
			map[string]any{"rounds": rounds, "ops": nOps})
	})
}

// TestStreamTailUvarint: PutUvariantLittleEndian writes a varint that UvarintLittleEndian reads
// back from the TAIL of a block (the series-entry footer of metric data files), ReadUvarint reads
// a forward varint at an offset, and the fixed-width helpers round-trip at any offset.
func TestStreamTailUvarint(t *testing.T) {
	rapid.Check(t, func(t *rapid.T) {
		v := genInt(t, "v", 64)
		prefix := rapid.SliceOfN(rapid.Byte(), 0, 12).Draw(t, "prefix")
		var scratch [binary.MaxVarintLen64]byte
		n := stream.PutUvariantLittleEndian(scratch[:], v)
		if n != uvarintLen(v) {
			t.Fatalf("PutUvariantLittleEndian(%d) wrote %d bytes, LEB128 length %d", v, n, uvarintLen(v))
		}
		block := append(append([]byte(nil), prefix...), scratch[:n]...)
		got, m := stream.UvarintLittleEndian(block)
		// the byte-reversed LEB128 is self-delimiting when scanned backwards from the tail (the scan
		// stops at the varint's own terminating byte < 0x80), so an arbitrary prefix must not matter.
		if m != n || got != v {
			t.Fatalf("UvarintLittleEndian(prefix %x + varint(%d)) = %d,%d want %d,%d", prefix, v, got, m, v, n)
		}

		// forward varint at an offset
		fw := binary.AppendUvarint(append([]byte(nil), prefix...), v)
		fw = append(fw, 0xff) // trailing garbage must not matter
		g2, rl, err := stream.ReadUvarint(fw, len(prefix))
		if err != nil || g2 != v || rl != n {
			t.Fatalf("ReadUvarint = %d,%d,%v want %d,%d", g2, rl, err, v, n)
		}

		// fixed width helpers
		off := len(prefix)
		buf := make([]byte, off+8+3)
		stream.PutUint64(buf, off, v)
		if stream.ReadUint64(buf, off) != v {
			t.Fatalf("PutUint64/ReadUint64 %d", v)
		}
		stream.PutUint32(buf, off, uint32(v))
		if stream.ReadUint32(buf, off) != uint32(v) {
			t.Fatalf("PutUint32/ReadUint32 %d", uint32(v))
		}
		stream.PutUint16(buf, off, uint16(v))
		if stream.ReadUint16(buf, off) != uint16(v) {
			t.Fatalf("PutUint16/ReadUint16 %d", uint16(v))
		}
		ev.Case("TestStreamTailUvarint", fmt.Sprintf("%d/%x", v, prefix), n >= 2,
			[]string{fmt.Sprintf("varintLen=%d", n)}, map[string]any{"value": v, "prefix": len(prefix)})
	})
}
