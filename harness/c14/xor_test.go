package c14

import (
	"bytes"
	"fmt"
	"math/bits"
	"testing"

	"pgregory.net/rapid"

	"github.com/lindb/lindb/pkg/bit"
	"github.com/lindb/lindb/pkg/bufioutil"
	"github.com/lindb/lindb/pkg/encoding"
	"github.com/lindb/lindb/verifharness/sim/ev"
)

// ---- reference implementation of the documented XOR format (xor.go header comment) ---------------
//
//	first value: 64 bits
//	then per value: '0'                              value equals the previous one
//	                '1' '1' <meaningful bits>        XOR fits the current leading/trailing window
//	                '1' '0' <6 bit leading> <6 bit block size-1> <block bits>   new window
//
// Before the first new-window record the window is leading=0, trailing=0 (64 meaningful bits).

type refWindow struct{ lead, trail int }

// refXOREncode encodes with the smallest window whenever the current one does not contain the
// XOR (a real Gorilla encoder) when tight is true; with tight false it never opens a window
// (every XOR written with the initial 64 bit window).
func refXOREncode(m *bitModel, st *refXORState, v uint64, tight bool) {
	if st.first {
		st.first = false
		st.prev = v
		m.push(v, 64)
		return
	}
	d := v ^ st.prev
	st.prev = v
	if d == 0 {
		m.push(0, 1)
		return
	}
	m.push(1, 1)
	l, tr := bits.LeadingZeros64(d), bits.TrailingZeros64(d)
	fits := l >= st.w.lead && tr >= st.w.trail
	// a tight encoder re-opens the window when the current one is the initial full window or does not fit
	if tight && (!fits || !st.opened) {
		m.push(0, 1)
		bs := 64 - l - tr
		m.push(uint64(l), 6)
		m.push(uint64(bs-1), 6)
		m.push(d>>uint(tr), bs)
		st.w = refWindow{l, tr}
		st.opened = true
		st.windows++
		return
	}
	m.push(1, 1)
	m.push(d>>uint(st.w.trail), 64-st.w.lead-st.w.trail)
}

type refXORState struct {
	first   bool
	prev    uint64
	w       refWindow
	opened  bool
	windows int
}

// refXORDecode decodes n values from the bit model starting at bit position pos.
func refXORDecode(t failer, m *bitModel, pos, n int) ([]uint64, int) {
	out := make([]uint64, 0, n)
	var prev uint64
	w := refWindow{}
	for i := 0; i < n; i++ {
		if i == 0 {
			prev = m.take(pos, 64)
			pos += 64
			out = append(out, prev)
			continue
		}
		if m.take(pos, 1) == 0 {
			pos++
			out = append(out, prev)
			continue
		}
		pos++
		ctl := m.take(pos, 1)
		pos++
		if ctl == 0 {
			w.lead = int(m.take(pos, 6))
			pos += 6
			bs := int(m.take(pos, 6)) + 1
			pos += 6
			w.trail = 64 - w.lead - bs
			if w.trail < 0 {
				t.Fatalf("reference decoder: window leading=%d size=%d overflows 64 bits", w.lead, bs)
			}
		}
		bs := 64 - w.lead - w.trail
		d := m.take(pos, bs)
		pos += bs
		prev ^= d << uint(w.trail)
		out = append(out, prev)
	}
	if pos > len(m.bits) {
		t.Fatalf("reference decoder read %d bits, stream has %d", pos, len(m.bits))
	}
	return out, pos
}

func unpackBits(data []byte) *bitModel {
	m := &bitModel{}
	for _, b := range data {
		m.push(uint64(b), 8)
	}
	return m
}

// TestXORRoundTrip: a value sequence written by XOREncoder is returned bit for bit by XORDecoder
// and by the reference decoder of the documented format; encoder/decoder (and the bit writer /
// reader below them) are reused over several sequences, including sequences abandoned half way.
func TestXORRoundTrip(t *testing.T) {
	rapid.Check(t, func(t *rapid.T) {
		rounds := rapid.IntRange(1, 4).Draw(t, "rounds")
		var buf bytes.Buffer
		bw := bit.NewWriter(&buf)
		enc := encoding.NewXOREncoder(bw)
		rb := bufioutil.NewBuffer(nil)
		br := bit.NewReader(rb)
		dec := encoding.NewXORDecoder(br)
		canon := ""
		nt := false
		var classes []string
		maxLen := 0
		for round := 0; round < rounds; round++ {
			if round > 0 {
				buf.Reset()
				bw.Reset(&buf)
				enc.Reset()
			}
			damagedBefore := false
			n := genLen(t, fmt.Sprintf("n%d", round))
			if n > 120 {
				n = 120
			}
			vals := genBitsSeq(t, fmt.Sprintf("v%d_", round), n)
			// leading bits before the XOR stream: TSD blocks interleave slot bits with values, so the
			// XOR codec must work at any bit alignment
			pre := rapid.IntRange(0, 9).Draw(t, fmt.Sprintf("pre%d", round))
			for i := 0; i < pre; i++ {
				_ = bw.WriteBit(bit.Bit(i%2 == 0))
			}
			for _, v := range vals {
				if err := enc.Write(v); err != nil {
					t.Fatalf("Write: %v", err)
				}
			}
			if round < rounds-1 && rapid.IntRange(0, 3).Draw(t, fmt.Sprintf("abandon%d", round)) == 0 {
				classes = append(classes, "abandoned-encoder")
				continue
			}
			if err := bw.Flush(); err != nil {
				t.Fatalf("flush: %v", err)
			}
			data := append([]byte(nil), buf.Bytes()...)

			// a damaged stream first (truncated inside a value / a window record, flipped, junk): the decoder
			// reports an error or stops early, is Reset and must then read the intact stream exactly
			if rapid.IntRange(0, 2).Draw(t, fmt.Sprintf("damagedFirst%d", round)) == 0 {
				bad, kind := damageBytes(t, fmt.Sprintf("dmg%d", round), data, 0)
				rb.SetBuf(bad)
				br.Reset()
				dec.Reset()
				got := 0
				noPanic(t, fmt.Sprintf("round %d, damaged stream (%s, %d of %d bytes)", round, kind, len(bad), len(data)), func() {
					for i := 0; i < pre; i++ {
						_, _ = br.ReadBit()
					}
					for ; got < n+2 && dec.Next(); got++ {
						_ = dec.Value()
					}
				})
				classes = append(classes, "damaged-stream-before", "damaged="+kind)
				if got < n {
					classes = append(classes, "damaged-stream-stopped-early")
				}
				damagedBefore = true
			}
			// production decoder (reused)
			rb.SetBuf(data)
			br.Reset()
			dec.Reset()
			for i := 0; i < pre; i++ {
				b, err := br.ReadBit()
				if err != nil || bool(b) != (i%2 == 0) {
					t.Fatalf("prefix bit %d: %v %v", i, b, err)
				}
			}
			stop := n
			if round < rounds-1 && rapid.Bool().Draw(t, fmt.Sprintf("stop%d", round)) {
				stop = rapid.IntRange(0, n).Draw(t, fmt.Sprintf("stopAt%d", round)) // decoder abandoned half way
			}
			for i := 0; i < stop; i++ {
				if !dec.Next() {
					t.Fatalf("round %d: XORDecoder.Next() false at value %d of %d", round, i, n)
				}
				if g := dec.Value(); g != vals[i] {
					t.Fatalf("round %d: value %d decoded %016x, encoded %016x (sequence %v)", round, i, g, vals[i], hex(vals))
				}
			}
			// reference decoder on the production bytes
			m := unpackBits(data)
			ref, _ := refXORDecode(t, m, pre, n)
			for i := range vals {
				if ref[i] != vals[i] {
					t.Fatalf("round %d: reference decoder of the documented format reads value %d as %016x, encoded %016x", round, i, ref[i], vals[i])
				}
			}
			wc := xorWindowChanges(vals)
			if n >= 2 && (wc > 0 || round > 0 || damagedBefore) {
				nt = true
			}
			if n > maxLen {
				maxLen = n
			}
			classes = append(classes, valueClasses(vals)...)
			if wc > 0 {
				classes = append(classes, "window-change")
			}
			canon += fmt.Sprintf("%d|%v;", pre, hex(vals))
		}
		classes = append(classes, fmt.Sprintf("rounds=%d", rounds))
		ev.Case("TestXORRoundTrip", canon, nt, dedup(classes), map[string]any{"rounds": rounds, "maxLen": maxLen})
	})
}

// TestXORDecoderDocumentedFormat: XORDecoder reads streams that use new-window records (written
// by the reference encoder of the documented format). lindb's own encoder never emits such a
// record on this tree (its window starts at leading=0/trailing=0 and every XOR fits it), so this
// is the only way the decoder's window branch is exercised.
func TestXORDecoderDocumentedFormat(t *testing.T) {
	rapid.Check(t, func(t *rapid.T) {
		n := genLen(t, "n")
		if n > 120 {
			n = 120
		}
		vals := genBitsSeq(t, "v", n)
		pre := rapid.IntRange(0, 9).Draw(t, "pre")
		tight := rapid.IntRange(0, 4).Draw(t, "tight") != 0
		m := &bitModel{}
		for i := 0; i < pre; i++ {
			m.push(uint64(i%2), 1)
		}
		st := &refXORState{first: true}
		for _, v := range vals {
			refXOREncode(m, st, v, tight)
		}
		data := m.pack()
		rb := bufioutil.NewBuffer(data)
		br := bit.NewReader(rb)
		for i := 0; i < pre; i++ {
			_, _ = br.ReadBit()
		}
		dec := encoding.NewXORDecoder(br)
		for i := 0; i < n; i++ {
			if !dec.Next() {
				t.Fatalf("XORDecoder.Next() false at value %d of %d (windows %d)", i, n, st.windows)
			}
			if g := dec.Value(); g != vals[i] {
				t.Fatalf("value %d decoded %016x, reference encoder wrote %016x (windows opened %d, sequence %v)", i, g, vals[i], st.windows, hex(vals))
			}
		}
		classes := valueClasses(vals)
		if st.windows > 1 {
			classes = append(classes, "window-change")
		}
		ev.Case("TestXORDecoderDocumentedFormat", fmt.Sprintf("%d|%v|%v", pre, tight, hex(vals)), n >= 2 && st.windows > 1, classes,
			map[string]any{"len": n, "windows": st.windows, "pre": pre})
	})
}

func dedup(in []string) []string {
	seen := map[string]bool{}
	out := in[:0:0]
	for _, s := range in {
		if !seen[s] {
			seen[s] = true
			out = append(out, s)
		}
	}
	return out
}
