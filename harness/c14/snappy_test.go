package c14

import (
	"bytes"
	"fmt"
	"hash/fnv"
	"testing"

	"pgregory.net/rapid"

	"github.com/lindb/lindb/pkg/compress"
	"github.com/lindb/lindb/verifharness/sim/ev"
)

// genRow draws one row written into a replication chunk: empty, small, compressible, random and
// (rarely) larger than snappy's 64 KiB block.
func genRow(t *rapid.T, label string) ([]byte, string) {
	switch rapid.IntRange(0, 11).Draw(t, label+"k") {
	case 0:
		return nil, "empty"
	case 1, 2, 3:
		return rapid.SliceOfN(rapid.Byte(), 1, 40).Draw(t, label+"s"), "small"
	case 4, 5, 6:
		unit := rapid.SliceOfN(rapid.Byte(), 1, 12).Draw(t, label+"u")
		return bytes.Repeat(unit, rapid.IntRange(2, 200).Draw(t, label+"rep")), "repetitive"
	case 7, 8:
		n := rapid.IntRange(41, 2000).Draw(t, label+"n")
		seed := rapid.Uint64().Draw(t, label+"seed")
		return pseudoBytes(seed, n), "incompressible"
	case 9:
		return bytes.Repeat([]byte{byte(rapid.IntRange(0, 255).Draw(t, label+"z"))}, rapid.IntRange(1, 5000).Draw(t, label+"zn")), "constant"
	case 10:
		n := rapid.IntRange(65000, 70000).Draw(t, label+"bn")
		unit := rapid.SliceOfN(rapid.Byte(), 1, 64).Draw(t, label+"bu")
		out := bytes.Repeat(unit, n/len(unit)+1)[:n]
		return out, ">64KiB-repetitive"
	default:
		n := rapid.IntRange(65530, 66000).Draw(t, label+"rn")
		return pseudoBytes(rapid.Uint64().Draw(t, label+"rseed"), n), ">64KiB-random"
	}
}

// pseudoBytes expands a drawn seed into n incompressible bytes (xorshift; the seed is a rapid
// draw, so the run stays a pure function of the rapid seed).
func pseudoBytes(seed uint64, n int) []byte {
	if seed == 0 {
		seed = 0x9E3779B97F4A7C15
	}
	out := make([]byte, n)
	for i := range out {
		seed ^= seed << 13
		seed ^= seed >> 7
		seed ^= seed << 17
		out[i] = byte(seed >> 24)
	}
	return out
}

type snappyChunk struct {
	plain      []byte
	compressed []byte
}

// snappyProperty: a chunk = rows written to one long-lived writer, Close, Bytes (replica/chunk.go);
// Uncompress on one long-lived reader (replica/replicator_local.go) returns the concatenated rows,
// for every chunk, in any order, also after the reader rejected a corrupted message.
func snappyProperty(t *rapid.T) {
	w := compress.NewSnappyWriter()
	r := compress.NewSnappyReader()
	nChunks := rapid.IntRange(1, 5).Draw(t, "chunks")
	var chunks []snappyChunk
	var classes []string
	canon := fnv.New64a()
	nt := false
	for c := 0; c < nChunks; c++ {
		l := fmt.Sprintf("c%d", c)
		nRows := rapid.IntRange(1, 6).Draw(t, l+"rows")
		var plain []byte
		for i := 0; i < nRows; i++ {
			row, kind := genRow(t, fmt.Sprintf("%sr%d", l, i))
			n, err := w.Write(row)
			if err != nil || n != len(row) {
				t.Fatalf("Write(%d bytes) = %d,%v", len(row), n, err)
			}
			plain = append(plain, row...)
			classes = append(classes, "row="+kind)
		}
		if len(plain) == 0 {
			// chunk.Compress() never closes an empty chunk; put one byte in, as IsEmpty() would demand
			_, _ = w.Write([]byte{0x2a})
			plain = append(plain, 0x2a)
		}
		if err := w.Close(); err != nil {
			t.Fatalf("Close: %v", err)
		}
		comp := w.Bytes()
		if len(comp) == 0 {
			t.Fatalf("chunk of %d bytes compressed to nothing", len(plain))
		}
		chunks = append(chunks, snappyChunk{plain: plain, compressed: comp})
		_, _ = canon.Write(plain)
		_, _ = canon.Write([]byte{0xff, byte(nRows)})
		if len(plain) >= 2 && (c > 0 || nRows > 1 || len(plain) > 65536) {
			nt = true
		}
		if len(plain) > 65536 {
			classes = append(classes, "chunk>64KiB")
		}
	}
	// the writer must hand out independent buffers: a later chunk may not change an earlier one
	order := rapid.Permutation(indices(len(chunks))).Draw(t, "order")
	for k, idx := range order {
		ch := chunks[idx]
		if rapid.IntRange(0, 3).Draw(t, fmt.Sprintf("corrupt%d", k)) == 0 {
			bad := corrupt(t, fmt.Sprintf("bad%d", k), ch.compressed)
			_, _ = r.Uncompress(bad) // rejected or garbage: either way the reader must stay usable
			classes = append(classes, "corrupted-message-before")
		}
		out, err := r.Uncompress(ch.compressed)
		if err != nil {
			t.Fatalf("Uncompress chunk %d (%d -> %d bytes): %v", idx, len(ch.plain), len(ch.compressed), err)
		}
		if !bytes.Equal(out, ch.plain) {
			t.Fatalf("chunk %d: uncompressed %d bytes, compressed %d bytes; first difference at %d", idx, len(out), len(ch.plain), firstDiff(out, ch.plain))
		}
		// a reader without history agrees
		out2, err := compress.NewSnappyReader().Uncompress(ch.compressed)
		if err != nil || !bytes.Equal(out2, ch.plain) {
			t.Fatalf("chunk %d: fresh reader: %v / equal=%v", idx, err, bytes.Equal(out2, ch.plain))
		}
	}
	ev.Case("TestSnappyChunk", fmt.Sprintf("%x/%v", canon.Sum64(), order), nt, dedup(append(classes, fmt.Sprintf("chunks=%d", nChunks))),
		map[string]any{"chunks": nChunks, "sizes": sizes(chunks)})
}

func sizes(chunks []snappyChunk) [][2]int {
	out := make([][2]int, len(chunks))
	for i, c := range chunks {
		out[i] = [2]int{len(c.plain), len(c.compressed)}
	}
	return out
}

func indices(n int) []int {
	out := make([]int, n)
	for i := range out {
		out[i] = i
	}
	return out
}

func firstDiff(a, b []byte) int {
	for i := 0; i < len(a) && i < len(b); i++ {
		if a[i] != b[i] {
			return i
		}
	}
	if len(a) < len(b) {
		return len(a)
	}
	return len(b)
}

// corrupt returns a damaged copy of a compressed message: truncated, one byte flipped, or junk.
func corrupt(t *rapid.T, label string, msg []byte) []byte {
	out := append([]byte(nil), msg...)
	switch rapid.IntRange(0, 2).Draw(t, label+"k") {
	case 0:
		return out[:rapid.IntRange(0, len(out)-1).Draw(t, label+"cut")]
	case 1:
		i := rapid.IntRange(0, len(out)-1).Draw(t, label+"at")
		out[i] ^= byte(rapid.IntRange(1, 255).Draw(t, label+"x"))
		return out
	default:
		return rapid.SliceOfN(rapid.Byte(), 0, 30).Draw(t, label+"junk")
	}
}

func TestSnappyChunk(t *testing.T) { rapid.Check(t, snappyProperty) }

// FuzzSnappyUncompress: arbitrary message bytes never panic the reader and never disturb the next
// message; arbitrary plain bytes round-trip.
func FuzzSnappyUncompress(f *testing.F) {
	w0 := compress.NewSnappyWriter()
	_, _ = w0.Write([]byte("hello hello hello hello"))
	_ = w0.Close()
	f.Add(w0.Bytes())
	f.Add([]byte{0xff, 0x06, 0x00, 0x00, 's', 'N', 'a', 'P', 'p', 'Y'})
	f.Add([]byte{})
	f.Fuzz(func(t *testing.T, data []byte) {
		r := compress.NewSnappyReader()
		_, _ = r.Uncompress(data) // as a message: may be rejected
		w := compress.NewSnappyWriter()
		if _, err := w.Write(data); err != nil { // as a payload: must round-trip
			t.Fatalf("Write: %v", err)
		}
		if err := w.Close(); err != nil {
			t.Fatalf("Close: %v", err)
		}
		comp := w.Bytes()
		out, err := r.Uncompress(comp)
		if err != nil || !bytes.Equal(out, data) {
			t.Fatalf("round trip of %d bytes after a fuzzed message: err=%v equal=%v", len(data), err, bytes.Equal(out, data))
		}
	})
}
