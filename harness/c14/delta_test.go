package c14

import (
	"fmt"
	"math"
	"math/bits"
	"testing"

	"pgregory.net/rapid"

	"github.com/lindb/lindb/pkg/encoding"
	"github.com/lindb/lindb/verifharness/sim/ev"
)

// genInt32Seq draws a non-empty int32 sequence: ascending / descending runs with small steps
// (what a delta codec is made for), constants, arbitrary values and the int32 extremes (deltas
// that wrap around int32).
func genInt32Seq(t *rapid.T, label string) ([]int32, string) {
	n := genLen(t, label+"n")
	if n > 200 {
		n = 200
	}
	kind := rapid.SampledFrom([]string{"ascending", "descending", "constant", "random", "extremes", "walk", "wide-steps"}).Draw(t, label+"K")
	out := make([]int32, n)
	cur := rapid.Int32().Draw(t, label+"first")
	if kind != "random" && kind != "extremes" {
		cur = rapid.Int32Range(-1<<20, 1<<20).Draw(t, label+"firstS")
	}
	for i := range out {
		l := fmt.Sprintf("%s%d", label, i)
		switch kind {
		case "ascending":
			cur += rapid.Int32Range(0, 300).Draw(t, l)
		case "descending":
			cur -= rapid.Int32Range(0, 300).Draw(t, l)
		case "constant":
		case "random":
			cur = rapid.Int32().Draw(t, l)
		case "extremes":
			cur = rapid.SampledFrom([]int32{math.MinInt32, math.MaxInt32, 0, -1, 1, math.MinInt32 + 1, math.MaxInt32 - 1}).Draw(t, l)
		case "walk":
			cur += rapid.Int32Range(-5, 5).Draw(t, l)
		default:
			cur += rapid.Int32Range(-(1 << 24), 1<<24).Draw(t, l)
		}
		out[i] = cur
	}
	return out, kind
}

// deltaWidth is the packed bit width the documented format needs: bits of (max delta - min delta).
func deltaWidth(vals []int32) int {
	if len(vals) < 2 {
		return 0
	}
	var lo, hi int64 = math.MaxInt64, math.MinInt64
	for i := 1; i < len(vals); i++ {
		d := int64(int32(vals[i-1] - vals[i])) // deltas live in int32 (wrap-around) in the format
		if d < lo {
			lo = d
		}
		if d > hi {
			hi = d
		}
	}
	return bits.Len64(uint64(hi - lo))
}

// TestDeltaBitPacking: every non-empty int32 sequence written by DeltaBitPackingEncoder is read
// back exactly by DeltaBitPackingDecoder; encoder and decoder are reused (Reset) over several
// sequences, including encoders abandoned after some Add calls.
//
// The codec has no production caller on this tree, so only its own documented contract is used:
// Add any int32, Bytes(), decoder HasNext/Next. The empty sequence cannot be represented by the
// format (the count field stores len-1); it is only checked for "does not panic" and counted.
func TestDeltaBitPacking(t *testing.T) {
	rapid.Check(t, func(t *rapid.T) {
		rounds := rapid.IntRange(1, 4).Draw(t, "rounds")
		enc := encoding.NewDeltaBitPackingEncoder()
		var dec *encoding.DeltaBitPackingDecoder
		canon := ""
		nt := false
		var classes []string
		for round := 0; round < rounds; round++ {
			l := fmt.Sprintf("r%d", round)
			// a fresh encoder may be used without Reset (constructor contract); later rounds Reset
			if round > 0 || rapid.Bool().Draw(t, l+"resetFirst") {
				enc.Reset()
			}
			if rapid.IntRange(0, 15).Draw(t, l+"empty") == 0 {
				data := append([]byte(nil), enc.Bytes()...)
				d := encoding.NewDeltaBitPackingDecoder(data)
				k := 0
				for d.HasNext() && k < 4 {
					_ = d.Next()
					k++
				}
				classes = append(classes, fmt.Sprintf("empty-sequence-decodes-to-%d-values", k))
				enc.Reset()
			}
			vals, kind := genInt32Seq(t, l)
			for _, v := range vals {
				enc.Add(v)
			}
			if round < rounds-1 && rapid.IntRange(0, 4).Draw(t, l+"abandon") == 0 {
				classes = append(classes, "abandoned-encoder")
				continue
			}
			data := append([]byte(nil), enc.Bytes()...)
			// trailing bytes after the packed block must not matter (blocks are embedded in files)
			data = append(data, rapid.SliceOfN(rapid.Byte(), 0, 3).Draw(t, l+"trail")...)
			damagedBefore := false
			if rapid.IntRange(0, 2).Draw(t, l+"damagedFirst") == 0 {
				// a damaged block first (header or packed deltas cut, flipped, junk): whatever the decoder makes
				// of it, after Reset it must read the intact block exactly
				bad, kind := damageBytes(t, l+"dmg", data, 0)
				noPanic(t, fmt.Sprintf("round %d, damaged block (%s, %d of %d bytes)", round, kind, len(bad), len(data)), func() {
					if dec == nil {
						dec = encoding.NewDeltaBitPackingDecoder(bad)
					} else {
						dec.Reset(bad)
					}
					for k := 0; k < 300 && dec.HasNext(); k++ {
						_ = dec.Next()
					}
				})
				classes = append(classes, "damaged-block-before", "damaged="+kind)
				damagedBefore = true
			}
			if !damagedBefore && (dec == nil || rapid.IntRange(0, 3).Draw(t, l+"newDec") == 0) {
				dec = encoding.NewDeltaBitPackingDecoder(data)
			} else {
				dec.Reset(data)
				classes = append(classes, "reused-decoder")
			}
			stop := len(vals)
			if round < rounds-1 && rapid.IntRange(0, 3).Draw(t, l+"partial") == 0 {
				stop = rapid.IntRange(0, len(vals)).Draw(t, l+"stop")
			}
			for i := 0; i < stop; i++ {
				if !dec.HasNext() {
					t.Fatalf("round %d: HasNext false at %d of %d (%v)", round, i, len(vals), vals)
				}
				if g := dec.Next(); g != vals[i] {
					t.Fatalf("round %d: value %d decoded %d, encoded %d (kind %s, %v)", round, i, g, vals[i], kind, vals)
				}
			}
			if stop == len(vals) && dec.HasNext() {
				t.Fatalf("round %d: HasNext true after %d values", round, len(vals))
			}
			w := deltaWidth(vals)
			if len(vals) >= 2 && (w >= 17 || round > 0 || damagedBefore) {
				nt = true
			}
			classes = append(classes, "kind="+kind, fmt.Sprintf("widthBytes=%d", (w+7)/8))
			canon += fmt.Sprintf("%v;", vals)
		}
		ev.Case("TestDeltaBitPacking", canon, nt, dedup(append(classes, fmt.Sprintf("rounds=%d", rounds))),
			map[string]any{"rounds": rounds})
	})
}

// TestZigZag: the zig-zag mapping used for the min-delta field is a bijection int64 <-> uint64
// that maps small magnitudes to small codes.
func TestZigZag(t *testing.T) {
	rapid.Check(t, func(t *rapid.T) {
		v := int64(genInt(t, "v", 64))
		u := encoding.ZigZagEncode(v)
		if g := encoding.ZigZagDecode(u); g != v {
			t.Fatalf("ZigZagDecode(ZigZagEncode(%d)) = %d", v, g)
		}
		var want uint64
		if v >= 0 {
			want = uint64(v) * 2
		} else {
			want = uint64(-(v+1))*2 + 1
		}
		if u != want {
			t.Fatalf("ZigZagEncode(%d) = %d, definition gives %d", v, u, want)
		}
		x := genInt(t, "x", 32)
		hi, lo := encoding.HighBits(uint32(x)), encoding.LowBits(uint32(x))
		if encoding.ValueWithHighLowBits(uint32(hi)<<16, lo) != uint32(x) {
			t.Fatalf("HighBits/LowBits/ValueWithHighLowBits(%d)", x)
		}
		ev.Case("TestZigZag", fmt.Sprintf("%d/%d", v, x), v < 0 || v > 1<<32, nil, map[string]any{"v": v})
	})
}
