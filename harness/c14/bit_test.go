package c14

import (
	"bytes"
	"fmt"
	"testing"

	"pgregory.net/rapid"

	"github.com/lindb/lindb/pkg/bit"
	"github.com/lindb/lindb/pkg/bufioutil"
	"github.com/lindb/lindb/verifharness/sim/ev"
)

// model of a bit stream: one bool per bit, most significant bit of every byte first.
type bitModel struct{ bits []bool }

func (m *bitModel) push(u uint64, n int) {
	for i := n - 1; i >= 0; i-- {
		m.bits = append(m.bits, (u>>uint(i))&1 == 1)
	}
}

// pack renders the model as bytes, zero padded to a byte boundary.
func (m *bitModel) pack() []byte {
	out := make([]byte, (len(m.bits)+7)/8)
	for i, b := range m.bits {
		if b {
			out[i/8] |= 0x80 >> uint(i%8)
		}
	}
	return out
}

func (m *bitModel) take(pos, n int) uint64 {
	var u uint64
	for i := 0; i < n; i++ {
		u <<= 1
		if pos+i < len(m.bits) && m.bits[pos+i] {
			u |= 1
		}
	}
	return u
}

type bitOp struct {
	Kind string // bit, bits, byte
	N    int
	V    uint64
}

func genBitOps(t *rapid.T, label string) []bitOp {
	n := rapid.IntRange(0, 40).Draw(t, label+"N")
	ops := make([]bitOp, 0, n)
	for i := 0; i < n; i++ {
		l := fmt.Sprintf("%s%d", label, i)
		switch rapid.IntRange(0, 5).Draw(t, l+"K") {
		case 0, 1:
			v := uint64(0)
			if rapid.Bool().Draw(t, l+"B") {
				v = 1
			}
			ops = append(ops, bitOp{"bit", 1, v})
		case 2:
			ops = append(ops, bitOp{"byte", 8, uint64(rapid.Byte().Draw(t, l+"By"))})
		default:
			nb := rapid.IntRange(0, 64).Draw(t, l+"W")
			if rapid.IntRange(0, 3).Draw(t, l+"Wk") == 0 {
				nb = rapid.SampledFrom([]int{0, 1, 6, 7, 8, 9, 16, 32, 63, 64}).Draw(t, l+"Ws")
			}
			// the value may have garbage above numBits: WriteBits must only keep the low numBits
			ops = append(ops, bitOp{"bits", nb, rapid.Uint64().Draw(t, l+"V")})
		}
	}
	return ops
}

// bitStreamProperty: whatever sequence of WriteBit/WriteBits/WriteByte produced a stream, it
// equals the MSB-first packing of the written bits and reading it back with ANY partition into
// ReadBit/ReadBits/ReadByte returns the same bits; writer and reader are reused for a second
// stream (Reset) and must not leak state of the first.
func bitStreamProperty(t *rapid.T) {
	rounds := rapid.IntRange(1, 3).Draw(t, "rounds")
	var buf bytes.Buffer
	w := bit.NewWriter(&buf)
	rb := bufioutil.NewBuffer(nil)
	r := bit.NewReader(rb)
	total := 0
	canon := ""
	abandoned := false
	truncBefore := false
	for round := 0; round < rounds; round++ {
		if round > 0 {
			buf.Reset()
			w.Reset(&buf)
		}
		ops := genBitOps(t, fmt.Sprintf("w%d_", round))
		var m bitModel
		for _, op := range ops {
			var err error
			switch op.Kind {
			case "bit":
				err = w.WriteBit(bit.Bit(op.V == 1))
				m.push(op.V, 1)
			case "byte":
				err = w.WriteByte(byte(op.V))
				m.push(op.V, 8)
			default:
				err = w.WriteBits(op.V, op.N)
				m.push(op.V, op.N)
			}
			if err != nil {
				t.Fatalf("write %+v: %v", op, err)
			}
		}
		// an abandoned stream: not flushed, the writer is simply reset for the next round
		if round < rounds-1 && rapid.IntRange(0, 3).Draw(t, fmt.Sprintf("abandon%d", round)) == 0 {
			abandoned = true
			continue
		}
		if err := w.Flush(); err != nil {
			t.Fatalf("flush: %v", err)
		}
		want := m.pack()
		got := append([]byte(nil), buf.Bytes()...)
		if !bytes.Equal(got, want) {
			t.Fatalf("round %d: stream bytes %x, MSB-first packing of the written bits %x (ops %+v)", round, got, want, ops)
		}
		// a truncated copy of the stream first: the reader runs past its end (an error is reported, see
		// below), is Reset and must then read the intact stream exactly
		if len(got) > 0 && rapid.IntRange(0, 2).Draw(t, fmt.Sprintf("truncFirst%d", round)) == 0 {
			cut := rapid.IntRange(0, len(got)-1).Draw(t, fmt.Sprintf("truncAt%d", round))
			rb.SetBuf(got[:cut:cut])
			r.Reset()
			asked, sawErr := 0, false
			extra := rapid.IntRange(0, 3).Draw(t, fmt.Sprintf("truncExtra%d", round)) // reads after the first error
			for i := 0; i < 400 && extra >= 0; i++ {
				l := fmt.Sprintf("t%d_%d", round, i)
				var err error
				switch rapid.IntRange(0, 2).Draw(t, l+"K") {
				case 0:
					_, err = r.ReadBit()
					asked++
				case 1:
					_, err = r.ReadByte()
					asked += 8
				default:
					n := rapid.IntRange(1, 64).Draw(t, l+"N")
					_, err = r.ReadBits(n)
					asked += n
				}
				if err != nil {
					sawErr = true
					extra--
				} else if asked > cut*8 && !sawErr {
					t.Fatalf("round %d: %d bits read from a stream of %d bits and no error was reported", round, asked, cut*8)
				}
			}
			truncBefore = true
		}
		// read back with an independent partition
		rb.SetBuf(got)
		r.Reset()
		pos := 0
		nbits := len(want) * 8
		stopEarly := round < rounds-1 && rapid.Bool().Draw(t, fmt.Sprintf("stopEarly%d", round))
		for i := 0; pos < nbits; i++ {
			l := fmt.Sprintf("r%d_%d", round, i)
			if stopEarly && pos > nbits/2 {
				break // leave the reader in the middle of a byte for the next round
			}
			switch rapid.IntRange(0, 3).Draw(t, l+"K") {
			case 0:
				b, err := r.ReadBit()
				if err != nil {
					t.Fatalf("ReadBit at %d/%d: %v", pos, nbits, err)
				}
				if uint64(boolToInt(bool(b))) != m.take(pos, 1) {
					t.Fatalf("ReadBit at bit %d = %v, model %d", pos, b, m.take(pos, 1))
				}
				pos++
			case 1:
				if nbits-pos < 8 {
					continue
				}
				b, err := r.ReadByte()
				if err != nil {
					t.Fatalf("ReadByte at %d/%d: %v", pos, nbits, err)
				}
				if uint64(b) != m.take(pos, 8) {
					t.Fatalf("ReadByte at bit %d = %02x, model %02x", pos, b, m.take(pos, 8))
				}
				pos += 8
			default:
				maxN := nbits - pos
				if maxN > 64 {
					maxN = 64
				}
				n := rapid.IntRange(0, maxN).Draw(t, l+"N")
				u, err := r.ReadBits(n)
				if err != nil {
					t.Fatalf("ReadBits(%d) at %d/%d: %v", n, pos, nbits, err)
				}
				if u != m.take(pos, n) {
					t.Fatalf("ReadBits(%d) at bit %d = %x, model %x", n, pos, u, m.take(pos, n))
				}
				pos += n
			}
		}
		if pos == nbits {
			// the stream is exhausted: a further read must report an error, not invent bits
			if _, err := r.ReadBit(); err == nil {
				t.Fatalf("ReadBit after the last bit (%d) returned no error", nbits)
			}
		}
		total += len(m.bits)
		canon += fmt.Sprintf("%x/%d;", want, len(m.bits))
	}
	classes := []string{fmt.Sprintf("rounds=%d", rounds)}
	if abandoned {
		classes = append(classes, "abandoned-unflushed-writer")
	}
	if total%8 != 0 {
		classes = append(classes, "unaligned")
	}
	if truncBefore {
		classes = append(classes, "reader-ran-past-truncated-end-before")
	}
	ev.Case("TestBitStream", canon, total >= 2 && (rounds > 1 || total%8 != 0), classes,
		map[string]any{"rounds": rounds, "bits": total})
}

func boolToInt(b bool) int {
	if b {
		return 1
	}
	return 0
}

func TestBitStream(t *testing.T) { rapid.Check(t, bitStreamProperty) }

func FuzzBitStream(f *testing.F) {
	// rapid.MakeFuzz consumes 8 input bytes per draw: seeds must be a few KiB to describe a case
	f.Add(pseudoBytes(1, 4096))
	f.Add(pseudoBytes(2, 8192))
	f.Add(make([]byte, 4096))
	f.Fuzz(rapid.MakeFuzz(bitStreamProperty))
}
