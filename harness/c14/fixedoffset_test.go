package c14

import (
	"bytes"
	"encoding/binary"
	"fmt"
	"sort"
	"testing"

	"pgregory.net/rapid"

	"github.com/lindb/lindb/pkg/encoding"
	"github.com/lindb/lindb/verifharness/sim/ev"
)

// bigBlock is the data block the offsets of GetBlock point into. It is larger than 2^24 bytes so
// that tables of every width (1..4 bytes per offset) can be checked with real slices; blocks are
// compared by identity (position and length inside bigBlock), contents are never copied.
var bigBlock = make([]byte, 1<<24+1<<16)

func init() {
	for i := 0; i < len(bigBlock); i += 509 {
		bigBlock[i] = byte(i * 31)
	}
}

const maxOffset = 1<<32 - 1

var offsetEdges = []int{0, 1, 254, 255, 256, 257, 65534, 65535, 65536, 65537, 1<<24 - 2, 1<<24 - 1, 1 << 24, 1<<24 + 1, 1<<31 - 1, 1 << 31, maxOffset - 1, maxOffset}

// genOffsets draws an ascending (not strictly: empty blocks repeat an offset) offset list as the
// table builder, the metric flusher (levels 2,3,4) produce them; magnitude decides the width.
func genOffsets(t *rapid.T, label string, limit int) []int {
	n := rapid.IntRange(1, 40).Draw(t, label+"n")
	if rapid.IntRange(0, 19).Draw(t, label+"big") == 0 {
		n = rapid.IntRange(41, 400).Draw(t, label+"nb")
	}
	var top int
	switch rapid.IntRange(0, 5).Draw(t, label+"mag") {
	case 0:
		top = 255
	case 1:
		top = 65535
	case 2:
		top = 1<<24 - 1
	case 3:
		top = rapid.SampledFrom(offsetEdges).Draw(t, label+"edge")
	case 4:
		top = rapid.IntRange(0, 1<<17).Draw(t, label+"top")
	default:
		top = limit
	}
	if top > limit {
		top = limit
	}
	out := make([]int, n)
	for i := range out {
		l := fmt.Sprintf("%s%d", label, i)
		switch rapid.IntRange(0, 5).Draw(t, l+"k") {
		case 0:
			out[i] = top
		case 1:
			e := rapid.SampledFrom(offsetEdges).Draw(t, l+"e")
			if e > top {
				e = top
			}
			out[i] = e
		default:
			out[i] = rapid.IntRange(0, top).Draw(t, l)
		}
	}
	sort.Ints(out)
	// production tables start where the first entry starts; offset 0 first is the common case
	if rapid.Bool().Draw(t, label+"zeroFirst") {
		out[0] = 0
	}
	return out
}

func minWidth(max int) int {
	switch {
	case max < 1<<8:
		return 1
	case max < 1<<16:
		return 2
	case max < 1<<24:
		return 3
	default:
		return 4
	}
}

// subSliceOf reports where block lies inside parent (identity, not content).
func subSliceOf(parent, block []byte) (start, end int, ok bool) {
	start = cap(parent) - cap(block)
	end = start + len(block)
	if start < 0 || end > len(parent) {
		return 0, 0, false
	}
	if len(block) > 0 && &parent[start] != &block[0] {
		return 0, 0, false
	}
	return start, end, true
}

// checkTable compares an unmarshalled decoder with the model offsets.
func checkTable(t failer, dec *encoding.FixedOffsetDecoder, offs []int, dataLen int) {
	n := len(offs)
	if dec.Size() != n {
		t.Fatalf("Size() = %d, encoded %d offsets", dec.Size(), n)
	}
	if w := dec.ValueWidth(); w != minWidth(offs[n-1]) {
		t.Fatalf("ValueWidth() = %d, minimal width for max offset %d is %d", w, offs[n-1], minWidth(offs[n-1]))
	}
	for i, want := range offs {
		g, ok := dec.Get(i)
		if !ok || g != want {
			t.Fatalf("Get(%d) = %d,%v; encoded %d (offsets %v)", i, g, ok, want, capList(offs, 50))
		}
	}
	if _, ok := dec.Get(n); ok {
		t.Fatalf("Get(%d) beyond the table returned a value", n)
	}
	if _, ok := dec.Get(-1); ok {
		t.Fatalf("Get(-1) returned a value")
	}
	// blocks: [off[i], off[i+1]) and the last one up to the end of the data block
	data := bigBlock[:dataLen:dataLen]
	step := 1
	if n > 64 {
		step = n / 64
	}
	for i := 0; i < n; i += step {
		checkBlock(t, dec, offs, i, data)
	}
	checkBlock(t, dec, offs, n-1, data)
	if _, err := dec.GetBlock(n, data); err == nil {
		t.Fatalf("GetBlock(%d) beyond the table returned no error", n)
	}
}

func checkBlock(t failer, dec *encoding.FixedOffsetDecoder, offs []int, i int, data []byte) {
	wantS, wantE := offs[i], len(data)
	if i+1 < len(offs) {
		wantE = offs[i+1]
	}
	blk, err := dec.GetBlock(i, data)
	if wantE > len(data) || wantS > len(data) {
		// the data block is shorter than the table says: corrupted input, must be rejected
		if err == nil {
			t.Fatalf("GetBlock(%d) on a %d byte block returned %d bytes for range [%d,%d)", i, len(data), len(blk), wantS, wantE)
		}
		return
	}
	if err != nil {
		t.Fatalf("GetBlock(%d): %v; model range [%d,%d) of %d", i, err, wantS, wantE, len(data))
	}
	s, e, ok := subSliceOf(data, blk)
	if !ok || s != wantS || e != wantE {
		if len(blk) == 0 && wantS == wantE {
			return // an empty block has no identity
		}
		t.Fatalf("GetBlock(%d) = data[%d:%d] (ok=%v), model data[%d:%d] (offsets %v)", i, s, e, ok, wantS, wantE, capList(offs, 50))
	}
}

func marshalOffsets(t failer, enc *encoding.FixedOffsetEncoder, offs []int, viaWrite bool) []byte {
	if enc.Size() != len(offs) || enc.IsEmpty() {
		t.Fatalf("encoder Size()=%d IsEmpty=%v after %d Add", enc.Size(), enc.IsEmpty(), len(offs))
	}
	var data []byte
	if viaWrite {
		var buf bytes.Buffer
		buf.WriteString("xx") // the flushers append the table to a stream that already has content
		if err := enc.Write(&buf); err != nil {
			t.Fatalf("Write: %v", err)
		}
		data = append([]byte(nil), buf.Bytes()[2:]...)
	} else {
		data = append([]byte(nil), enc.MarshalBinary()...)
	}
	if len(data) != enc.MarshalSize() {
		t.Fatalf("marshalled %d bytes, MarshalSize() = %d", len(data), enc.MarshalSize())
	}
	// documented layout: width byte, uvarint count, count little-endian values of that width
	w := minWidth(offs[len(offs)-1])
	want := []byte{byte(w)}
	want = binary.AppendUvarint(want, uint64(len(offs)))
	for _, o := range offs {
		var b [4]byte
		binary.LittleEndian.PutUint32(b[:], uint32(o))
		want = append(want, b[:w]...)
	}
	if !bytes.Equal(data, want) {
		t.Fatalf("table bytes %x, documented layout %x", capList(data, 64), capList(want, 64))
	}
	return data
}

// TestFixedOffset: an ascending offset list (values up to 2^32-1) added to a FixedOffsetEncoder -
// fresh or Reset after earlier tables - marshals to the documented minimal-width layout and a
// FixedOffsetDecoder (new, or from the pool after other tables and after rejected input) returns
// every offset and, for a data block, exactly the slices [off[i], off[i+1]).
func TestFixedOffset(t *testing.T) {
	rapid.Check(t, func(t *rapid.T) {
		rounds := rapid.IntRange(1, 4).Draw(t, "rounds")
		enc := encoding.NewFixedOffsetEncoder(true)
		held := encoding.NewFixedOffsetDecoder()
		canon := ""
		nt := false
		var classes []string
		for round := 0; round < rounds; round++ {
			l := fmt.Sprintf("r%d", round)
			withBlocks := rapid.IntRange(0, 3).Draw(t, l+"blocks") != 0
			limit := maxOffset
			if withBlocks {
				limit = len(bigBlock)
			}
			offs := genOffsets(t, l, limit)
			if round > 0 {
				enc.Reset()
				if !enc.IsEmpty() || enc.Size() != 0 {
					t.Fatalf("encoder not empty after Reset")
				}
			}
			for _, o := range offs {
				enc.Add(o)
			}
			if round < rounds-1 && rapid.IntRange(0, 4).Draw(t, l+"abandon") == 0 {
				classes = append(classes, "abandoned-encoder")
				continue
			}
			data := marshalOffsets(t, enc, offs, rapid.Bool().Draw(t, l+"viaWrite"))
			trailing := rapid.SliceOfN(rapid.Byte(), 0, 6).Draw(t, l+"trail")
			full := append(append([]byte(nil), data...), trailing...)

			var dec *encoding.FixedOffsetDecoder
			src := rapid.SampledFrom([]string{"new", "held", "pool", "pool"}).Draw(t, l+"dec")
			switch src {
			case "new":
				dec = encoding.NewFixedOffsetDecoder()
			case "held":
				dec = held
			default:
				dec = encoding.GetFixedOffsetDecoder()
			}
			if rapid.IntRange(0, 3).Draw(t, l+"garbageFirst") == 0 {
				// the readers ignore the error of Unmarshal in one place; a rejected input must leave
				// a decoder that answers "nothing" and is fully usable afterwards
				bad, kind := rapid.SliceOfN(rapid.Byte(), 0, 12).Draw(t, l+"bad"), "junk"
				if rapid.Bool().Draw(t, l+"badOfReal") {
					// a damaged copy of the real table: cut inside the header / the count / the offsets, flipped ...
					bad, kind = damageBytes(t, l+"dmg", data, 0)
				}
				classes = append(classes, "damaged="+kind)
				if _, err := dec.Unmarshal(bad); err != nil {
					if _, ok := dec.Get(0); ok {
						t.Fatalf("decoder answers Get(0) after rejecting %x", bad)
					}
					classes = append(classes, "rejected-input-before")
				}
			}
			left, err := dec.Unmarshal(full)
			if err != nil {
				t.Fatalf("Unmarshal: %v (offsets %v)", err, capList(offs, 50))
			}
			if !bytes.Equal(left, trailing) {
				t.Fatalf("Unmarshal left %x, bytes after the table %x", left, trailing)
			}
			dataLen := 0
			if withBlocks {
				dataLen = offs[len(offs)-1] + rapid.IntRange(0, 64).Draw(t, l+"tail")
				if dataLen > len(bigBlock) {
					dataLen = len(bigBlock)
				}
				if rapid.IntRange(0, 9).Draw(t, l+"short") == 0 {
					dataLen = rapid.IntRange(0, dataLen).Draw(t, l+"shortLen") // truncated data block
					classes = append(classes, "truncated-data-block")
				}
			}
			checkTable(t, dec, offs, dataLen)
			if src == "pool" {
				encoding.ReleaseFixedOffsetDecoder(dec)
			}
			w := minWidth(offs[len(offs)-1])
			if len(offs) >= 2 && (w >= 3 || round > 0 || src != "new") {
				nt = true
			}
			classes = append(classes, fmt.Sprintf("width=%d", w), "dec="+src)
			if withBlocks {
				classes = append(classes, "get-block")
			}
			canon += fmt.Sprintf("%v/%d;", offs, dataLen)
		}
		ev.Case("TestFixedOffset", canon, nt, dedup(append(classes, fmt.Sprintf("rounds=%d", rounds))),
			map[string]any{"rounds": rounds})
	})
}

// TestFixedOffsetUnsorted: the encoder variants no production caller uses (ensureIncreasing=false,
// FromValues) still return every value by index; an empty table is rejected by the decoder.
func TestFixedOffsetUnsorted(t *testing.T) {
	rapid.Check(t, func(t *rapid.T) {
		n := rapid.IntRange(0, 30).Draw(t, "n")
		vals := make([]int, n)
		for i := range vals {
			if rapid.Bool().Draw(t, fmt.Sprintf("e%d", i)) {
				vals[i] = rapid.SampledFrom(offsetEdges).Draw(t, fmt.Sprintf("ev%d", i))
			} else {
				vals[i] = rapid.IntRange(0, maxOffset).Draw(t, fmt.Sprintf("v%d", i))
			}
		}
		enc := encoding.NewFixedOffsetEncoder(false)
		if rapid.Bool().Draw(t, "fromValues") {
			enc.Add(7) // FromValues documents that it resets first
			enc.FromValues(append([]int(nil), vals...))
		} else {
			for _, v := range vals {
				enc.Add(v)
			}
		}
		data := append([]byte(nil), enc.MarshalBinary()...)
		dec := encoding.NewFixedOffsetDecoder()
		_, err := dec.Unmarshal(data)
		if n == 0 {
			// no caller marshals an empty table: rejected or round-trips (Size()==0)
			if err == nil && dec.Size() != 0 {
				t.Fatalf("empty table unmarshals to %d values", dec.Size())
			}
			ev.Case("TestFixedOffsetUnsorted", "empty", false, []string{fmt.Sprintf("empty-rejected=%v", err != nil)}, nil)
			return
		}
		if err != nil {
			t.Fatalf("Unmarshal: %v", err)
		}
		if dec.Size() != n {
			t.Fatalf("Size() = %d, want %d", dec.Size(), n)
		}
		for i, want := range vals {
			if g, ok := dec.Get(i); !ok || g != want {
				t.Fatalf("Get(%d) = %d,%v; encoded %d", i, g, ok, want)
			}
		}
		ev.Case("TestFixedOffsetUnsorted", fmt.Sprint(vals), n >= 2, []string{fmt.Sprintf("width=%d", dec.ValueWidth())}, map[string]any{"n": n})
	})
}

// FuzzFixedOffsetUnmarshal: arbitrary bytes are either rejected or describe a table whose every
// entry equals an independent parse of the documented layout; GetBlock never panics and never
// returns a slice outside the data block.
func FuzzFixedOffsetUnmarshal(f *testing.F) {
	f.Add([]byte{1, 3, 0, 5, 9}, uint16(12))
	f.Add([]byte{4, 2, 0, 0, 0, 0, 255, 255, 255, 255}, uint16(3))
	f.Add([]byte{2, 0x80}, uint16(0))
	f.Add([]byte{0, 5}, uint16(1))
	f.Fuzz(func(t *testing.T, data []byte, blockLen uint16) {
		dec := encoding.GetFixedOffsetDecoder()
		defer encoding.ReleaseFixedOffsetDecoder(dec)
		left, err := dec.Unmarshal(data)
		if err != nil {
			if _, ok := dec.Get(0); ok {
				t.Fatalf("rejected input but Get(0) answers")
			}
			return
		}
		w := int(data[0])
		cnt, k := binary.Uvarint(data[1:])
		if w > 4 || k <= 0 {
			t.Fatalf("accepted width %d / count varint %d", w, k)
		}
		body := data[1+k:]
		if cnt > uint64(len(body)) && w > 0 {
			// only reachable when count*width overflows int (a corrupted header, not something an
			// encoder writes): outside C14; the decoder must at least not hand out entries
			if _, ok := dec.Get(0); ok && len(body) < w {
				t.Fatalf("accepted a table of %d x %d bytes in %d bytes and Get(0) answers", cnt, w, len(body))
			}
			return
		}
		if uint64(len(body)) < cnt*uint64(w) {
			t.Fatalf("accepted a table of %d x %d bytes in %d bytes", cnt, w, len(body))
		}
		if w > 0 && !bytes.Equal(left, body[int(cnt)*w:]) {
			t.Fatalf("left %x, expected %x", left, body[int(cnt)*w:])
		}
		block := bigBlock[:blockLen:blockLen]
		for i := 0; i < dec.Size() && i < 2000; i++ {
			var b [4]byte
			copy(b[:], body[i*w:(i+1)*w])
			want := int(binary.LittleEndian.Uint32(b[:]))
			if g, ok := dec.Get(i); !ok || g != want {
				t.Fatalf("Get(%d) = %d,%v; layout says %d", i, g, ok, want)
			}
			if blk, err := dec.GetBlock(i, block); err == nil {
				if s, e, ok := subSliceOf(block, blk); len(blk) > 0 && (!ok || s != want || e > len(block)) {
					t.Fatalf("GetBlock(%d) = [%d,%d) ok=%v, start offset %d", i, s, e, ok, want)
				}
			}
		}
	})
}
