package c14

import (
	"fmt"
	"math"

	"pgregory.net/rapid"

	"github.com/lindb/lindb/pkg/bit"
	"github.com/lindb/lindb/pkg/encoding"
)

// ---- owners: pooled objects that stay alive (and half-used) across steps of a reuse history ------------
//
// The reads of tsd_history_test.go's readPool/readHeld/readNew are atomic: Reset + one read plan inside
// one step. Production code also keeps SEVERAL pooled objects alive at the same time and advances them in
// turns: the series merger holds one pooled decoder per source stream and reads them slot by slot
// (tsdb/tblstore/metricsdata/series_merger.go), the memory database merges a stored block (pooled decoder)
// into a live one, and a multi-field stream reader (tsd_stream.go) owns a pooled decoder from
// NewTSDStreamReader until Close. An "owner" is such an object with a cursor that survives between steps:
//
//	dec   a decoder taken with GetTSDDecoder, bound to a stored block (rebound at will), released at any point
//	rd    a TSDStreamReader over a stored stream: HasNext (a pure question, asked at any time and as
//	      often as the history likes, also after the end), Next (skipping the unread rest of a field is
//	      allowed), incremental reads of the current field's decoder, Close at any point
//	enc   an encoder taken with GetTSDEncoder that writes its block a few slots per step (the flusher keeps
//	      one encoder per field and fills them in turns), stored when complete, or released half-written
//
// Up to maxOwners owners are alive at once and the history interleaves their steps at slot granularity.
// Every slot an owner reads must be the slot of ITS block - whatever the other owners, earlier (drained,
// closed early, never read) readers and released decoders did to the pool.

const maxOwners = 4

// pool control: a run must be a pure function of the seed. sync.Pool hands a released object to the
// next Get only when the goroutine stays on its P and no collection runs in between: the test runs with
// GOMAXPROCS(1), every case with the collector disabled (see c16 isolatePool), and a case starts with an
// empty decoder pool (drainDecoderPool) so that its verdict depends on its own history only.
var seenDecoders = map[*encoding.TSDDecoder]struct{}{}

// drainDecoderPool takes decoders out of the pool until three in a row are objects the previous case
// never held (= made by the pool's New): the pool is empty then, and what it held is dropped. The
// registry only has to cover one case: nothing of an earlier case can come out of an empty pool.
func drainDecoderPool() {
	fresh := 0
	for i := 0; i < 100000 && fresh < 3; i++ {
		d := encoding.GetTSDDecoder()
		if _, ok := seenDecoders[d]; ok {
			fresh = 0
		} else {
			seenDecoders[d] = struct{}{} // a second copy of it in a (broken) pool is not "fresh"
			fresh++
		}
	}
	clear(seenDecoders)
}

type storedStream struct {
	start uint16
	n     int
	ids   []uint16
	blks  []*tsdBlock
	raw   []byte
}

func (s *storedStream) String() string {
	return fmt.Sprintf("stream[%d+%d,%d fields]", s.start, s.n, len(s.ids))
}

// openWriter is a TSDStreamWriter that is still collecting fields.
type openWriter struct {
	w     encoding.TSDStreamWriter
	start uint16
	n     int
	ids   []uint16
	blks  []*tsdBlock
}

// cursor is an unfinished ascending read of one block through one decoder, in one of the production
// read styles (see readPlan): seq = Next/HasValue/Slot/Value, slot = HasValueWithSlot+Value, get = GetValue.
type cursor struct {
	dec  *encoding.TSDDecoder
	blk  *tsdBlock
	mode string
	next int // index of the next unread slot
	done bool
}

var cursorModes = []string{"seq", "slot", "get"}

// read advances the cursor by at most k slots (k < 0: to the end, including the end-of-block check).
func (c *cursor) read(t failer, who string, k int) int {
	if c.blk.bad != "" {
		return c.readBad(t, who, k)
	}
	start, n := int(c.blk.start), c.blk.n()
	cnt := 0
	for !c.done && (k < 0 || cnt < k) {
		i := c.next
		if i == n {
			// end of the block: the sequential iterator stops, a slot above the range has no value
			switch c.mode {
			case "seq":
				if c.dec.Next() {
					t.Fatalf("%s [seq] Next() true after the last slot of its block (%s)", who, c.blk)
				}
			default:
				if c.dec.HasValueWithSlot(uint16(c.blk.end() + 1)) {
					t.Fatalf("%s [%s] HasValueWithSlot(%d) true above its block (%s)", who, c.mode, c.blk.end()+1, c.blk)
				}
			}
			if err := c.dec.Error(); err != nil {
				t.Fatalf("%s [%s] decoder error after a complete read: %v (%s)", who, c.mode, err, c.blk)
			}
			c.done = true
			break
		}
		s := start + i
		want, wantHas := c.blk.at(s)
		switch c.mode {
		case "seq":
			if !c.dec.Next() {
				t.Fatalf("%s [seq] iteration ended after %d of %d slots of its block (%s)", who, i, n, c.blk)
			}
			has := c.dec.HasValue()
			if has != wantHas {
				t.Fatalf("%s [seq] slot %d: HasValue=%v, its block has %v (%s)", who, s, has, wantHas, c.blk)
			}
			if has {
				if int(c.dec.Slot()) != s {
					t.Fatalf("%s [seq] Slot()=%d, expected %d (%s)", who, c.dec.Slot(), s, c.blk)
				}
				if g := c.dec.Value(); g != want {
					t.Fatalf("%s [seq] slot %d: value %016x, encoded %016x (%s)", who, s, g, want, c.blk)
				}
			}
		case "slot":
			has := c.dec.HasValueWithSlot(uint16(s))
			if has != wantHas {
				t.Fatalf("%s [slot] HasValueWithSlot(%d) = %v; its block has %v (%s)", who, s, has, wantHas, c.blk)
			}
			if has {
				if g := c.dec.Value(); g != want {
					t.Fatalf("%s [slot] slot %d: value %016x, encoded %016x (%s)", who, s, g, want, c.blk)
				}
			}
		default:
			g, has := c.dec.GetValue(uint16(s))
			if has != wantHas || (has && !sameBits(g, want)) {
				t.Fatalf("%s [get] GetValue(%d) = %v,%v; its block has %016x,%v (%s)", who, s, g, has, want, wantHas, c.blk)
			}
		}
		c.next++
		cnt++
	}
	return cnt
}

func (c *cursor) midway() bool { return c != nil && !c.done && c.next > 0 }

type owner struct {
	id   int
	kind string               // "dec" | "rd" | "enc"
	dec  *encoding.TSDDecoder // dec: the pooled decoder; rd: the field decoder once Next() has shown it
	cur  *cursor

	enc   *encoding.TSDEncoder // enc: the pooled encoder and the block it is writing
	wblk  *tsdBlock
	wapi  string
	wnext int // enc: index of the next slot to append

	r      encoding.TSDStreamReader
	st     *storedStream
	field  int  // rd: number of Next() calls so far
	sawEnd bool // rd: HasNext()==false has been observed
	asked  int  // rd: HasNext() calls after the end had been observed
}

func (o *owner) who() string {
	switch o.kind {
	case "rd":
		return fmt.Sprintf("owner#%d(stream reader of %s, field %d/%d)", o.id, o.st, o.field, len(o.st.ids))
	case "enc":
		return fmt.Sprintf("owner#%d(pooled encoder)", o.id)
	}
	return fmt.Sprintf("owner#%d(pooled decoder)", o.id)
}

// midway: the owner has started and not finished a block.
func (o *owner) midway() bool {
	if o.kind == "enc" {
		return o.wblk != nil && o.wnext > 0 && o.wnext < o.wblk.n()
	}
	return o.cur.midway()
}

// write appends at most k further slots of the owner's block (k < 0: all that are left), exactly like
// encodeBlock does for a whole block.
func (o *owner) write(k int) int {
	cnt := 0
	for ; o.wnext < o.wblk.n() && (k < 0 || cnt < k); o.wnext, cnt = o.wnext+1, cnt+1 {
		i, m := o.wnext, o.wblk.mask[o.wnext]
		switch {
		case o.wapi == "emit" && m:
			o.enc.EmitDownSamplingValue(i, math.Float64frombits(o.wblk.vals[o.wblk.vidx[i]]))
		case o.wapi == "emit":
			o.enc.EmitDownSamplingValue(i, math.Inf(1))
		case m:
			o.enc.AppendTime(bit.One)
			o.enc.AppendValue(o.wblk.vals[o.wblk.vidx[i]])
		default:
			o.enc.AppendTime(bit.Zero)
		}
	}
	return cnt
}

// ---- ownership accounting --------------------------------------------------------------------------------

// acquire notes that who now owns decoder d. A pool that hands out an object which somebody still owns
// makes two legal users overwrite each other's position: it is recorded and reported at the end of the
// case unless a read has failed before (a wrong value is the better message).
func (h *tsdHistory) acquire(d any, who string) {
	if h.holders == nil {
		h.holders = map[any][]string{}
	}
	if dec, ok := d.(*encoding.TSDDecoder); ok {
		seenDecoders[dec] = struct{}{}
	}
	if cur := h.holders[d]; len(cur) > 0 && h.aliased == "" {
		h.aliased = fmt.Sprintf("step %d: %s was handed an object (%T) that %s still owns", h.step, who, d, cur[0])
	}
	h.holders[d] = append(h.holders[d], who)
}

func (h *tsdHistory) giveUp(d any) {
	if l := h.holders[d]; len(l) > 0 {
		h.holders[d] = l[:len(l)-1]
	}
}

// ---- owner steps -----------------------------------------------------------------------------------------

func (h *tsdHistory) newOwner(kind string) *owner {
	h.ownerSeq++
	o := &owner{id: h.ownerSeq, kind: kind}
	h.live = append(h.live, o)
	if len(h.live) > h.maxLive {
		h.maxLive = len(h.live)
	}
	return o
}

// noteRead maintains the interleaving evidence: a read by an owner while another owner is in the middle
// of its block, and whether a reader had been drained and closed before (the pool has seen a complete
// reader life cycle).
func (h *tsdHistory) noteRead(o *owner, slots int) {
	if slots == 0 {
		return
	}
	others := 0
	for _, x := range h.live {
		if x != o && x.kind != "enc" && x.midway() {
			others++
		}
	}
	if others > 0 && h.lastReader != 0 && h.lastReader != o.id {
		h.interleaved++
		if h.drainedClosed > 0 {
			h.interleavedAfterDrain++
		}
	}
	h.lastReader = o.id
}

// noteWrite: the same for encoders that are filled in turns.
func (h *tsdHistory) noteWrite(o *owner, slots int) {
	if slots == 0 {
		return
	}
	others := 0
	for _, x := range h.live {
		if x != o && x.kind == "enc" && x.midway() {
			others++
		}
	}
	if others > 0 && h.lastWriter != 0 && h.lastWriter != o.id {
		h.interleavedWrites++
	}
	h.lastWriter = o.id
}

// finishEncoder stores the complete block of an encoder owner (checked at once by a decoder without
// history, like every block of the history) .
func (h *tsdHistory) finishEncoder(t failer, o *owner, withTime bool) {
	var data []byte
	var err error
	if withTime {
		data, err = o.enc.Bytes()
	} else {
		data, err = o.enc.BytesWithoutTime()
	}
	if err != nil {
		t.Fatalf("%s: encoder bytes: %v", o.who(), err)
	}
	if len(data) == 0 {
		t.Fatalf("%s: encoder returned no bytes for a block of %d slots (%s)", o.who(), o.wblk.n(), o.wblk)
	}
	out := append([]byte(nil), data...)
	if withTime {
		if s, e := encoding.DecodeTSDTime(out); int(s) != int(o.wblk.start) || int(e) != o.wblk.end() {
			t.Fatalf("%s: DecodeTSDTime = [%d,%d], block is [%d,%d]", o.who(), s, e, o.wblk.start, o.wblk.end())
		}
	}
	fresh := encoding.NewTSDDecoder(nil)
	resetDecoder(fresh, o.wblk, out, withTime, false)
	execRead(prefixFailer{t, o.who() + " wrote, fresh decoder reads: "}, fresh, o.wblk, readPlan{Path: "seq", StopAfter: -1})
	h.stored = append(h.stored, &storedBlock{blk: o.wblk, data: out, withTime: withTime, reused: h.poolPuts > 0})
	h.classes["enc=owner"]++
	o.wblk = nil
}

type prefixFailer struct {
	t      failer
	prefix string
}

func (p prefixFailer) Fatalf(format string, args ...any) { p.t.Fatalf(p.prefix+format, args...) }

func (h *tsdHistory) bindDecoder(t *rapid.T, o *owner) {
	sb := h.stored[rapid.IntRange(0, len(h.stored)-1).Draw(t, h.l("oblk"))]
	if len(h.damaged) > 0 && rapid.IntRange(0, 4).Draw(t, h.l("obad")) == 0 {
		// the owner is given a damaged block: it reads it like any other, nothing is compared
		sb = h.damaged[rapid.IntRange(0, len(h.damaged)-1).Draw(t, h.l("obadBlk"))]
		h.classes["owner-bound-to-damaged-block"]++
	}
	resetDecoder(o.dec, sb.blk, sb.data, sb.withTime, rapid.Bool().Draw(t, h.l("oviaRange")))
	h.noteBinding(o.dec, sb.blk)
	if sb.blk.bad == "" { // (a damaged block may be refused by Reset: header only)
		if int(o.dec.StartTime()) != int(sb.blk.start) || int(o.dec.EndTime()) != sb.blk.end() {
			t.Fatalf("%s: decoder range [%d,%d], block [%d,%d]", o.who(), o.dec.StartTime(), o.dec.EndTime(), sb.blk.start, sb.blk.end())
		}
		if err := o.dec.Error(); err != nil {
			t.Fatalf("%s: decoder error after reset: %v", o.who(), err)
		}
	}
	o.cur = &cursor{dec: o.dec, blk: sb.blk, mode: rapid.SampledFrom(cursorModes).Draw(t, h.l("omode"))}
	sb.reads++
	if h.usedDec[o.dec] {
		h.reusedRd++
	}
	h.usedDec[o.dec] = true
}

// readerHasNext asks the pure question and compares it with the model.
func (h *tsdHistory) readerHasNext(t failer, o *owner) bool {
	want := o.field < len(o.st.ids)
	if got := o.r.HasNext(); got != want {
		t.Fatalf("%s: HasNext() = %v after %d of %d fields", o.who(), got, o.field, len(o.st.ids))
	}
	if !want {
		if o.sawEnd {
			o.asked++
		}
		o.sawEnd = true
	}
	return want
}

// readerNext moves a reader to its next field (the model says there is one). mode "" keeps the style of
// the previous field.
func (h *tsdHistory) readerNext(t failer, o *owner, mode string) {
	if !h.readerHasNext(t, o) {
		t.Fatalf("harness: readerNext without a next field")
	}
	id, dec := o.r.Next()
	if id != o.st.ids[o.field] {
		t.Fatalf("%s: Next() returns field id %d, wrote %d", o.who(), id, o.st.ids[o.field])
	}
	if dec == nil {
		t.Fatalf("%s: Next() returns no decoder", o.who())
	}
	if o.dec != dec {
		if o.dec != nil {
			h.giveUp(o.dec)
		}
		o.dec = dec
		h.acquire(dec, fmt.Sprintf("owner#%d(stream reader)", o.id))
	}
	blk := o.st.blks[o.field]
	if int(dec.StartTime()) != int(blk.start) || int(dec.EndTime()) != blk.end() {
		t.Fatalf("%s: field decoder range [%d,%d], stream [%d,%d]", o.who(), dec.StartTime(), dec.EndTime(), blk.start, blk.end())
	}
	if err := dec.Error(); err != nil {
		t.Fatalf("%s: field decoder error after Next(): %v", o.who(), err)
	}
	if mode == "" {
		mode = "get"
		if o.cur != nil {
			mode = o.cur.mode
		}
	}
	o.cur = &cursor{dec: dec, blk: blk, mode: mode}
	h.noteBinding(dec, blk)
	o.field++
}

// closeOwner ends owner i: the decoder goes back to the pool / the reader is closed, exactly once.
func (h *tsdHistory) closeOwner(i int) {
	o := h.live[i]
	h.live = append(h.live[:i], h.live[i+1:]...)
	if o.kind == "enc" {
		if o.wblk != nil {
			h.classes["abandoned-encoder"]++
		}
		encoding.ReleaseTSDEncoder(o.enc)
		h.giveUp(o.enc)
		h.poolPuts++
		return
	}
	if o.kind == "dec" {
		encoding.ReleaseTSDDecoder(o.dec)
		h.giveUp(o.dec)
		delete(h.usedDec, o.dec)
		h.decPuts++
		return
	}
	drained := o.field == len(o.st.ids) && (o.cur == nil || o.cur.done)
	o.r.Close()
	if o.dec != nil {
		h.giveUp(o.dec)
		delete(h.usedDec, o.dec)
	}
	h.decPuts++
	switch {
	case drained && o.sawEnd:
		h.drainedClosed++
		h.classes["reader-drained-closed"]++
	case drained:
		h.classes["reader-closed-at-last-field"]++
	case o.field == 0:
		h.classes["reader-closed-unread"]++
	default:
		h.classes["reader-closed-early"]++
	}
	if o.asked > 0 {
		h.classes["hasNext-again-after-end"]++
	}
}

// advance lets an owner do one unit of the rest of its work (final phase): one slot, or the move to the
// next field. false = nothing left.
func (h *tsdHistory) advance(t failer, o *owner) bool {
	if o.kind == "enc" {
		if o.wblk == nil {
			return false
		}
		h.noteWrite(o, o.write(1))
		if o.wnext == o.wblk.n() {
			h.finishEncoder(t, o, o.id%2 == 0)
		}
		return true
	}
	if o.cur != nil && !o.cur.done {
		h.noteRead(o, o.cur.read(t, o.who(), 1))
		return true
	}
	if o.kind == "rd" {
		if o.field < len(o.st.ids) {
			h.readerNext(t, o, "")
			return true
		}
		h.readerHasNext(t, o)
	}
	return false
}

// finishOwners: every owner that is still alive completes its work, one slot per turn in a round-robin, and is
// closed when it has nothing left.
func (h *tsdHistory) finishOwners(t failer) {
	for len(h.live) > 0 {
		for i := 0; i < len(h.live); {
			if h.advance(t, h.live[i]) {
				i++
			} else {
				h.closeOwner(i)
			}
		}
	}
}

// ownerActions are the additional actions of TestTSDReuseHistory.
func (h *tsdHistory) ownerActions() map[string]func(*rapid.T) {
	pick := func(t *rapid.T, kind string) (int, *owner) {
		var idx []int
		for i, o := range h.live {
			if kind == "" || o.kind == kind {
				idx = append(idx, i)
			}
		}
		if len(idx) == 0 {
			t.Skip("no such owner")
		}
		i := idx[rapid.IntRange(0, len(idx)-1).Draw(t, h.l("owner"))]
		return i, h.live[i]
	}
	return map[string]func(*rapid.T){
		// ---- stream writers: several may be open at once, fields are added in turns --------------------
		"writerOpen": func(t *rapid.T) {
			if len(h.writers) >= 2 {
				t.Skip("two writers open")
			}
			n := genLen(t, h.l("wn"))
			if n > 60 {
				n = 60
			}
			start := genStart(t, h.l("ws"), n)
			h.writers = append(h.writers, &openWriter{w: encoding.NewTSDStreamWriter(start, uint16(int(start)+n-1)), start: start, n: n})
			h.note("writerOpen(%d+%d)", start, n)
		},
		"writerField": func(t *rapid.T) {
			if len(h.writers) == 0 {
				t.Skip("no open writer")
			}
			wi := rapid.IntRange(0, len(h.writers)-1).Draw(t, h.l("w"))
			w := h.writers[wi]
			if len(w.ids) >= 4 {
				t.Skip("writer full")
			}
			mask, _ := genMask(t, h.l("wm"), w.n)
			blk := newBlock(w.start, mask, genBitsSeq(t, h.l("wv"), popcount(mask)))
			id := rapid.Uint16().Draw(t, h.l("wid"))
			// the field block comes from a pooled or a held (flusher) encoder
			var enc *encoding.TSDEncoder
			held := len(h.heldEnc) > 0 && rapid.Bool().Draw(t, h.l("wheld"))
			if held {
				enc = h.heldEnc[rapid.IntRange(0, len(h.heldEnc)-1).Draw(t, h.l("which"))]
				enc.RestWithStartTime(w.start)
			} else {
				enc = encoding.GetTSDEncoder(w.start)
				h.acquire(enc, "writerField")
			}
			data := encodeBlock(t, enc, blk, "append", false)
			if !held {
				encoding.ReleaseTSDEncoder(enc)
				h.giveUp(enc)
				h.poolPuts++
			}
			if rapid.IntRange(0, 5).Draw(t, h.l("wbad")) == 0 {
				// the field's bytes are damaged (the framing of the stream stays intact): the reader's pooled
				// decoder goes over it and must read the following fields exactly
				var kind string
				data, kind = damageBytes(t, h.l("wdmg"), data, 0)
				blk = &tsdBlock{start: blk.start, mask: blk.mask, vals: blk.vals, vidx: blk.vidx, bad: kind}
				h.classes["damaged-field-in-stream"]++
			}
			w.w.WriteField(id, data)
			w.ids, w.blks = append(w.ids, id), append(w.blks, blk)
			if len(h.writers) > 1 {
				h.classes["writers-open=2"]++
			}
			h.note("writerField(w%d,%d,%s)", wi, id, blk)
		},
		"writerFinish": func(t *rapid.T) {
			if len(h.writers) == 0 {
				t.Skip("no open writer")
			}
			wi := rapid.IntRange(0, len(h.writers)-1).Draw(t, h.l("w"))
			w := h.writers[wi]
			if len(w.ids) < rapid.IntRange(0, 3).Draw(t, h.l("wmin")) {
				t.Skip("not yet")
			}
			h.writers = append(h.writers[:wi], h.writers[wi+1:]...)
			raw, err := w.w.Bytes()
			if err != nil {
				t.Fatalf("stream writer: %v", err)
			}
			h.streams = append(h.streams, &storedStream{start: w.start, n: w.n, ids: w.ids, blks: w.blks, raw: append([]byte(nil), raw...)})
			h.classes[fmt.Sprintf("stream-fields=%d", len(w.ids))]++
			h.note("writerFinish(w%d,%d fields)", wi, len(w.ids))
		},
		// ---- owners ------------------------------------------------------------------------------------
		"ownDecoder": func(t *rapid.T) {
			if len(h.stored) == 0 || len(h.live) >= maxOwners {
				t.Skip("nothing stored / too many owners")
			}
			dec := encoding.GetTSDDecoder()
			seenDecoders[dec] = struct{}{}
			o := h.newOwner("dec")
			o.dec = dec
			h.acquire(dec, fmt.Sprintf("owner#%d(pooled decoder)", o.id))
			h.bindDecoder(t, o)
			h.note("ownDecoder#%d(%s,%s)", o.id, o.cur.mode, o.cur.blk)
			h.classes["owner=decoder"]++
		},
		"ownEncoder": func(t *rapid.T) {
			if len(h.live) >= maxOwners {
				t.Skip("too many owners")
			}
			api := rapid.SampledFrom([]string{"append", "emit"}).Draw(t, h.l("api"))
			blk, _ := genBlock(t, h.l("b"), api)
			o := h.newOwner("enc")
			o.enc, o.wblk, o.wapi = encoding.GetTSDEncoder(blk.start), blk, api
			h.acquire(o.enc, o.who())
			h.note("ownEncoder#%d(%s,%s)", o.id, api, blk)
			h.classes["owner=encoder"]++
		},
		"ownReader": func(t *rapid.T) {
			if len(h.streams) == 0 || len(h.live) >= maxOwners {
				t.Skip("no stream / too many owners")
			}
			si := rapid.IntRange(0, len(h.streams)-1).Draw(t, h.l("stream"))
			st := h.streams[si]
			o := h.newOwner("rd")
			o.st = st
			o.r = encoding.NewTSDStreamReader(st.raw)
			if s, e := o.r.TimeRange(); s != st.start || int(e) != int(st.start)+st.n-1 {
				t.Fatalf("%s: TimeRange = [%d,%d], wrote [%d,%d]", o.who(), s, e, st.start, int(st.start)+st.n-1)
			}
			h.note("ownReader#%d(s%d)", o.id, si)
			h.classes["owner=reader"]++
		},
		"ownRebind": func(t *rapid.T) {
			_, o := pick(t, "dec")
			if o.cur.midway() {
				h.classes["rebind-midway"]++
			}
			h.bindDecoder(t, o)
			h.note("ownRebind#%d(%s,%s)", o.id, o.cur.mode, o.cur.blk)
		},
		"ownStep": func(t *rapid.T) {
			_, o := pick(t, "")
			// how far: a few slots, the rest of the block / field, or - a reader - the rest of the stream
			far := rapid.SampledFrom([]string{"slots", "slots", "slots", "block", "all", "ask", "next"}).Draw(t, h.l("far"))
			k := -1
			if far == "slots" {
				k = rapid.IntRange(1, 6).Draw(t, h.l("k"))
			}
			if o.kind == "enc" {
				h.noteWrite(o, o.write(k))
				h.note("step#%d(%s->w%d)", o.id, far, o.wnext)
				if o.wnext == o.wblk.n() {
					withTime := rapid.Bool().Draw(t, h.l("withTime"))
					h.finishEncoder(t, o, withTime)
					h.note("ownStored#%d(%v)", o.id, withTime)
					for i, x := range h.live {
						if x == o {
							h.closeOwner(i)
						}
					}
				}
				return
			}
			if o.kind == "dec" {
				if o.cur.done {
					t.Skip("block finished")
				}
				h.noteRead(o, o.cur.read(t, o.who(), k))
				h.note("step#%d(%s->%d)", o.id, far, o.cur.next)
				return
			}
			switch {
			case far == "ask":
				h.readerHasNext(t, o)
			case far == "all":
				// the ordinary loop: for r.HasNext() { _, d := r.Next(); read d }
				if o.cur != nil && !o.cur.done {
					h.noteRead(o, o.cur.read(t, o.who(), -1))
				}
				for h.readerHasNext(t, o) {
					h.readerNext(t, o, "")
					h.noteRead(o, o.cur.read(t, o.who(), -1))
				}
			case far == "next" || o.cur == nil || o.cur.done:
				// move on (far == "next": also when the current field is not read to its end)
				if o.field < len(o.st.ids) {
					if o.cur != nil && !o.cur.done {
						h.classes["field-skipped-midway"]++
					}
					h.readerNext(t, o, rapid.SampledFrom(cursorModes).Draw(t, h.l("omode")))
				} else {
					h.readerHasNext(t, o)
				}
			default:
				h.noteRead(o, o.cur.read(t, o.who(), k))
			}
			h.note("step#%d(%s->f%d)", o.id, far, o.field)
		},
		"ownClose": func(t *rapid.T) {
			i, o := pick(t, "")
			if o.midway() {
				h.classes["owner-closed-midway"]++
			}
			h.note("ownClose#%d", o.id)
			h.closeOwner(i)
		},
	}
}
