package c14

import (
	"fmt"
	"hash/fnv"
	"math"
	"runtime"
	"runtime/debug"
	"testing"

	"pgregory.net/rapid"

	"github.com/lindb/lindb/pkg/bit"
	"github.com/lindb/lindb/pkg/encoding"
	"github.com/lindb/lindb/verifharness/sim/ev"
)

// ---- model of one time-series block -------------------------------------------------------------

type tsdBlock struct {
	start uint16
	mask  []bool   // one entry per slot start..start+len-1
	vals  []uint64 // one IEEE-754 pattern per set slot, in slot order
	vidx  []int    // slot index -> index into vals (or -1)
	bad   string   // != "": the stored bytes are a damaged variant (damaged_test.go); only the time range means something
}

func newBlock(start uint16, mask []bool, vals []uint64) *tsdBlock {
	b := &tsdBlock{start: start, mask: mask, vals: vals, vidx: make([]int, len(mask))}
	k := 0
	for i, m := range mask {
		if m {
			b.vidx[i] = k
			k++
		} else {
			b.vidx[i] = -1
		}
	}
	if k != len(vals) {
		panic("harness: mask/value mismatch")
	}
	return b
}

func (b *tsdBlock) n() int   { return len(b.mask) }
func (b *tsdBlock) end() int { return int(b.start) + len(b.mask) - 1 }

// at returns the model's answer for an absolute slot.
func (b *tsdBlock) at(slot int) (uint64, bool) {
	i := slot - int(b.start)
	if i < 0 || i >= len(b.mask) || !b.mask[i] {
		return 0, false
	}
	return b.vals[b.vidx[i]], true
}

func (b *tsdBlock) String() string {
	if b.bad != "" {
		return fmt.Sprintf("DAMAGED(%s) start=%d slots=%d", b.bad, b.start, len(b.mask))
	}
	if len(b.mask) > 96 {
		return fmt.Sprintf("start=%d slots=%d mask=%s... vals(%d)=%v... fnv=%x", b.start, len(b.mask), maskString(b.mask[:96]), len(b.vals), hex(capList(b.vals, 24)), b.hash())
	}
	return fmt.Sprintf("start=%d mask=%s vals=%v", b.start, maskString(b.mask), hex(b.vals))
}

// hash identifies a long block in canonical strings / messages.
func (b *tsdBlock) hash() uint64 {
	h := fnv.New64a()
	_, _ = h.Write([]byte(maskString(b.mask)))
	for _, v := range b.vals {
		var x [8]byte
		for i := range x {
			x[i] = byte(v >> (8 * uint(i)))
		}
		_, _ = h.Write(x[:])
	}
	return h.Sum64()
}

func (b *tsdBlock) sample() map[string]any {
	return map[string]any{"start": b.start, "mask": maskString(capList(b.mask, 80)), "slots": len(b.mask), "values": capList(hex(b.vals), 12)}
}

// genBlock draws a block. api "emit" is the EmitDownSamplingValue entry point of the merge / rollup
// path, where +Inf means "no value in this slot": there the model treats a +Inf value as an empty slot.
func genBlock(t *rapid.T, label string, api string) (*tsdBlock, string) {
	n := genLen(t, label+"n")
	if rapid.IntRange(0, 49).Draw(t, label+"huge") == 49 { // 49, not 0: shrinking moves away from it
		n = rapid.IntRange(401, 3600).Draw(t, label+"nh") // a whole family: 1h of 1s slots
	}
	mask, kind := genMask(t, label+"m", n)
	start := genStart(t, label+"s", n)
	var vals []uint64
	var prev uint64
	for i := range mask {
		if !mask[i] {
			continue
		}
		v := genBits(t, fmt.Sprintf("%sv%d", label, i), prev, len(vals) > 0)
		if api == "emit" && v == posInfBits {
			mask[i] = false
			continue
		}
		vals = append(vals, v)
		prev = v
	}
	return newBlock(start, mask, vals), kind
}

// encodeBlock drives an encoder that is already positioned at blk.start (fresh, pooled or
// RestWithStartTime) exactly like the production writers do and returns a private copy of the
// bytes (every production caller copies / writes out the bytes before touching the encoder again).
func encodeBlock(t failer, enc *encoding.TSDEncoder, blk *tsdBlock, api string, withTime bool) []byte {
	for i, m := range blk.mask {
		switch {
		case api == "emit" && m:
			enc.EmitDownSamplingValue(i, math.Float64frombits(blk.vals[blk.vidx[i]]))
		case api == "emit":
			enc.EmitDownSamplingValue(i, math.Inf(1))
		case m:
			enc.AppendTime(bit.One)
			enc.AppendValue(blk.vals[blk.vidx[i]])
		default:
			enc.AppendTime(bit.Zero)
		}
	}
	var data []byte
	var err error
	if withTime {
		data, err = enc.Bytes()
	} else {
		data, err = enc.BytesWithoutTime()
	}
	if err != nil {
		t.Fatalf("encoder bytes: %v", err)
	}
	if len(data) == 0 {
		t.Fatalf("encoder returned no bytes for a block of %d slots", blk.n())
	}
	out := append([]byte(nil), data...)
	if withTime {
		s, e := encoding.DecodeTSDTime(out)
		if int(s) != int(blk.start) || int(e) != blk.end() {
			t.Fatalf("DecodeTSDTime = [%d,%d], block is [%d,%d]", s, e, blk.start, blk.end())
		}
	}
	return out
}

// resetDecoder points a decoder at a stored block the way production readers do.
func resetDecoder(dec *encoding.TSDDecoder, blk *tsdBlock, data []byte, withTime bool, viaRange bool) {
	switch {
	case withTime && viaRange:
		dec.ResetWithTimeRange(data[4:], blk.start, uint16(blk.end()))
	case withTime:
		dec.Reset(data)
	default:
		dec.ResetWithTimeRange(data, blk.start, uint16(blk.end()))
	}
}

// ---- read plans: the ways production code reads a block -----------------------------------------------

// readPlan describes one read of a block.
//
//	seq     Next/HasValue/Slot/Value              series.BinaryPrimitiveIterator
//	slot    HasValueWithSlot+Value, every slot of a covering range ascending   memdb merge (compact/flush)
//	get     GetValue, every slot of a covering range ascending                  aggregation.DownSampling
//	range   HasValueWithSlot+Value from StartTime() to EndTime()                DownSamplingMultiSeriesInto
//	seek    Seek(target) then slot reads           (no production caller: weak oracle)
//	random  GetValue in arbitrary slot order       (no production caller: "absent or right", exact on the next unread slot)
type readPlan struct {
	Path      string
	Lo, Hi    int   // extension of the covering range below / above the block
	StopAfter int   // <0: read everything; else abandon the decoder after that many slots
	Target    int   // seek target (absolute slot)
	Slots     []int // random path
}

var fullPaths = []string{"seq", "slot", "get", "range"}

func genReadPlan(t *rapid.T, label string, blk *tsdBlock, allowPartial bool) readPlan {
	p := readPlan{StopAfter: -1}
	p.Path = rapid.SampledFrom([]string{"seq", "seq", "slot", "slot", "get", "get", "range", "seek", "random"}).Draw(t, label+"path")
	p.Lo = rapid.IntRange(0, 5).Draw(t, label+"lo")
	p.Hi = rapid.IntRange(0, 5).Draw(t, label+"hi")
	if allowPartial && rapid.IntRange(0, 3).Draw(t, label+"partial") == 0 {
		p.StopAfter = rapid.IntRange(0, blk.n()).Draw(t, label+"stop")
	}
	lo, hi := int(blk.start)-2, blk.end()+2
	if lo < 0 {
		lo = 0
	}
	if hi > 65535 {
		hi = 65535
	}
	switch p.Path {
	case "seek":
		p.Target = rapid.IntRange(lo, hi).Draw(t, label+"target")
	case "random":
		k := rapid.IntRange(1, 2*blk.n()+2).Draw(t, label+"k")
		if k > 60 {
			k = 60
		}
		next := int(blk.start)
		for i := 0; i < k; i++ {
			// biased to the next unread slot so that the exact oracle is exercised too
			if rapid.IntRange(0, 2).Draw(t, label+"rk") != 0 && next <= blk.end() {
				p.Slots = append(p.Slots, next)
				next++
			} else {
				p.Slots = append(p.Slots, rapid.IntRange(lo, hi).Draw(t, label+"rs"))
			}
		}
	}
	return p
}

func sameBits(got float64, want uint64) bool { return math.Float64bits(got) == want }

// execRead performs the plan on a decoder that was just reset to (blk, data) and compares every
// answer with the model.
func execRead(t failer, dec *encoding.TSDDecoder, blk *tsdBlock, p readPlan) {
	start, end, n := int(blk.start), blk.end(), blk.n()
	if int(dec.StartTime()) != start || int(dec.EndTime()) != end {
		t.Fatalf("decoder range [%d,%d], block [%d,%d]", dec.StartTime(), dec.EndTime(), start, end)
	}
	if dec.Error() != nil {
		t.Fatalf("decoder error after reset: %v", dec.Error())
	}
	from, to := start-p.Lo, end+p.Hi
	if from < 0 {
		from = 0
	}
	if to > 65535 {
		to = 65535
	}
	limit := func(i int) bool { return p.StopAfter >= 0 && i >= p.StopAfter }
	switch p.Path {
	case "seq":
		i := 0
		for !limit(i) && dec.Next() {
			if i >= n {
				t.Fatalf("[seq] Next() yields slot #%d, block has %d slots (%s)", i, n, blk)
			}
			has := dec.HasValue()
			if has != blk.mask[i] {
				t.Fatalf("[seq] slot %d: HasValue=%v, model %v (%s)", start+i, has, blk.mask[i], blk)
			}
			if has {
				if int(dec.Slot()) != start+i {
					t.Fatalf("[seq] Slot()=%d, expected %d", dec.Slot(), start+i)
				}
				want := blk.vals[blk.vidx[i]]
				if g := dec.Value(); g != want {
					t.Fatalf("[seq] slot %d: value %016x, encoded %016x (%s)", start+i, g, want, blk)
				}
			}
			i++
		}
		if p.StopAfter < 0 {
			if i != n {
				t.Fatalf("[seq] iteration ended after %d of %d slots (%s)", i, n, blk)
			}
			if dec.Next() {
				t.Fatalf("[seq] Next() true after the last slot")
			}
		}
	case "slot", "get", "range":
		if p.Path == "range" {
			from, to = int(dec.StartTime()), int(dec.EndTime())
		}
		for s, i := from, 0; s <= to; s, i = s+1, i+1 {
			if s >= start && limit(s-start) {
				break
			}
			want, wantHas := blk.at(s)
			if p.Path == "get" {
				g, has := dec.GetValue(uint16(s))
				if has != wantHas || (has && !sameBits(g, want)) {
					t.Fatalf("[get] GetValue(%d) = %016x,%v; model %016x,%v (%s)", s, math.Float64bits(g), has, want, wantHas, blk)
				}
				continue
			}
			has := dec.HasValueWithSlot(uint16(s))
			if has != wantHas {
				t.Fatalf("[%s] HasValueWithSlot(%d) = %v; model %v (%s)", p.Path, s, has, wantHas, blk)
			}
			if has {
				if g := dec.Value(); g != want {
					t.Fatalf("[%s] slot %d: value %016x, encoded %016x (%s)", p.Path, s, g, want, blk)
				}
			}
		}
	case "seek":
		ok := dec.Seek(uint16(p.Target))
		if p.Target < start || p.Target > end {
			if ok {
				t.Fatalf("[seek] Seek(%d) true outside [%d,%d]", p.Target, start, end)
			}
			// an out-of-range seek must not consume anything: a complete read still works
			execRead(t, dec, blk, readPlan{Path: "slot", StopAfter: -1})
			return
		}
		densePrefix := true
		for i := 0; i < p.Target-start; i++ {
			densePrefix = densePrefix && blk.mask[i]
		}
		if densePrefix && !ok {
			t.Fatalf("[seek] Seek(%d) false although every slot before it has a value (%s)", p.Target, blk)
		}
		if ok {
			// positioned at target: the rest of the block reads like the model
			for s := p.Target; s <= end; s++ {
				want, wantHas := blk.at(s)
				g, has := dec.GetValue(uint16(s))
				if has != wantHas || (has && !sameBits(g, want)) {
					t.Fatalf("[seek] after Seek(%d): GetValue(%d) = %016x,%v; model %016x,%v (%s)", p.Target, s, math.Float64bits(g), has, want, wantHas, blk)
				}
			}
		}
	case "random":
		next := start // the next unread slot of the sequential decoder
		for _, s := range p.Slots {
			want, wantHas := blk.at(s)
			g, has := dec.GetValue(uint16(s))
			if has && (!wantHas || !sameBits(g, want)) {
				t.Fatalf("[random] GetValue(%d) = %016x,true; model %016x,%v (%s; order %v)", s, math.Float64bits(g), want, wantHas, blk, p.Slots)
			}
			if s == next && next <= end {
				if has != wantHas {
					t.Fatalf("[random] GetValue(%d) on the next unread slot = %v; model %v (%s; order %v)", s, has, wantHas, blk, p.Slots)
				}
				next++
			}
		}
	default:
		t.Fatalf("harness: unknown path %q", p.Path)
	}
	if p.StopAfter < 0 && dec.Error() != nil {
		t.Fatalf("[%s] decoder error after a complete read: %v", p.Path, dec.Error())
	}
}

func blockNonTrivial(blk *tsdBlock, reused bool) bool {
	return blk.n() >= 2 && (isSparse(blk.mask) || xorWindowChanges(blk.vals) > 0 || reused)
}

func blockClasses(blk *tsdBlock, maskKind string) []string {
	cl := []string{"mask=" + maskKind}
	cl = append(cl, valueClasses(blk.vals)...)
	if xorWindowChanges(blk.vals) > 0 {
		cl = append(cl, "window-change")
	}
	if isSparse(blk.mask) {
		cl = append(cl, "sparse")
	}
	switch {
	case blk.start == 0:
		cl = append(cl, "start=0")
	case blk.start < 3600:
		cl = append(cl, "start<3600")
	default:
		cl = append(cl, "start>=3600")
	}
	switch {
	case blk.n() == 1:
		cl = append(cl, "len=1")
	case blk.n() <= 16:
		cl = append(cl, "len<=16")
	case blk.n() <= 80:
		cl = append(cl, "len<=80")
	default:
		cl = append(cl, "len>80")
	}
	return cl
}

// tsdBlockProperty: one block, encoded through either encoder entry point and either output
// form, is read back identically through EVERY read path production code uses - so sequential
// and slot-addressed reads agree with the model and hence with each other.
func tsdBlockProperty(t *rapid.T) {
	api := rapid.SampledFrom([]string{"append", "append", "emit"}).Draw(t, "api")
	withTime := rapid.Bool().Draw(t, "withTime")
	blk, maskKind := genBlock(t, "b", api)
	encSrc := rapid.SampledFrom([]string{"new", "pool", "pool"}).Draw(t, "encSrc")
	var enc *encoding.TSDEncoder
	if encSrc == "new" {
		enc = encoding.NewTSDEncoder(blk.start)
	} else {
		enc = encoding.GetTSDEncoder(blk.start)
	}
	data := encodeBlock(t, enc, blk, api, withTime)
	encoding.ReleaseTSDEncoder(enc)

	// every complete production read path, each on a decoder from a drawn source
	pooled := encoding.GetTSDDecoder()
	for _, path := range fullPaths {
		p := readPlan{Path: path, StopAfter: -1, Lo: rapid.IntRange(0, 4).Draw(t, path+"lo"), Hi: rapid.IntRange(0, 4).Draw(t, path+"hi")}
		src := rapid.SampledFrom([]string{"new", "pooled"}).Draw(t, path+"dec")
		if src == "new" && withTime {
			execRead(t, encoding.NewTSDDecoder(data), blk, p)
		} else {
			resetDecoder(pooled, blk, data, withTime, rapid.Bool().Draw(t, path+"viaRange"))
			execRead(t, pooled, blk, p)
		}
	}
	// plus one drawn plan (may be seek / random / partial)
	p := genReadPlan(t, "x", blk, true)
	resetDecoder(pooled, blk, data, withTime, false)
	execRead(t, pooled, blk, p)
	encoding.ReleaseTSDDecoder(pooled)

	cl := append(blockClasses(blk, maskKind), "api="+api, fmt.Sprintf("withTime=%v", withTime), "extra="+p.Path)
	ev.Case("TestTSDBlock", fmt.Sprintf("%s|%v|%s", api, withTime, blk), blockNonTrivial(blk, false), cl, blk.sample())
}

func TestTSDBlock(t *testing.T) { rapid.Check(t, tsdBlockProperty) }

// FuzzTSDBlock is a hand-decoded native fuzz target (rapid.MakeFuzz logs every draw, which makes a
// block-sized case far too slow for the fuzzer). Input layout:
//
//	[0] flags: bit0 emit api, bit1 with time header, bit2 pooled encoder, bits 3..4 extra path
//	[1..2] start slot (little endian)
//	then per slot one control byte: bit0 = slot has a value, followed by 8 value bytes; bits 1..7 of
//	the control byte of an empty slot extend it to a run of empty slots.
func FuzzTSDBlock(f *testing.F) {
	f.Add([]byte{0, 0, 0, 1, 1, 2, 3, 4, 5, 6, 7, 8, 0, 1, 0, 0, 0, 0, 0, 0, 0xf0, 0x7f})
	f.Add([]byte{3, 10, 0, 1, 0, 0, 0, 0, 0, 0, 0xf8, 0x7f, 6, 1, 0, 0, 0, 0, 0, 0, 0xf0, 0xff, 1, 1, 0, 0, 0, 0, 0, 0, 0, 0x80})
	f.Add(append([]byte{6, 0xff, 0x0d}, pseudoBytes(3, 400)...))
	f.Fuzz(func(t *testing.T, data []byte) {
		if len(data) < 4 {
			return
		}
		flags := data[0]
		api := "append"
		if flags&1 != 0 {
			api = "emit"
		}
		withTime := flags&2 != 0
		start := int(data[1]) | int(data[2])<<8
		var mask []bool
		var vals []uint64
		for i := 3; i < len(data) && len(mask) < 700; {
			ctl := data[i]
			i++
			if ctl&1 == 0 {
				for k := 0; k <= int(ctl>>5); k++ {
					mask = append(mask, false)
				}
				continue
			}
			if i+8 > len(data) {
				break
			}
			v := uint64(0)
			for k := 0; k < 8; k++ {
				v |= uint64(data[i+k]) << (8 * uint(k))
			}
			i += 8
			if api == "emit" && v == posInfBits {
				mask = append(mask, false)
				continue
			}
			mask = append(mask, true)
			vals = append(vals, v)
		}
		if len(mask) == 0 {
			return
		}
		if start+len(mask)-1 > 65534 {
			start = 65534 - (len(mask) - 1)
		}
		blk := newBlock(uint16(start), mask, vals)
		var enc *encoding.TSDEncoder
		if flags&4 != 0 {
			enc = encoding.GetTSDEncoder(blk.start)
		} else {
			enc = encoding.NewTSDEncoder(blk.start)
		}
		enc2 := encodeBlock(t, enc, blk, api, withTime)
		encoding.ReleaseTSDEncoder(enc)
		dec := encoding.GetTSDDecoder()
		defer encoding.ReleaseTSDDecoder(dec)
		for _, path := range fullPaths {
			resetDecoder(dec, blk, enc2, withTime, false)
			execRead(t, dec, blk, readPlan{Path: path, StopAfter: -1, Lo: int(flags >> 6), Hi: int(flags>>5) & 3})
		}
		resetDecoder(dec, blk, enc2, withTime, true && withTime)
		switch (flags >> 3) & 3 {
		case 0:
			execRead(t, dec, blk, readPlan{Path: "seek", StopAfter: -1, Target: start + int(data[3])%(len(mask)+2) - 1})
		case 1:
			var slots []int
			for _, b := range data[3:] {
				slots = append(slots, start+int(b)%(len(mask)+2)-1)
				if len(slots) > 64 {
					break
				}
			}
			execRead(t, dec, blk, readPlan{Path: "random", StopAfter: -1, Slots: slots})
		default:
			execRead(t, dec, blk, readPlan{Path: "seq", StopAfter: int(data[3]) % (len(mask) + 1)})
		}
	})
}

// TestTSDStream: the multi-field block stream (tsd_stream.go) returns every field id with a
// decoder that reads the field's block like the model; its pooled decoder is shared by all
// fields of a stream and handed back on Close. After one complete reader life cycle 0..3 readers of
// the same bytes are open together and read in turns (each must see its own position).
func TestTSDStream(t *testing.T) {
	defer runtime.GOMAXPROCS(runtime.GOMAXPROCS(1)) // pool control: see tsd_owners_test.go
	rapid.Check(t, func(t *rapid.T) {
		defer debug.SetGCPercent(debug.SetGCPercent(-1))
		drainDecoderPool()
		nFields := rapid.IntRange(0, 5).Draw(t, "fields")
		n := genLen(t, "n")
		if n > 100 {
			n = 100
		}
		start := genStart(t, "s", n)
		end := uint16(int(start) + n - 1)
		w := encoding.NewTSDStreamWriter(start, end)
		type fld struct {
			id  uint16
			blk *tsdBlock
		}
		var fields []fld
		enc := encoding.GetTSDEncoder(start)
		canon := fmt.Sprintf("%d-%d", start, end)
		nt := false
		damagedFields, intactAfterDamaged := 0, false
		for i := 0; i < nFields; i++ {
			l := fmt.Sprintf("f%d", i)
			mask, _ := genMask(t, l+"m", n)
			vals := genBitsSeq(t, l+"v", popcount(mask))
			blk := newBlock(start, mask, vals)
			id := rapid.Uint16().Draw(t, l+"id")
			enc.RestWithStartTime(start)
			data := encodeBlock(t, enc, blk, "append", false)
			if rapid.IntRange(0, 5).Draw(t, l+"bad") == 0 {
				// a field whose bytes are damaged (stream framing intact): the reader's one pooled decoder goes
				// over it; the fields after it must still be read exactly
				var kind string
				data, kind = damageBytes(t, l+"dmg", data, 0)
				blk = &tsdBlock{start: blk.start, mask: blk.mask, vals: blk.vals, vidx: blk.vidx, bad: kind}
				damagedFields++
				if i < nFields-1 {
					intactAfterDamaged = true
				}
			}
			w.WriteField(id, data)
			fields = append(fields, fld{id, blk})
			canon += fmt.Sprintf("|%d:%s", id, blk)
			nt = nt || blockNonTrivial(blk, i > 0)
		}
		encoding.ReleaseTSDEncoder(enc)
		raw, err := w.Bytes()
		if err != nil {
			t.Fatalf("stream writer: %v", err)
		}
		raw = append([]byte(nil), raw...)
		r := encoding.NewTSDStreamReader(raw)
		if s, e := r.TimeRange(); s != start || e != end {
			t.Fatalf("TimeRange = [%d,%d], wrote [%d,%d]", s, e, start, end)
		}
		i := 0
		for r.HasNext() {
			if i >= len(fields) {
				t.Fatalf("stream yields field #%d, wrote %d", i, len(fields))
			}
			id, dec := r.Next()
			seenDecoders[dec] = struct{}{}
			if id != fields[i].id {
				t.Fatalf("field #%d id %d, wrote %d", i, id, fields[i].id)
			}
			if fields[i].blk.bad != "" {
				if err := dec.Error(); err != nil {
					t.Fatalf("field #%d: decoder error right after Next(): %v", i, err)
				}
				readDamaged(t, fmt.Sprintf("field #%d (%s)", i, fields[i].blk), dec, rapid.SampledFrom(damagedPaths).Draw(t, fmt.Sprintf("dp%d", i)), n+2)
				i++
				continue
			}
			p := genReadPlan(t, fmt.Sprintf("p%d", i), fields[i].blk, true)
			execRead(t, dec, fields[i].blk, p)
			i++
		}
		if i != len(fields) {
			t.Fatalf("stream yields %d fields, wrote %d", i, len(fields))
		}
		r.Close()

		// after that complete reader life cycle: k readers of the same bytes are open at the same time (two
		// queries on one block, a merge of replicas) and are read field by field, one slot each in turns
		k := rapid.IntRange(0, 3).Draw(t, "together")
		if k > 0 {
			rs := make([]encoding.TSDStreamReader, k)
			for j := range rs {
				rs[j] = encoding.NewTSDStreamReader(raw)
			}
			for i := range fields {
				curs := make([]*cursor, k)
				for j := range rs {
					if !rs[j].HasNext() {
						t.Fatalf("reader %d of %d: stream ends before field #%d of %d", j, k, i, len(fields))
					}
					id, dec := rs[j].Next()
					seenDecoders[dec] = struct{}{}
					if id != fields[i].id {
						t.Fatalf("reader %d of %d: field #%d id %d, wrote %d", j, k, i, id, fields[i].id)
					}
					curs[j] = &cursor{dec: dec, blk: fields[i].blk, mode: rapid.SampledFrom(cursorModes).Draw(t, fmt.Sprintf("m%d_%d", i, j))}
				}
				for busy := true; busy; {
					busy = false
					for j, c := range curs {
						if !c.done {
							c.read(t, fmt.Sprintf("reader %d of %d open together, field #%d:", j, k, i), 1)
							busy = true
						}
					}
				}
			}
			for j := range rs {
				if rs[j].HasNext() {
					t.Fatalf("reader %d of %d: HasNext() after %d of %d fields", j, k, len(fields), len(fields))
				}
				rs[j].Close()
			}
		}
		cl := []string{fmt.Sprintf("fields=%d", nFields), fmt.Sprintf("readers-open-together=%d", k), fmt.Sprintf("damaged-fields=%d", min(damagedFields, 3))}
		if intactAfterDamaged {
			cl = append(cl, "intact-field-after-damaged-field")
		}
		ev.Case("TestTSDStream", canon+fmt.Sprintf("|together=%d", k), nt, cl,
			map[string]any{"start": start, "end": end, "fields": nFields, "together": k})
	})
}
