package c14

import (
	"bytes"
	"encoding/binary"
	"fmt"
	"sort"
	"testing"

	"github.com/lindb/roaring"
	"pgregory.net/rapid"

	"github.com/lindb/lindb/pkg/encoding"
	"github.com/lindb/lindb/pkg/stream"
	"github.com/lindb/lindb/verifharness/sim/ev"
)

// Re-bind histories (rebind_test.go).
//
// Several readers of the storage layer keep ONE decoder / reader object for their whole life and
// bind it again and again to the next piece of data, without going through a pool:
//
//	FixedOffsetDecoder.Unmarshal   metricsdata field reader (fieldOffsets per series entry), data scanner
//	                               (lowKeyOffsets per container), kv table reader, index readers
//	DeltaBitPackingDecoder.Reset   documented re-use of the decoder for the next block
//	stream.Reader.Reset            every flusher / reader that keeps a stream reader
//	roaring.Bitmap via BitmapUnmarshal   index reader / merger target bitmap
//
// The owner reads only what it needs from a binding (one block, a prefix, nothing) in the order it
// needs it (one index, the same index as in the previous entry, a scan that starts in the middle)
// and then binds the object to the next data. The property: whatever was read - or not read - from
// the previous bindings, every answer after a re-bind is the answer of the reference model of the
// data bound NOW. Nothing of an earlier binding (cursor, memo, cached block, error) may be visible.
//
// The tests below generate such owner histories: 1-3 objects alive side by side, bound in turns to
// 2-6 generated pieces of data, partial reads before a re-bind, random-access orders after it.

// ---- fixed offset decoder ---------------------------------------------------------------------------

type foTable struct {
	id       int
	offs     []int
	bytes    []byte // marshalled table + trailing bytes
	trailing []byte
	data     []byte // the data block the offsets point into (a prefix of bigBlock), may be truncated
	kind     string
}

type foOwner struct {
	name     string
	dec      *encoding.FixedOffsetDecoder
	pooled   bool
	tbl      *foTable // nil: nothing bound yet, or the last Unmarshal was rejected
	rejected bool
	lastIdx  int // index read last, on whichever binding (-1: none)
	reads    int // reads since the last bind
	complete bool
	binds    int
}

// genRebindTable draws an offset table with a real data block. Small tables dominate (a series entry
// has a handful of fields); "sibling" tables share the number of entries and a prefix of the offsets
// with an earlier table of the case (the next series entry with the same fields and other sizes).
func genRebindTable(t *rapid.T, label string, earlier []*foTable) *foTable {
	tb := &foTable{}
	switch k := rapid.IntRange(0, 9).Draw(t, label+"K"); {
	case k <= 3 && len(earlier) > 0:
		tb.kind = "sibling"
		src := earlier[rapid.IntRange(0, len(earlier)-1).Draw(t, label+"of")]
		offs := append([]int(nil), src.offs...)
		from := rapid.IntRange(0, len(offs)-1).Draw(t, label+"from")
		shift := 0
		for i := from; i < len(offs); i++ {
			shift += rapid.IntRange(0, 40).Draw(t, fmt.Sprintf("%ssh%d", label, i))
			if rapid.IntRange(0, 5).Draw(t, fmt.Sprintf("%sj%d", label, i)) == 0 {
				shift += rapid.SampledFrom([]int{200, 256, 65536, 1 << 20}).Draw(t, fmt.Sprintf("%sjj%d", label, i))
			}
			offs[i] += shift
			if offs[i] > len(bigBlock) {
				offs[i] = len(bigBlock)
			}
		}
		tb.offs = offs
	case k == 9:
		tb.kind = "any"
		tb.offs = genOffsets(t, label+"o", len(bigBlock))
	default:
		tb.kind = "small"
		n := rapid.IntRange(1, 8).Draw(t, label+"n")
		top := rapid.SampledFrom([]int{40, 255, 300, 65535, 70000, 1<<24 - 1, len(bigBlock)}).Draw(t, label+"top")
		offs := make([]int, n)
		for i := range offs {
			offs[i] = rapid.IntRange(0, top).Draw(t, fmt.Sprintf("%s%d", label, i))
		}
		sort.Ints(offs)
		if rapid.IntRange(0, 3).Draw(t, label+"z") != 0 {
			offs[0] = 0
		}
		tb.offs = offs
	}
	enc := encoding.NewFixedOffsetEncoder(true)
	for _, o := range tb.offs {
		enc.Add(o)
	}
	table := marshalOffsets(t, enc, tb.offs, rapid.Bool().Draw(t, label+"viaWrite"))
	tb.trailing = rapid.SliceOfN(rapid.Byte(), 0, 4).Draw(t, label+"trail")
	tb.bytes = append(append([]byte(nil), table...), tb.trailing...)
	dataLen := tb.offs[len(tb.offs)-1] + rapid.IntRange(0, 48).Draw(t, label+"tail")
	if dataLen > len(bigBlock) {
		dataLen = len(bigBlock)
	}
	if rapid.IntRange(0, 11).Draw(t, label+"short") == 0 {
		dataLen = rapid.IntRange(0, dataLen).Draw(t, label+"shortLen")
		tb.kind += "+truncated-data"
	}
	tb.data = bigBlock[:dataLen:dataLen]
	return tb
}

// expectGet / expectBlock: one random-access read of an owner compared with the model of the binding.
func (o *foOwner) expectGet(t failer, i int) {
	g, ok := o.dec.Get(i)
	if o.tbl == nil || i < 0 || i >= len(o.tbl.offs) {
		if ok {
			t.Fatalf("%s: Get(%d) = %d answers, model: %s", o.name, i, g, o.modelString())
		}
		return
	}
	if !ok || g != o.tbl.offs[i] {
		t.Fatalf("%s: Get(%d) = %d,%v; bound table #%d has %d there (%s)", o.name, i, g, ok, o.tbl.id, o.tbl.offs[i], o.modelString())
	}
}

func (o *foOwner) expectBlock(t failer, i int, data []byte) {
	if o.tbl == nil || i < 0 || i >= len(o.tbl.offs) {
		if blk, err := o.dec.GetBlock(i, data); err == nil {
			t.Fatalf("%s: GetBlock(%d) returned %d bytes and no error, model: %s", o.name, i, len(blk), o.modelString())
		}
		return
	}
	checkBlock(prefixFailer{t, o.name + " (" + o.modelString() + "): "}, o.dec, o.tbl.offs, i, data)
}

func (o *foOwner) modelString() string {
	switch {
	case o.rejected:
		return "last Unmarshal was rejected"
	case o.tbl == nil:
		return "never bound"
	}
	return fmt.Sprintf("table #%d %v, data block of %d bytes, binding %d, %d reads since the bind", o.tbl.id, capList(o.tbl.offs, 30), len(o.tbl.data), o.binds, o.reads)
}

func fixedOffsetRebindProperty(t *rapid.T) {
	nTables := rapid.IntRange(2, 6).Draw(t, "tables")
	var tables []*foTable
	for i := 0; i < nTables; i++ {
		tb := genRebindTable(t, fmt.Sprintf("t%d", i), tables)
		tb.id = i
		tables = append(tables, tb)
	}
	nOwners := rapid.SampledFrom([]int{1, 1, 1, 2, 2, 3}).Draw(t, "owners")
	owners := make([]*foOwner, nOwners)
	for i := range owners {
		o := &foOwner{name: fmt.Sprintf("owner%d", i), lastIdx: -1}
		if rapid.IntRange(0, 3).Draw(t, fmt.Sprintf("o%dpool", i)) == 0 {
			o.dec, o.pooled = encoding.GetFixedOffsetDecoder(), true // taken once, kept (tsdb metric reader style)
		} else {
			o.dec = encoding.NewFixedOffsetDecoder()
		}
		owners[i] = o
	}
	var classes, log []string
	note := func(f string, a ...any) { log = append(log, fmt.Sprintf(f, a...)) }
	nt := false
	rebinds := 0

	bind := func(l string, o *foOwner) {
		left := "unread"
		switch {
		case o.tbl == nil && !o.rejected:
			left = "first-binding"
		case o.rejected:
			left = "rejected-input"
		case o.complete:
			left = "read-to-the-last-block"
		case o.reads > 0:
			left = "partial"
		}
		prev := o.tbl
		if rapid.IntRange(0, 9).Draw(t, l+"bad") == 0 {
			tb := tables[rapid.IntRange(0, nTables-1).Draw(t, l+"badOf")]
			bad, kind := damageBytes(t, l+"dmg", tb.bytes[:len(tb.bytes)-len(tb.trailing)], 0)
			if _, err := o.dec.Unmarshal(bad); err != nil {
				o.tbl, o.rejected, o.reads, o.complete = nil, true, 0, false
				o.binds++
				note("%s: Unmarshal(damaged %s of #%d) rejected", o.name, kind, tb.id)
				classes = append(classes, "rebind-to-rejected-input", "previous-binding-left="+left)
				return
			}
			// accepted: some other well-formed table; bind the real one right away (nothing is claimed for it)
			classes = append(classes, "damaged-table-accepted-then-rebound")
		}
		tb := tables[rapid.IntRange(0, nTables-1).Draw(t, l+"tbl")]
		rest, err := o.dec.Unmarshal(tb.bytes)
		if err != nil {
			t.Fatalf("%s: Unmarshal(table #%d %v): %v", o.name, tb.id, capList(tb.offs, 30), err)
		}
		if !bytes.Equal(rest, tb.trailing) {
			t.Fatalf("%s: Unmarshal left %x, bytes after the table %x", o.name, rest, tb.trailing)
		}
		o.tbl, o.rejected, o.reads, o.complete = tb, false, 0, false
		o.binds++
		note("%s: Unmarshal(#%d %s %v) after %s", o.name, tb.id, tb.kind, capList(tb.offs, 12), left)
		classes = append(classes, "previous-binding-left="+left, "table="+tb.kind)
		if prev != nil {
			rebinds++
			if prev == tb {
				classes = append(classes, "rebound-to-the-same-table")
			}
			if pw, w := minWidth(prev.offs[len(prev.offs)-1]), minWidth(tb.offs[len(tb.offs)-1]); pw != w {
				classes = append(classes, fmt.Sprintf("width-change=%d->%d", pw, w))
			}
			switch {
			case len(prev.offs) > len(tb.offs):
				classes = append(classes, "next-table-shorter")
			case len(prev.offs) < len(tb.offs):
				classes = append(classes, "next-table-longer")
			}
		}
	}

	read := func(l string, o *foOwner) {
		n := 1
		if o.tbl != nil {
			n = len(o.tbl.offs)
		}
		data := bigBlock[:0:0]
		if o.tbl != nil {
			data = o.tbl.data
		} else {
			data = tables[0].data
		}
		first := o.reads == 0
		how := rapid.SampledFrom([]string{"one", "one", "one", "continue", "continue", "same", "scan-prefix", "scan-from", "descending", "last", "get-only", "beyond"}).Draw(t, l+"how")
		var idx []int
		useGet := false
		switch how {
		case "one":
			idx = []int{rapid.IntRange(0, n-1).Draw(t, l+"i")}
		case "continue": // goes on where the owner's previous read stopped - on whichever binding that was
			idx = []int{o.lastIdx + 1}
		case "same": // the same index as last time (one field of every series entry)
			if o.lastIdx < 0 {
				idx = []int{0}
			} else {
				idx = []int{o.lastIdx}
			}
		case "scan-prefix":
			k := rapid.IntRange(1, n).Draw(t, l+"k")
			if k > 12 {
				k = 12
			}
			for i := 0; i < k; i++ {
				idx = append(idx, i)
			}
		case "scan-from":
			a := rapid.IntRange(0, n-1).Draw(t, l+"a")
			b := rapid.IntRange(a, n-1).Draw(t, l+"b")
			if b > a+12 {
				b = a + 12
			}
			for i := a; i <= b; i++ {
				idx = append(idx, i)
			}
		case "descending":
			a := rapid.IntRange(0, n-1).Draw(t, l+"a")
			for i := a; i >= 0 && i > a-6; i-- {
				idx = append(idx, i)
			}
		case "last":
			idx = []int{n - 1}
		case "get-only":
			useGet = true
			idx = []int{rapid.IntRange(0, n-1).Draw(t, l+"i"), rapid.IntRange(0, n).Draw(t, l+"i2")}
		default:
			idx = []int{n + rapid.IntRange(0, 2).Draw(t, l+"over")}
		}
		if first && o.binds >= 2 {
			fk := how
			if len(idx) > 0 && idx[0] == 0 {
				fk += "/index0"
			} else {
				fk += "/inside"
			}
			classes = append(classes, "first-read-after-rebind="+fk)
			if o.tbl != nil && idx[0] > 0 && idx[0] < n && !useGet {
				nt = true
			}
		}
		if o.tbl == nil {
			classes = append(classes, "read-while-nothing-is-bound")
		}
		note("%s: %s %v (get=%v)", o.name, how, idx, useGet)
		for _, i := range idx {
			if useGet {
				o.expectGet(t, i)
			} else {
				o.expectBlock(t, i, data)
				if rapid.IntRange(0, 5).Draw(t, fmt.Sprintf("%sg%d", l, i)) == 0 {
					o.expectGet(t, i+rapid.IntRange(-1, 1).Draw(t, fmt.Sprintf("%sgd%d", l, i)))
				}
			}
			o.reads++
			if o.tbl != nil && i >= 0 && i < n {
				o.lastIdx = i
				if i == n-1 && !useGet {
					o.complete = true
				}
			}
		}
		if o.tbl != nil && rapid.IntRange(0, 7).Draw(t, l+"sz") == 0 {
			if o.dec.Size() != n || o.dec.ValueWidth() != minWidth(o.tbl.offs[n-1]) {
				t.Fatalf("%s: Size()=%d ValueWidth()=%d, model %s", o.name, o.dec.Size(), o.dec.ValueWidth(), o.modelString())
			}
		}
	}

	steps := rapid.IntRange(4, 24).Draw(t, "steps")
	for s := 0; s < steps; s++ {
		l := fmt.Sprintf("s%d", s)
		o := owners[rapid.IntRange(0, nOwners-1).Draw(t, l+"o")]
		switch op := rapid.IntRange(0, 9).Draw(t, l+"op"); {
		case o.binds == 0, op <= 2:
			bind(l, o)
		case op == 8:
			// a short-lived pooled user between the owners' steps: binds, reads a little, releases
			d := encoding.GetFixedOffsetDecoder()
			for _, x := range owners {
				if x.dec == d {
					t.Fatalf("pool handed out the decoder %s still holds", x.name)
				}
			}
			tmp := &foOwner{name: "pool-user", dec: d, lastIdx: -1}
			bind(l+"p", tmp)
			if rapid.Bool().Draw(t, l+"pr") {
				read(l+"p", tmp)
			}
			encoding.ReleaseFixedOffsetDecoder(d)
			classes = append(classes, "pool-user-between-owner-steps")
		default:
			read(l, o)
		}
	}
	// at the end every owner is bound once more and the whole table read in a drawn order
	for i, o := range owners {
		l := fmt.Sprintf("end%d", i)
		if rapid.Bool().Draw(t, l+"rebind") || o.tbl == nil {
			bind(l, o)
			for o.tbl == nil { // the drawn input was a rejected one: bind again
				l += "'"
				bind(l, o)
			}
		}
		n := len(o.tbl.offs)
		order := make([]int, 0, n)
		for k := 0; k < n && k < 40; k++ {
			order = append(order, k*n/minInt(n, 40))
		}
		switch rapid.IntRange(0, 2).Draw(t, l+"order") {
		case 1:
			sort.Sort(sort.Reverse(sort.IntSlice(order)))
		case 2:
			order = rapid.Permutation(order).Draw(t, l+"perm")
		}
		for _, k := range order {
			o.expectBlock(t, k, o.tbl.data)
			o.expectGet(t, k)
		}
		if o.pooled {
			encoding.ReleaseFixedOffsetDecoder(o.dec)
		}
	}
	canon := ""
	for _, tb := range tables {
		canon += fmt.Sprintf("%v/%d;", tb.offs, len(tb.data))
	}
	canon += fmt.Sprint(log)
	classes = append(classes, fmt.Sprintf("owners=%d", nOwners), fmt.Sprintf("rebinds=%s", bucket(rebinds)))
	ev.Case("TestFixedOffsetRebind", canon, nt && rebinds >= 1, dedup(classes), map[string]any{"tables": nTables, "owners": nOwners, "log": capList(log, 12)})
}

func minInt(a, b int) int {
	if a < b {
		return a
	}
	return b
}

func bucket(n int) string {
	switch {
	case n <= 2:
		return fmt.Sprint(n)
	case n <= 5:
		return "3-5"
	default:
		return "6+"
	}
}

// TestFixedOffsetRebind: owner histories over FixedOffsetDecoders that are kept and unmarshalled
// again (see the file comment): every Get / GetBlock equals the model of the table bound now.
func TestFixedOffsetRebind(t *testing.T) {
	rapid.Check(t, fixedOffsetRebindProperty)
}

// ---- delta bit packing decoder ----------------------------------------------------------------------

type deltaOwner struct {
	name string
	dec  *encoding.DeltaBitPackingDecoder
	vals []int32
	id   int
	pos  int
}

// TestDeltaRebind: 1-2 DeltaBitPackingDecoders kept by their owners, Reset to the next block after
// reading none / the first / some / all values of the current one, reads of the owners in turns.
func TestDeltaRebind(t *testing.T) {
	rapid.Check(t, func(t *rapid.T) {
		nBlocks := rapid.IntRange(2, 5).Draw(t, "blocks")
		type block struct {
			vals []int32
			data []byte
			kind string
		}
		blocks := make([]block, nBlocks)
		enc := encoding.NewDeltaBitPackingEncoder()
		for i := range blocks {
			l := fmt.Sprintf("b%d", i)
			vals, kind := genInt32Seq(t, l)
			if len(vals) > 60 {
				vals = vals[:60]
			}
			enc.Reset()
			for _, v := range vals {
				enc.Add(v)
			}
			data := append([]byte(nil), enc.Bytes()...)
			data = append(data, rapid.SliceOfN(rapid.Byte(), 0, 3).Draw(t, l+"trail")...)
			blocks[i] = block{vals, data, kind}
		}
		nOwners := rapid.IntRange(1, 2).Draw(t, "owners")
		owners := make([]*deltaOwner, nOwners)
		var classes, log []string
		rebinds, nt := 0, false
		bind := func(l string, o *deltaOwner) {
			b := rapid.IntRange(0, nBlocks-1).Draw(t, l+"blk")
			left := "first-binding"
			if o.dec != nil {
				switch {
				case o.pos == 0:
					left = "unread"
				case o.pos == 1:
					left = "first-value-only"
				case o.pos == len(o.vals):
					left = "read-to-the-end"
				default:
					left = "partial"
					nt = true
				}
				rebinds++
			}
			if o.dec == nil {
				o.dec = encoding.NewDeltaBitPackingDecoder(blocks[b].data)
			} else {
				o.dec.Reset(blocks[b].data)
			}
			o.vals, o.id, o.pos = blocks[b].vals, b, 0
			classes = append(classes, "previous-binding-left="+left, "kind="+blocks[b].kind, fmt.Sprintf("widthBytes=%d", (deltaWidth(o.vals)+7)/8))
			log = append(log, fmt.Sprintf("%s<-#%d after %s", o.name, b, left))
		}
		read := func(l string, o *deltaOwner, k int) {
			for ; k > 0; k-- {
				more := o.dec.HasNext()
				if more != (o.pos < len(o.vals)) {
					t.Fatalf("%s: HasNext() = %v at value %d of %d of block #%d (%v)\nhistory: %v", o.name, more, o.pos, len(o.vals), o.id, o.vals, log)
				}
				if !more {
					return
				}
				if g := o.dec.Next(); g != o.vals[o.pos] {
					t.Fatalf("%s: value %d of block #%d decoded %d, encoded %d (%v)\nhistory: %v", o.name, o.pos, o.id, g, o.vals[o.pos], o.vals, log)
				}
				o.pos++
			}
		}
		for i := range owners {
			owners[i] = &deltaOwner{name: fmt.Sprintf("owner%d", i)}
			bind(fmt.Sprintf("o%d", i), owners[i])
		}
		steps := rapid.IntRange(3, 16).Draw(t, "steps")
		for s := 0; s < steps; s++ {
			l := fmt.Sprintf("s%d", s)
			o := owners[rapid.IntRange(0, nOwners-1).Draw(t, l+"o")]
			if rapid.IntRange(0, 2).Draw(t, l+"op") == 0 {
				bind(l, o)
				continue
			}
			k := rapid.SampledFrom([]int{1, 1, 2, 3, 7, 8, 9, 100}).Draw(t, l+"k")
			log = append(log, fmt.Sprintf("%s reads %d", o.name, k))
			read(l, o, k)
		}
		for _, o := range owners {
			read("end", o, len(o.vals)+1)
		}
		canon := ""
		for _, b := range blocks {
			canon += fmt.Sprintf("%v;", b.vals)
		}
		classes = append(classes, fmt.Sprintf("owners=%d", nOwners), "rebinds="+bucket(rebinds))
		ev.Case("TestDeltaRebind", canon+fmt.Sprint(log), nt, dedup(classes), map[string]any{"blocks": nBlocks, "log": capList(log, 10)})
	})
}

// ---- stream reader ----------------------------------------------------------------------------------

// TestStreamReaderRebind: a stream.Reader kept by its owner, Reset to the next buffer after reading a
// part of the current one, then random access (ReadAt, SeekStart) and reads inside the new buffer.
// Only in-bounds reads are generated (running past the end is TestStreamRoundTrip's matter), so
// Error() must stay nil and every answer is a function of the bound buffer and the cursor.
func TestStreamReaderRebind(t *testing.T) {
	rapid.Check(t, func(t *rapid.T) {
		nBufs := rapid.IntRange(2, 4).Draw(t, "bufs")
		bufs := make([][]byte, nBufs)
		for i := range bufs {
			n := rapid.SampledFrom([]int{0, 1, 2, 7, 8, 9, 20, 40, 64}).Draw(t, fmt.Sprintf("b%dn", i))
			bufs[i] = rapid.SliceOfN(rapid.Byte(), n, n).Draw(t, fmt.Sprintf("b%d", i))
		}
		nOwners := rapid.IntRange(1, 2).Draw(t, "owners")
		type owner struct {
			r   *stream.Reader
			buf []byte
			id  int
			pos int
			ops int
		}
		owners := make([]*owner, nOwners)
		var classes, log []string
		nt := false
		for i := range owners {
			b := rapid.IntRange(0, nBufs-1).Draw(t, fmt.Sprintf("o%db", i))
			owners[i] = &owner{r: stream.NewReader(bufs[b]), buf: bufs[b], id: b}
		}
		steps := rapid.IntRange(4, 30).Draw(t, "steps")
		for s := 0; s < steps; s++ {
			l := fmt.Sprintf("s%d", s)
			o := owners[rapid.IntRange(0, nOwners-1).Draw(t, l+"o")]
			rem := len(o.buf) - o.pos
			op := rapid.SampledFrom([]string{"reset", "reset", "readAt", "seekStart", "byte", "slice", "bytes", "u16", "u32", "u64", "unread", "until", "uvarint"}).Draw(t, l+"op")
			fail := func(f string, a ...any) {
				t.Fatalf("step %d %s on buffer #%d (%d bytes) at %d: %s\nhistory: %v", s, op, o.id, len(o.buf), o.pos, fmt.Sprintf(f, a...), log)
			}
			want := func(got, model []byte) {
				if !bytes.Equal(got, model) {
					fail("got %x, bound buffer has %x", got, model)
				}
			}
			switch op {
			case "reset":
				left := "partial"
				switch {
				case o.ops == 0:
					left = "unread"
				case o.pos == len(o.buf):
					left = "at-the-end"
				default:
					nt = true
				}
				b := rapid.IntRange(0, nBufs-1).Draw(t, l+"b")
				o.r.Reset(bufs[b])
				o.buf, o.id, o.pos, o.ops = bufs[b], b, 0, 0
				classes = append(classes, "previous-binding-left="+left)
				if len(bufs[b]) == 0 {
					classes = append(classes, "rebind-to-empty-buffer")
				}
			case "readAt":
				p := rapid.IntRange(0, len(o.buf)).Draw(t, l+"p")
				o.r.ReadAt(p)
				o.pos = p
				if o.ops == 0 {
					classes = append(classes, "first-op-after-rebind=readAt")
				}
			case "seekStart":
				o.r.SeekStart()
				o.pos = 0
			case "byte":
				if rem < 1 {
					continue
				}
				if g := o.r.ReadByte(); g != o.buf[o.pos] {
					fail("ReadByte() = %#x, buffer has %#x", g, o.buf[o.pos])
				}
				o.pos++
			case "slice", "bytes":
				n := rapid.IntRange(0, rem).Draw(t, l+"n")
				if op == "slice" {
					want(o.r.ReadSlice(n), o.buf[o.pos:o.pos+n])
				} else {
					want(o.r.ReadBytes(n), o.buf[o.pos:o.pos+n])
				}
				o.pos += n
			case "u16":
				if rem < 2 {
					continue
				}
				if g, w := o.r.ReadUint16(), binary.LittleEndian.Uint16(o.buf[o.pos:]); g != w {
					fail("ReadUint16() = %#x, buffer has %#x", g, w)
				}
				o.pos += 2
			case "u32":
				if rem < 4 {
					continue
				}
				if g, w := o.r.ReadUint32(), binary.LittleEndian.Uint32(o.buf[o.pos:]); g != w {
					fail("ReadUint32() = %#x, buffer has %#x", g, w)
				}
				o.pos += 4
			case "u64":
				if rem < 8 {
					continue
				}
				if g, w := o.r.ReadUint64(), binary.LittleEndian.Uint64(o.buf[o.pos:]); g != w {
					fail("ReadUint64() = %#x, buffer has %#x", g, w)
				}
				o.pos += 8
			case "unread":
				want(o.r.UnreadSlice(), o.buf[o.pos:])
			case "until":
				if rem < 1 {
					continue
				}
				c := o.buf[o.pos+rapid.IntRange(0, rem-1).Draw(t, l+"c")]
				k := bytes.IndexByte(o.buf[o.pos:], c)
				want(o.r.ReadUntil(c), o.buf[o.pos:o.pos+k+1])
				o.pos += k + 1
			case "uvarint":
				w, k := binary.Uvarint(o.buf[o.pos:])
				if k <= 0 {
					continue // no well-formed uvarint ahead
				}
				if g := o.r.ReadUvarint64(); g != w {
					fail("ReadUvarint64() = %d, buffer has %d", g, w)
				}
				o.pos += k
			}
			o.ops++
			log = append(log, fmt.Sprintf("%s#%d@%d", op, o.id, o.pos))
			if err := o.r.Error(); err != nil {
				fail("Error() = %v after an in-bounds operation", err)
			}
			if p := o.r.Position(); p != o.pos {
				fail("Position() = %d, model %d", p, o.pos)
			}
			if e := o.r.Empty(); e != (o.pos == len(o.buf)) {
				fail("Empty() = %v", e)
			}
			classes = append(classes, "op="+op)
		}
		ev.Case("TestStreamReaderRebind", fmt.Sprintf("%x%v", bufs, log), nt, dedup(append(classes, fmt.Sprintf("owners=%d", nOwners))), map[string]any{"bufs": nBufs, "log": capList(log, 10)})
	})
}

// ---- bitmap target ----------------------------------------------------------------------------------

// TestBitmapRebind: a roaring bitmap kept as the target of BitmapUnmarshal (index reader / merger),
// queried by random access (Contains, Rank, Minimum / Maximum, a partly consumed iterator) and then
// loaded with the next marshalled bitmap, with or without Clear(); every query is answered from the
// set loaded last.
func TestBitmapRebind(t *testing.T) {
	rapid.Check(t, func(t *rapid.T) {
		nSets := rapid.IntRange(2, 3).Draw(t, "sets")
		type stored struct {
			data  []byte
			model []uint32
		}
		sets := make([]stored, nSets)
		var classes []string
		canon := ""
		for i := range sets {
			l := fmt.Sprintf("m%d", i)
			bm, model, kinds := genBitmap(t, l)
			if rapid.Bool().Draw(t, l+"runOpt") {
				bm.RunOptimize()
			}
			data, err := encoding.BitmapMarshal(bm)
			if err != nil {
				t.Fatalf("BitmapMarshal: %v", err)
			}
			sets[i] = stored{append(append([]byte(nil), data...), rapid.SliceOfN(rapid.Byte(), 0, 5).Draw(t, l+"trail")...), model}
			for _, k := range kinds {
				classes = append(classes, "container="+k)
			}
			canon += fmt.Sprintf("%x;", capList(data, 128))
		}
		target := roaring.New()
		var cur *stored
		reads, rebinds, nt := 0, 0, false
		steps := rapid.IntRange(3, 14).Draw(t, "steps")
		for s := 0; s < steps; s++ {
			l := fmt.Sprintf("s%d", s)
			op := rapid.IntRange(0, 5).Draw(t, l+"op")
			if cur == nil || op == 0 {
				if cur != nil {
					rebinds++
					if reads > 0 {
						nt = true
						classes = append(classes, "previous-binding-left=queried")
					} else {
						classes = append(classes, "previous-binding-left=unread")
					}
					if rapid.Bool().Draw(t, l+"clear") {
						target.Clear()
						classes = append(classes, "clear-before-rebind")
					}
				}
				cur = &sets[rapid.IntRange(0, nSets-1).Draw(t, l+"set")]
				if _, err := encoding.BitmapUnmarshal(target, cur.data); err != nil {
					t.Fatalf("BitmapUnmarshal: %v", err)
				}
				reads = 0
				canon += "B"
				continue
			}
			reads++
			canon += fmt.Sprint(op)
			m := cur.model
			switch op {
			case 1, 2: // membership of a member, a neighbour, an arbitrary value
				var v uint32
				if len(m) > 0 && op == 1 {
					v = m[rapid.IntRange(0, len(m)-1).Draw(t, l+"i")] + uint32(rapid.IntRange(0, 1).Draw(t, l+"d"))
				} else {
					v = rapid.Uint32().Draw(t, l+"v")
				}
				k := sort.Search(len(m), func(i int) bool { return m[i] >= v })
				in := k < len(m) && m[k] == v
				if target.Contains(v) != in {
					t.Fatalf("step %d: Contains(%d) = %v, loaded set says %v", s, v, !in, in)
				}
				if in {
					k++
				}
				if r := target.Rank(v); r != uint64(k) {
					t.Fatalf("step %d: Rank(%d) = %d, loaded set says %d", s, v, r, k)
				}
			case 3:
				if target.GetCardinality() != uint64(len(m)) || target.IsEmpty() != (len(m) == 0) {
					t.Fatalf("step %d: cardinality %d, loaded set has %d", s, target.GetCardinality(), len(m))
				}
				if len(m) > 0 && (target.Minimum() != m[0] || target.Maximum() != m[len(m)-1]) {
					t.Fatalf("step %d: min/max %d/%d, loaded set %d/%d", s, target.Minimum(), target.Maximum(), m[0], m[len(m)-1])
				}
			default: // an iterator consumed only partly (and dropped before the next bind)
				it := target.Iterator()
				k := rapid.IntRange(0, 20).Draw(t, l+"k")
				for i := 0; i < k && i < len(m); i++ {
					if !it.HasNext() {
						t.Fatalf("step %d: iterator ends after %d of %d values", s, i, len(m))
					}
					if g := it.Next(); g != m[i] {
						t.Fatalf("step %d: iterator value %d = %d, loaded set has %d", s, i, g, m[i])
					}
				}
				if k >= len(m) && it.HasNext() {
					t.Fatalf("step %d: iterator goes on after %d values", s, len(m))
				}
			}
		}
		if got := target.ToArray(); !sameU32(got, cur.model) {
			t.Fatalf("at the end: %d values, loaded set has %d", len(got), len(cur.model))
		}
		ev.Case("TestBitmapRebind", canon, nt, dedup(append(classes, "rebinds="+bucket(rebinds))), map[string]any{"sets": nSets})
	})
}
