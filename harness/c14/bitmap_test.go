package c14

import (
	"bytes"
	"fmt"
	"math/bits"
	"sort"
	"testing"

	"github.com/lindb/roaring"
	"pgregory.net/rapid"

	"github.com/lindb/lindb/pkg/encoding"
	"github.com/lindb/lindb/verifharness/sim/ev"
)

// genBitmap draws a bitmap together with its model (sorted distinct values). Containers of all
// three roaring kinds are produced: array (few values), bitmap (> 4096 scattered values), run
// (ranges, after RunOptimize).
func genBitmap(t *rapid.T, label string) (*roaring.Bitmap, []uint32, []string) {
	bm := roaring.New()
	sets := map[uint32]*lowSet{}
	var kinds []string
	nc := rapid.IntRange(0, 3).Draw(t, label+"nc")
	for c := 0; c < nc; c++ {
		l := fmt.Sprintf("%s%d", label, c)
		var high uint32
		switch rapid.IntRange(0, 3).Draw(t, l+"hk") {
		case 0:
			high = 0
		case 1:
			high = 65535
		default:
			high = uint32(rapid.IntRange(0, 65535).Draw(t, l+"h"))
		}
		base := high << 16
		set := sets[high]
		if set == nil {
			set = &lowSet{}
			sets[high] = set
		}
		kind := rapid.SampledFrom([]string{"array", "array", "array", "single", "run", "run", "bitmap", "full"}).Draw(t, l+"k")
		kinds = append(kinds, kind)
		switch kind {
		case "array":
			n := rapid.IntRange(1, 40).Draw(t, l+"n")
			for i := 0; i < n; i++ {
				v := rapid.IntRange(0, 65535).Draw(t, l+"v")
				bm.Add(base | uint32(v))
				set.add(v)
			}
		case "single":
			v := rapid.SampledFrom([]int{0, 1, 65534, 65535}).Draw(t, l+"v")
			bm.Add(base | uint32(v))
			set.add(v)
		case "run":
			nr := rapid.IntRange(1, 3).Draw(t, l+"nr")
			for i := 0; i < nr; i++ {
				a := rapid.IntRange(0, 65535).Draw(t, l+"a")
				b := a + rapid.IntRange(1, 3000).Draw(t, l+"len")
				if b > 65536 {
					b = 65536
				}
				bm.AddRange(uint64(base)+uint64(a), uint64(base)+uint64(b))
				for v := a; v < b; v++ {
					set.add(v)
				}
			}
		case "bitmap":
			stride := rapid.IntRange(2, 3).Draw(t, l+"stride")
			cnt := rapid.IntRange(4097, 6000).Draw(t, l+"cnt")
			off := rapid.IntRange(0, 65536-cnt*stride).Draw(t, l+"off")
			vals := make([]uint32, 0, cnt)
			for i := 0; i < cnt; i++ {
				vals = append(vals, base|uint32(off+i*stride))
				set.add(off + i*stride)
			}
			bm.AddMany(vals)
		default: // full container
			bm.AddRange(uint64(base), uint64(base)+65536)
			for w := range set {
				set[w] = ^uint64(0)
			}
		}
	}
	highs := make([]uint32, 0, len(sets))
	for h := range sets {
		highs = append(highs, h)
	}
	sort.Slice(highs, func(i, j int) bool { return highs[i] < highs[j] })
	var model []uint32
	for _, h := range highs {
		model = sets[h].appendTo(model, h<<16)
	}
	return bm, model, kinds
}

// lowSet is the model of the 65536 possible low halves under one high key.
type lowSet [1024]uint64

func (s *lowSet) add(v int) { s[v>>6] |= 1 << uint(v&63) }

func (s *lowSet) appendTo(out []uint32, base uint32) []uint32 {
	for w, word := range s {
		for word != 0 {
			b := bits.TrailingZeros64(word)
			out = append(out, base|uint32(w<<6+b))
			word &^= 1 << uint(b)
		}
	}
	return out
}

func sameU32(a, b []uint32) bool {
	if len(a) != len(b) {
		return false
	}
	for i := range a {
		if a[i] != b[i] {
			return false
		}
	}
	return true
}

func unionU32(a, b []uint32) []uint32 {
	out := make([]uint32, 0, len(a)+len(b))
	i, j := 0, 0
	for i < len(a) || j < len(b) {
		switch {
		case j >= len(b) || (i < len(a) && a[i] < b[j]):
			out = append(out, a[i])
			i++
		case i >= len(a) || b[j] < a[i]:
			out = append(out, b[j])
			j++
		default:
			out = append(out, a[i])
			i++
			j++
		}
	}
	return out
}

// TestBitmapCodec: BitmapMarshal / BitmapUnmarshal return exactly the marshalled set, whatever
// containers it uses, with bytes following the bitmap in the buffer (keys block of a table file),
// into a target bitmap that is reused for several values with or without Clear() in between (index
// merger / index reader pattern); using the loaded bitmap never writes to the source buffer
// (which is a read-only mapping in production).
func TestBitmapCodec(t *testing.T) {
	rapid.Check(t, func(t *rapid.T) {
		rounds := rapid.IntRange(1, 4).Draw(t, "rounds")
		target := roaring.New()
		acc := roaring.New()
		var accModel []uint32
		canon := ""
		nt := false
		var classes []string
		for round := 0; round < rounds; round++ {
			l := fmt.Sprintf("r%d", round)
			src, model, kinds := genBitmap(t, l)
			if rapid.Bool().Draw(t, l+"runOpt") {
				src.RunOptimize() // table builder does this before marshalling the keys
			}
			st := src.Stats()
			data, err := encoding.BitmapMarshal(src)
			if err != nil {
				t.Fatalf("BitmapMarshal: %v", err)
			}
			marshalled := len(data)
			trailing := rapid.SliceOfN(rapid.Byte(), 0, 9).Draw(t, l+"trail")
			buf := append(append([]byte(nil), data...), trailing...)
			pristine := append([]byte(nil), buf...)

			tk := "fresh"
			if round > 0 {
				tk = rapid.SampledFrom([]string{"fresh", "reuse", "reuse-clear"}).Draw(t, l+"target")
			}
			switch tk {
			case "fresh":
				target = roaring.New()
			case "reuse-clear":
				target.Clear()
			}
			if rapid.IntRange(0, 3).Draw(t, l+"damagedFirst") == 0 {
				// a damaged copy first, into the same target: rejected or loaded as something else; the target is
				// then reused (with or without Clear) for the intact bytes
				bad, kind := damageBytes(t, l+"dmg", data, 0)
				var derr error
				noPanic(t, fmt.Sprintf("round %d, damaged bitmap (%s, %d of %d bytes)", round, kind, len(bad), len(data)), func() {
					_, derr = encoding.BitmapUnmarshal(target, bad)
				})
				classes = append(classes, "damaged-unmarshal-before", "damaged="+kind, fmt.Sprintf("damaged-rejected=%v", derr != nil))
				if rapid.Bool().Draw(t, l+"clearAfterDamaged") {
					target.Clear()
				}
				tk += "-after-damaged"
			}
			n, err := encoding.BitmapUnmarshal(target, buf)
			if err != nil {
				t.Fatalf("BitmapUnmarshal: %v", err)
			}
			if int(n) != marshalled {
				t.Fatalf("BitmapUnmarshal consumed %d bytes, bitmap was marshalled into %d", n, marshalled)
			}
			if got := target.ToArray(); !sameU32(got, model) {
				t.Fatalf("round %d (%s): unmarshalled %d values, marshalled %d (containers %v); first got %v want %v",
					round, tk, len(got), len(model), kinds, capList(got, 10), capList(model, 10))
			}
			if target.GetCardinality() != uint64(len(model)) || !target.Equals(src) {
				t.Fatalf("cardinality %d / Equals=%v, model %d", target.GetCardinality(), target.Equals(src), len(model))
			}
			// use it the way the readers do
			acc.Or(target)
			accModel = unionU32(accModel, model)
			if got := acc.ToArray(); !sameU32(got, accModel) {
				t.Fatalf("round %d: union of the loaded bitmaps has %d values, model %d", round, len(got), len(accModel))
			}
			if rapid.Bool().Draw(t, l+"mutate") {
				target.Add(uint32(rapid.Uint32().Draw(t, l+"add")))
				if len(model) > 0 {
					target.Remove(model[rapid.IntRange(0, len(model)-1).Draw(t, l+"rm")])
				}
			}
			if !bytes.Equal(buf, pristine) {
				t.Fatalf("round %d: the source buffer was modified through the unmarshalled bitmap", round)
			}
			multi := st.Containers >= 2 || st.BitmapContainers > 0 || st.RunContainers > 0
			if len(model) >= 2 && (multi || tk != "fresh") {
				nt = true
			}
			if st.ArrayContainers > 0 {
				classes = append(classes, "container=array")
			}
			if st.BitmapContainers > 0 {
				classes = append(classes, "container=bitmap")
			}
			if st.RunContainers > 0 {
				classes = append(classes, "container=run")
			}
			if len(model) == 0 {
				classes = append(classes, "empty-bitmap")
			}
			classes = append(classes, "target="+tk)
			canon += fmt.Sprintf("%s:%x;", tk, capList(data, 256))
		}
		ev.Case("TestBitmapCodec", canon, nt, dedup(append(classes, fmt.Sprintf("rounds=%d", rounds))),
			map[string]any{"rounds": rounds, "unionCardinality": len(accModel)})
	})
}
