package c14

import (
	"fmt"
	"runtime"
	"runtime/debug"
	"strings"
	"testing"

	"pgregory.net/rapid"

	"github.com/lindb/lindb/pkg/bit"
	"github.com/lindb/lindb/pkg/encoding"
	"github.com/lindb/lindb/verifharness/sim/ev"
)

type storedBlock struct {
	blk      *tsdBlock
	data     []byte
	withTime bool
	reused   bool // written by an encoder that had been used before (pool or held)
	reads    int
}

// tsdHistory is the state of one reuse history.
type tsdHistory struct {
	heldEnc  []*encoding.TSDEncoder
	heldDec  []*encoding.TSDDecoder
	usedDec  map[*encoding.TSDDecoder]bool // decoders that already read (or half-read) something in this case
	stored   []*storedBlock
	log      []string
	step     int
	poolPuts int // encoders released to the pool so far in this case (the next Get may return one)
	decPuts  int
	classes  map[string]int
	reusedRd int

	// owners: pooled decoders / stream readers alive across steps (tsd_owners_test.go)
	live                  []*owner
	writers               []*openWriter
	streams               []*storedStream
	holders               map[any][]string
	aliased               string
	ownerSeq              int
	maxLive               int
	lastReader            int
	lastWriter            int
	interleavedWrites     int // appends in turns by different pooled encoders that are both in the middle of a block
	interleaved           int // reads in turns by different owners that are both in the middle of a block
	interleavedAfterDrain int // ... after some reader of this case had been drained and closed
	drainedClosed         int

	// damaged blocks (damaged_test.go)
	damaged        []*storedBlock // damaged variants with a readable time range: owners may bind to them
	lastBad        map[*encoding.TSDDecoder]bool
	intactAfterBad int
}

func (h *tsdHistory) note(f string, a ...any) { h.log = append(h.log, fmt.Sprintf(f, a...)) }
func (h *tsdHistory) l(s string) string       { return fmt.Sprintf("%d%s", h.step, s) }

// dirty leaves an encoder in an arbitrary half-used state: slot bits and values appended in any
// order (even a value without its slot bit), optionally flushed by Bytes()/BytesWithoutTime().
func (h *tsdHistory) dirty(t *rapid.T, enc *encoding.TSDEncoder) {
	k := rapid.IntRange(0, 20).Draw(t, h.l("dirtyN"))
	for i := 0; i < k; i++ {
		switch rapid.IntRange(0, 3).Draw(t, h.l("dirtyK")) {
		case 0:
			enc.AppendTime(bit.Zero)
		case 1:
			enc.AppendTime(bit.One)
		case 2:
			enc.AppendTime(bit.One)
			enc.AppendValue(genBits(t, h.l("dirtyV"), 0, false))
		default:
			enc.AppendValue(genBits(t, h.l("dirtyV"), 0, false))
		}
	}
	switch rapid.IntRange(0, 3).Draw(t, h.l("dirtyFlush")) {
	case 0:
		_, _ = enc.Bytes()
	case 1:
		_, _ = enc.BytesWithoutTime()
	}
}

// encode writes one generated block with the given (already positioned) encoder, stores it and
// immediately checks it with a brand-new decoder.
func (h *tsdHistory) encode(t *rapid.T, enc *encoding.TSDEncoder, blk *tsdBlock, api string, reused bool, how string) {
	withTime := rapid.Bool().Draw(t, h.l("withTime"))
	data := encodeBlock(t, enc, blk, api, withTime)
	sb := &storedBlock{blk: blk, data: data, withTime: withTime, reused: reused}
	h.stored = append(h.stored, sb)
	h.note("%s(%s,%v,%s)", how, api, withTime, blk)
	h.classes["enc="+how]++
	// immediate check with a decoder that has no history
	fresh := encoding.NewTSDDecoder(nil)
	resetDecoder(fresh, blk, data, withTime, false)
	execRead(t, fresh, blk, readPlan{Path: "seq", StopAfter: -1})
}

func (h *tsdHistory) read(t *rapid.T, dec *encoding.TSDDecoder, how string) {
	if len(h.stored) == 0 {
		t.Skip("nothing stored yet")
	}
	sb := h.stored[rapid.IntRange(0, len(h.stored)-1).Draw(t, h.l("blk"))]
	p := genReadPlan(t, h.l("p"), sb.blk, true)
	resetDecoder(dec, sb.blk, sb.data, sb.withTime, rapid.Bool().Draw(t, h.l("viaRange")))
	h.noteBinding(dec, sb.blk)
	execRead(t, dec, sb.blk, p)
	sb.reads++
	if h.usedDec[dec] {
		h.reusedRd++
	}
	h.usedDec[dec] = true
	h.note("%s(%s,stop=%d)", how, p.Path, p.StopAfter)
	h.classes["dec="+how]++
	h.classes["path="+p.Path]++
	if p.StopAfter >= 0 {
		h.classes["partial-read"]++
	}
}

// TestTSDReuseHistory: whatever pooled / held encoder and decoder objects did before - complete
// blocks, abandoned half-written blocks returned to the pool, flushed and unflushed leftovers,
// half-read blocks, a Reset with data that is too short - a block written afterwards decodes to
// exactly its own slots and values, through every read path.
//
// Owners (tsd_owners_test.go) add the dimension "several pooled objects alive at once": pooled decoders
// and multi-field stream readers with cursors that survive between steps, advanced in turns at slot
// granularity, readers drained / closed early / asked HasNext again after the end, stream writers open
// side by side. Every owner reads exactly its own block.
func TestTSDReuseHistory(t *testing.T) {
	defer runtime.GOMAXPROCS(runtime.GOMAXPROCS(1)) // sync.Pool is per P: see tsd_owners_test.go
	rapid.Check(t, func(t *rapid.T) {
		defer debug.SetGCPercent(debug.SetGCPercent(-1))
		drainDecoderPool()
		h := &tsdHistory{usedDec: map[*encoding.TSDDecoder]bool{}, classes: map[string]int{}}
		actions := map[string]func(*rapid.T){
			"": func(t *rapid.T) { h.step++ },
			// compact() of the memory database, MarshalBinary of query results: encoder from the pool
			"encodePool": func(t *rapid.T) {
				api := rapid.SampledFrom([]string{"append", "emit"}).Draw(t, h.l("api"))
				blk, _ := genBlock(t, h.l("b"), api)
				enc := encoding.GetTSDEncoder(blk.start)
				h.acquire(enc, "encodePool")
				h.encode(t, enc, blk, api, h.poolPuts > 0, "encodePool")
				if rapid.Bool().Draw(t, h.l("plainReset")) {
					enc.Reset() // series merger: plain Reset() after BytesWithoutTime()
				}
				if rapid.IntRange(0, 3).Draw(t, h.l("hold")) == 0 && len(h.heldEnc) < 3 {
					h.heldEnc = append(h.heldEnc, enc)
				} else {
					encoding.ReleaseTSDEncoder(enc)
					h.giveUp(enc)
					h.poolPuts++
				}
			},
			// flusher.GetEncoder(i).RestWithStartTime(..): a long-lived encoder reused for every series
			"encodeHeld": func(t *rapid.T) {
				if len(h.heldEnc) == 0 {
					t.Skip("no held encoder")
				}
				api := rapid.SampledFrom([]string{"append", "emit"}).Draw(t, h.l("api"))
				blk, _ := genBlock(t, h.l("b"), api)
				enc := h.heldEnc[rapid.IntRange(0, len(h.heldEnc)-1).Draw(t, h.l("which"))]
				enc.RestWithStartTime(blk.start)
				h.encode(t, enc, blk, api, true, "encodeHeld")
			},
			"encodeNew": func(t *rapid.T) {
				blk, _ := genBlock(t, h.l("b"), "append")
				enc := encoding.NewTSDEncoder(blk.start)
				h.acquire(enc, "encodeNew")
				h.encode(t, enc, blk, "append", false, "encodeNew")
				if len(h.heldEnc) < 3 {
					h.heldEnc = append(h.heldEnc, enc)
				}
			},
			// an error path: the encoder goes back to the pool (or stays held) in the middle of a block
			"abandonPool": func(t *rapid.T) {
				enc := encoding.GetTSDEncoder(rapid.Uint16Range(0, 4000).Draw(t, h.l("s")))
				h.acquire(enc, "abandonPool")
				h.dirty(t, enc)
				encoding.ReleaseTSDEncoder(enc)
				h.giveUp(enc)
				h.poolPuts++
				h.note("abandonPool")
				h.classes["abandoned-encoder"]++
			},
			"abandonHeld": func(t *rapid.T) {
				if len(h.heldEnc) == 0 {
					t.Skip("no held encoder")
				}
				enc := h.heldEnc[rapid.IntRange(0, len(h.heldEnc)-1).Draw(t, h.l("which"))]
				enc.RestWithStartTime(rapid.Uint16Range(0, 4000).Draw(t, h.l("s")))
				h.dirty(t, enc)
				h.note("abandonHeld")
				h.classes["abandoned-encoder"]++
			},
			"emptyBlock": func(t *rapid.T) {
				// no slot appended: Bytes() is documented to return nil
				enc := encoding.GetTSDEncoder(rapid.Uint16Range(0, 4000).Draw(t, h.l("s")))
				h.acquire(enc, "emptyBlock")
				defer h.giveUp(enc)
				data, err := enc.Bytes()
				if err != nil || data != nil {
					t.Fatalf("Bytes() of an encoder without slots = %x,%v; documented nil,nil", data, err)
				}
				encoding.ReleaseTSDEncoder(enc)
				h.poolPuts++
				h.note("emptyBlock")
			},
			"releaseHeldEncoder": func(t *rapid.T) {
				if len(h.heldEnc) == 0 {
					t.Skip("no held encoder")
				}
				i := rapid.IntRange(0, len(h.heldEnc)-1).Draw(t, h.l("which"))
				encoding.ReleaseTSDEncoder(h.heldEnc[i])
				h.giveUp(h.heldEnc[i])
				h.heldEnc = append(h.heldEnc[:i], h.heldEnc[i+1:]...)
				h.poolPuts++
				h.note("releaseHeldEncoder")
			},
			"readPool": func(t *rapid.T) {
				if len(h.stored) == 0 {
					t.Skip("nothing stored yet")
				}
				dec := encoding.GetTSDDecoder()
				seenDecoders[dec] = struct{}{}
				h.acquire(dec, "readPool")
				h.read(t, dec, "readPool")
				if rapid.IntRange(0, 3).Draw(t, h.l("hold")) == 0 && len(h.heldDec) < 3 {
					h.heldDec = append(h.heldDec, dec)
				} else {
					encoding.ReleaseTSDDecoder(dec)
					h.giveUp(dec)
					delete(h.usedDec, dec)
					h.decPuts++
				}
			},
			"readHeld": func(t *rapid.T) {
				if len(h.heldDec) == 0 {
					t.Skip("no held decoder")
				}
				h.read(t, h.heldDec[rapid.IntRange(0, len(h.heldDec)-1).Draw(t, h.l("which"))], "readHeld")
			},
			"readNew": func(t *rapid.T) {
				if len(h.stored) == 0 {
					t.Skip("nothing stored yet")
				}
				dec := encoding.NewTSDDecoder(nil)
				seenDecoders[dec] = struct{}{}
				h.acquire(dec, "readNew")
				h.read(t, dec, "readNew")
				if len(h.heldDec) < 3 {
					h.heldDec = append(h.heldDec, dec)
				}
			},
			// BinaryPrimitiveIterator.Reset with the empty data of a field without points
			"badReset": func(t *rapid.T) {
				var dec *encoding.TSDDecoder
				if len(h.heldDec) > 0 && rapid.Bool().Draw(t, h.l("held")) {
					dec = h.heldDec[rapid.IntRange(0, len(h.heldDec)-1).Draw(t, h.l("which"))]
				} else {
					dec = encoding.GetTSDDecoder()
					seenDecoders[dec] = struct{}{}
					h.acquire(dec, "badReset")
					defer func() { encoding.ReleaseTSDDecoder(dec); h.giveUp(dec); h.decPuts++ }()
				}
				short := rapid.SliceOfN(rapid.Byte(), 0, 4).Draw(t, h.l("short"))
				dec.Reset(short)
				if dec.Error() == nil {
					t.Fatalf("Reset with %d bytes reports no error", len(short))
				}
				h.usedDec[dec] = true
				h.note("badReset(%d)", len(short))
				h.classes["bad-reset"]++
			},
			// a truncated / damaged block in between (damaged_test.go)
			"damagedRead":  h.damagedRead,
			"damagedRead2": h.damagedRead,
			"releaseHeldDecoder": func(t *rapid.T) {
				if len(h.heldDec) == 0 {
					t.Skip("no held decoder")
				}
				i := rapid.IntRange(0, len(h.heldDec)-1).Draw(t, h.l("which"))
				encoding.ReleaseTSDDecoder(h.heldDec[i])
				h.giveUp(h.heldDec[i])
				delete(h.usedDec, h.heldDec[i])
				h.heldDec = append(h.heldDec[:i], h.heldDec[i+1:]...)
				h.decPuts++
				h.note("releaseHeldDecoder")
			},
		}
		for name, a := range h.ownerActions() {
			actions[name] = a
		}
		// rapid draws the next action uniformly over the keys: owner steps are the slot-granular ones, so they
		// get more keys; two rounds (~60 steps) keep the number of classic steps per case where it was
		actions["ownStep2"], actions["ownStep3"], actions["ownStep4"] = actions["ownStep"], actions["ownStep"], actions["ownStep"]
		actions["writerField2"], actions["ownReader2"] = actions["writerField"], actions["ownReader"]
		t.Repeat(actions)
		t.Repeat(actions)

		// owners that are still alive complete their blocks / streams in turns, one slot each, and are closed
		ownersAtEnd := len(h.live)
		h.finishOwners(t)
		// every stored stream is read once more by the ordinary loop of a reader of its own
		for _, st := range h.streams {
			o := &owner{id: -1, kind: "rd", st: st, r: encoding.NewTSDStreamReader(st.raw)}
			for h.readerHasNext(t, o) {
				h.readerNext(t, o, "")
				o.cur.read(t, o.who(), -1)
			}
			o.r.Close()
			if o.dec != nil {
				h.giveUp(o.dec)
			}
		}
		// final sweep: every stored block is read once more, completely, by one pooled decoder that
		// is reused for all of them (whatever state the history left in the pool)
		dec := encoding.GetTSDDecoder()
		seenDecoders[dec] = struct{}{}
		h.acquire(dec, "final sweep")
		for i, sb := range h.stored {
			path := fullPaths[rapid.IntRange(0, len(fullPaths)-1).Draw(t, fmt.Sprintf("sweep%d", i))]
			if len(h.damaged) > 0 && rapid.IntRange(0, 3).Draw(t, fmt.Sprintf("sweepBad%d", i)) == 0 {
				// ... with a damaged block in between
				bad := h.damaged[rapid.IntRange(0, len(h.damaged)-1).Draw(t, fmt.Sprintf("sweepBadBlk%d", i))]
				resetToDamaged(dec, bad, true, false)
				h.noteBinding(dec, bad.blk)
				readDamaged(t, "final sweep, damaged block in between", dec, path, bad.blk.n()+2)
			}
			resetDecoder(dec, sb.blk, sb.data, sb.withTime, false)
			h.noteBinding(dec, sb.blk)
			execRead(t, dec, sb.blk, readPlan{Path: path, StopAfter: -1, Lo: 1, Hi: 1})
		}
		encoding.ReleaseTSDDecoder(dec)
		h.giveUp(dec)
		// leave held objects in the pools: the next case starts from whatever this one left behind
		// (encoders; the decoder pool is emptied at the start of a case)
		for _, e := range h.heldEnc {
			encoding.ReleaseTSDEncoder(e)
		}
		for _, d := range h.heldDec {
			encoding.ReleaseTSDDecoder(d)
		}
		if h.aliased != "" {
			t.Fatalf("pooled object owned twice: %s (history: %s)", h.aliased, strings.Join(shorten(h.log, 80), "; "))
		}

		nt := false
		for _, sb := range h.stored {
			if sb.blk.n() >= 2 && (sb.reused || h.reusedRd > 0) {
				nt = true
			}
		}
		var cl []string
		for k := range h.classes {
			cl = append(cl, k)
		}
		cl = append(cl, fmt.Sprintf("blocks=%d", min(len(h.stored), 8)))
		cl = append(cl, fmt.Sprintf("owners-alive-max=%d", h.maxLive), fmt.Sprintf("owners-alive-at-end=%d", ownersAtEnd))
		if h.interleaved > 0 {
			cl = append(cl, "owners-read-in-turns")
			nt = true
		}
		if h.interleavedWrites > 0 {
			cl = append(cl, "owners-write-in-turns")
			nt = true
		}
		if h.interleavedAfterDrain > 0 {
			cl = append(cl, "owners-read-in-turns-after-drained-reader")
		}
		if h.reusedRd > 0 {
			cl = append(cl, "reused-decoder")
		}
		cl = append(cl, fmt.Sprintf("intact-after-damaged=%d", min(h.intactAfterBad, 4)))
		for _, sb := range h.stored {
			if sb.reused {
				cl = append(cl, "reused-encoder")
				break
			}
		}
		ev.Case("TestTSDReuseHistory", strings.Join(h.log, ";"), nt, sortStrings(cl),
			map[string]any{"steps": len(h.log), "blocks": len(h.stored), "history": capList(shorten(h.log, 120), 12)})
	})
}

func shorten(in []string, n int) []string {
	out := make([]string, len(in))
	for i, s := range in {
		if len(s) > n {
			s = s[:n] + "..."
		}
		out[i] = s
	}
	return out
}

func sortStrings(in []string) []string {
	out := dedup(in)
	for i := 1; i < len(out); i++ {
		for j := i; j > 0 && out[j] < out[j-1]; j-- {
			out[j], out[j-1] = out[j-1], out[j]
		}
	}
	return out
}
