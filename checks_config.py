"""Per-property configuration of the driver: which test functions make up a check, the
budgets of the two tiers, the evidence level and the non-trivial rule (as implemented by the
property package through sim/ev)."""

CHECKS = {}

CHECKS["C13"] = {
    "pkg": "./c13/",
    "level": "exploration",
    "rule": ("rapid-generated (interval value via Interval.ValueOf, boundary-biased ms timestamp in 2015..2035) cases plus "
             "a walk over every family boundary of 2015..2035; TestPartition case non-trivial = timestamp within one interval "
             "of a family/segment boundary; TestRangeFamilies = range spans >= 2 families; TestPlannerInterval = planned range "
             "spans >= 2 families or interval ratio > 1; TestEngineFamilies (real engine: Shard.GetOrCrateDataFamily / Shard.GetDataFamilies for day-, month- and year-type "
             "intervals, families clustered around a boundary-biased anchor, ranges starting/ending in neighbouring families and segments) = some range overlaps >= 2 existing families; written timestamps and range ends biased to calendar family boundaries (first/last ms of an existing or neighbouring family incl. the first family of a segment, +-1 ms, +-1 slot, interval-truncated ends = slot 0, single-millisecond ranges), oracle = existing families whose time range intersects the inclusive query range. "
             "TestBrokerBatchFamilies = history of 4-12 acquire/write+release steps on 1-2 POOLED BrokerBatchRows objects (metric.NewBrokerBatchRows/Release) over 2-3 databases with generated intervals (grouping as replica.databaseChannel.Write: NewShardGroupIterator(1-4 shards), FamilyRowsForNextShard(interval), HasNextFamily/NextFamily), timestamps clustered around one boundary-biased anchor; every row handed out once, per shard every family once, group family time = calendar family of every row = CalcFamilyTime, [familyTime, CalcFamilyEndTime] contains the row; non-trivial = some batch object reused for a database of another interval type than its previous use. "
             "TestEngineConcurrentFamilies = goroutine stress on one shard of a real engine: 2-8 barrier-released goroutines call Shard.GetOrCrateDataFamily with timestamps of a generated pool (2-6 timestamps in 1-3, mostly >=2, different segments around a segment boundary; first/last/any family of the segment, first/last/any ms of the family; generated subset pre-created, rest created under the race; 0-2 rollup intervals), each following its own pattern (dedicated / alternating / list) for 2000-12000 lookups, optionally with Shard.GetDataFamilies over generated ranges in between; interleaving-independent oracle: every lookup returns the calendar family of its own timestamp, one family object per family time over all goroutines and queries, query results are distinct calendar families intersecting the inclusive range and contain every pre-created family and every family the asking goroutine obtained earlier; non-trivial = >=2 segments looked up concurrently. "
             "distinct = (interval(s), timestamp(s)) hash"),
    "technique": "property-based testing (rapid) of the calculators and the planner against arithmetic invariants + exhaustive family-boundary walk; stateful histories over pooled batch objects (write-side family grouping) with a calendar (time.Date) reference; real-goroutine stress variant of the engine family lookup with an interleaving-independent oracle (-race in the thorough tier)",
    "level_text": ("Generated-input exploration: tens of thousands of boundary-biased (interval, timestamp) cases per run and a complete walk over "
                   "all family boundaries of 21 years check exactly the invariants the statement lists (containment, tiling, idempotence, slot bound, "
                   "planner multiple/alignment/cover). The functions are pure, so sampling + the exhaustive walk is the right level."),
    "level_note": "Trusted: Go's time package as the calendar; TZ=UTC; window 2015..2035. The engine-level family lookup (TestEngineFamilies) goes through a real tsdb engine (sim/node). Rollup-target interval segments are only populated by rollup jobs and are not queried in TestEngineFamilies (single-interval databases). Pre-emption between instructions of the lookup path is only sampled by the stress variant (needs >=2 cores: seeded C13f detected 10/10 runs on 16 cores, 0/5 pinned to one core). Segment eviction/TTL/close concurrent with lookups is not generated (lifecycle, not bucketing).",
    "assumptions": ["TZ=UTC (time.Local); DST zones out of scope", "timestamps restricted to 2015-01-01..2035-12-31", "sync.Pool hands a released batch back on the same goroutine (class batch-object=reused-from-pool shows how often); an object new to a case is primed with one unchecked use so that the outcome does not depend on earlier cases", "EvictOutOfTimeRange is called with behind=ahead=0 in TestBrokerBatchFamilies (wall-clock independent)", "Shard.GetOrCrateDataFamily / GetDataFamilies are safe for concurrent use on one shard (every layer takes its own mutex); today's only production caller of GetOrCrateDataFamily serialises lookups per database behind the WAL mutex, queries run concurrently with it"],
    "tests": [
        {"name": "TestPartition", "quick": 20000, "thorough": {"checks": 200000, "shards": 8}},
        {"name": "TestRangeFamilies", "quick": 3000, "thorough": {"checks": 30000, "shards": 4}},
        {"name": "TestBoundaryWalk", "quick": {"short": True}, "thorough": {}},
        {"name": "TestPlannerInterval", "quick": 20000, "thorough": {"checks": 200000, "shards": 4}},
        {"name": "TestEngineFamilies", "quick": 400, "thorough": {"checks": 3000, "shards": 4}},
        {"name": "TestBrokerBatchFamilies", "quick": 3000, "thorough": {"checks": 30000, "shards": 4}},
        {"name": "TestEngineConcurrentFamilies", "quick": 100, "thorough": {"checks": 300, "shards": 4, "race": True, "timeout": 3000}},
        {"name": "TestRegression_RangeStartingInPreviousMonth", "quick": {}, "thorough": {}},
    ],
}

CHECKS["C01"] = {
    "pkg": "./c01/",
    "level": "fault_enumeration",
    "technique": "stateful property-based testing (rapid state machine) with crash-image fault injection at every intercepted file-system operation, reference-model oracle; harness-owned interleavings at the manifest seam and the tableCreate seam (writers, obsolete-file passes, cache cleanup, parked compaction job)",
    "rule": ("rapid state machine over one kv store (1-3 families, union merger): createFamily / flush(Add|StreamWriter, sequences, empty) / openWriter + commitWriter (up to 4 unfinished writers of the store at a time, committed in any order, all committed before a close) / compact / deleteObsolete+cache cleanup / storeCompact (one tick of the periodic store housekeeping Store.compact; at most one family's compaction is left to the production background goroutine and waited for) / reopen. Harness-owned interleavings: (a) at a generated manifestWrite|manifestSync (before|after) seam of a flusher commit (flush, commitWriter; 1 in 3) other jobs of the store run, drawn from a menu: a helper goroutine opens 0-3 further writers (on the unchanged tree they wait for the version-set mutex); obsolete-file passes of the committing or another family and reader-cache cleanups run on the spot (they need no version-set lock), before or after the helper's time; a production level-0 compaction job of a family, started right before the commit on its own goroutine and parked at its trailing listDir (resumed at the commit's seam or after the commit) or at the tableCreate of its first output (resumed after the commit), one goroutine running at a time; after every operation every table referenced by the current version of a family must be a file of the family directory; (b) an obsolete-file pass of the family at a writer's tableCreate seam. At the tableCreate seam no table may be created under a file number held by a referenced table of any family or by an unfinished writer. A directory image is taken before and after every intercepted FS operation (table create/write/close, "
             "manifest create/write/sync/close, CURRENT tmp write + rename, OPTIONS write, mkdir, remove, listDir) of every operation; each recovered image "
             "must equal the model before or after the single operation in flight, then takes new flushes+compaction with fresh file numbers. Quick tier: an image is copied at every 3rd FS point (generated phase per operation), 10 per crash action recovered. "
             "non-trivial = image inside an operation (any intercepted FS op other than the leading listDir); distinct = (history, image tag) hash"),
    "level_text": ("Fault enumeration over generated histories: in the thorough tier every intercepted crash point of every generated history is recovered through the "
                   "production open path (quick tier: a generated sample of 10 per crash action) and compared with an independent model; this matches the property's "
                   "quantifier (every history x every point between two FS operations) up to the sampled set of histories."),
    "level_note": ("Process-crash model: an image is a copy of the directory at the hook (user-space buffers lost, kernel state kept). FS operations inside ltoml.EncodeToml and the file lock "
                   "are not split further. Power-loss reordering is out of scope. Torn (short) writes are not generated in this check. Windows are only opened inside flusher commits (flush, commitWriter), not inside compaction commits: a compaction runs its trailing obsolete-file pass after the commit, and letting the helper run next to it would make images depend on scheduling. A compaction that starts inside the window (rather than before the commit) is not generated: it would block on vs.mutex and its images would depend on scheduling."),
    "assumptions": ["crash = process death, not power loss", "tmpfs scratch directory", "rollup bookkeeping crash points are covered by C04's machinery, not here", "a compaction job may run next to any flusher commit of the same store (Family.compact / JobScheduler goroutines)", "reader cache TTL is 1h in C01, so the cache cleanup in the window evicts nothing; eviction is C02's subject", "several unfinished flushers per store and family are legal (Family.NewFlusher has no exclusivity; flush, compaction outputs and rollup outputs coexist in production)", "the helper goroutine of a window gets 30 ms at the seam; on the unchanged tree it blocks on the version-set mutex, so the run does not depend on the timer (on a changed allocator detection may be labelled flaky by rapid)"],
    "tests": [
        {"name": "TestCrashRecovery", "quick": 40, "thorough": {"checks": 150, "shards": 16}},
    ],
}

CHECKS["C02"] = {
    "pkg": "./c02/",
    "level": "exploration",
    "technique": "stateful property-based testing (rapid) with harness-owned interleavings at operation and seam granularity, reference-model oracle + deletion/unmap monitors; goroutine stress variant with a prefix-order oracle",
    "rule": ("rapid state machine: writer flushes, an unfinished writer (pending output), synchronous level-0 compactions, obsolete-file passes, reader-cache cleanups (TTL 1ns), reopen, and readers that "
             "take/read(Load | FindReaders+Get | scan of all files)/close snapshots - also re-entrantly at the listDir/removeDir seams inside deleteObsoleteFiles and at the open/mmap seams of a reader-cache miss (a second first reader of the file being opened, reads/closes of other snapshots, TTL + cache cleanup) whenever the implementation does not hold the cache lock there; reader profiles: mixed | point readers only (no Load); 2/3/5 open snapshots; invariant reader full | point reads | none; readers finish one by one with a cache cleanup after each. Oracle: held snapshot == model content at "
             "acquisition at every later read; monitors on removeDir/unmap (mapping identity). TestConcurrentStress second phase: N readers released together on a freshly flushed (cold) file, optional concurrent cache cleanup, partial close, TTL, cleanup; held readers must keep their mapping and value. non-trivial history = some snapshot was read and held across >= 1 compaction commit and >= 1 obsolete-file pass or cache cleanup; "
             "TestConcurrentStress round non-trivial = some snapshot was held across a commit; distinct = history hash"),
    "level_text": ("Exploration of generated interleavings on one goroutine (operation granularity + the seams inside the obsolete-file pass), plus an unsystematic real-goroutine stress run "
                   "(with -race in the thorough tier) whose oracle (snapshot = prefix 1..m of the commit order, lo<=m<=hi, stable on re-read) cannot raise false alarms."),
    "level_note": "Pre-emption at arbitrary instructions is only reached by the stress variant; rollup bookkeeping (live rollup files) is exercised in C04. On the unchanged tree the open seam lies under the cache mutex (counted as cold-open-seam-serialised-by-cache-lock), so reader-vs-reader overlap inside GetReader is only exercised by the goroutine phase (seeded C02e: 10/10 runs detected, 0/20 on HEAD). The order in which lindb opens files of one level is a map iteration, so on trees with the seam outside the lock a rapid replay may diverge ('flaky test', still a failure). Observation: Snapshot.Load never records or releases the readers it retains, so every table file touched by Load is never evicted by the TTL cleanup until the file is deleted (also masks under-counted references; hence the point-reader profile).",
    "assumptions": ["cache TTL compared in milliseconds: the harness sleeps 2 ms before a cleanup so that eviction is possible", "store close only with no snapshot held (as in production shutdown)", "a version.Snapshot is used by one goroutine (nested readers never use the snapshot whose call is on the stack)"],
    "tests": [
        {"name": "TestSnapshotStability", "quick": 400, "thorough": {"checks": 1500, "shards": 12}},
        {"name": "TestConcurrentStress", "quick": {}, "thorough": {"race": True, "timeout": 3000}},
    ],
}

CHECKS["C18"] = {
    "pkg": "./c18/",
    "level": "exploration",
    "technique": ("property-based testing (rapid): placement invariants on ShardAssignment/ModifyShardAssignment + exhaustive walk over nodes 1..12 x shards 1..64 x rf x start; "
                  "model-based stateful test of the production master StateManager over an in-memory state.Repository with harness-owned event delivery"),
    "rule": ("TestAssignPure/TestAssignExhaustive case non-trivial = replica factor >= 2 with >= 2 shards, or at least one grow step; "
             "TestAssignRejects = every case (an invalid input); TestMasterHistory history non-trivial = a delivered node failure removed the leader of a shard "
             "that had another live replica (leader re-elected), or a delivered node start revived an offline shard; "
             "distinct = hash of (node list, shards, rf, start[, grow steps]) resp. of the complete operation/delivery log"),
    "level_text": ("Generated-input exploration. Placement: every (nodes<=12, shards<=64, rf<=nodes, fixed start) combination is walked once (41 600) with a grow step, "
                   "plus random node-id lists/orders, the production random start (-1) and repeated grows over changed node sets. Leadership: thousands of "
                   "event histories (<=45 operations, 1-7 nodes, 3 databases) through the real processEvent; after every event the in-memory state and the published "
                   "/storage/state are compared with a model built only from the delivered events: live nodes, online <=> some replica alive, leader is a live replica, "
                   "offline => OfflineShard/NoLeader; what the master stores on create/grow is checked against the nodes registered at that moment."),
    "level_note": ("Trusted: the in-memory repository's etcd semantics (key-ordered List, one watch event per Put, per-watcher FIFO); events are fed synchronously through the "
                   "verif seam VerifProcessEvent instead of the channel goroutine; the global math/rand source is pinned from a rapid draw. Not explored: the List->Watch "
                   "gap of discovery, repository errors/timeouts, concurrent GetStorageState readers."),
    "assumptions": ["storage node ids are positive and unique (myid)", "database configs have numOfShard>=1 and replicaFactor>=1 (broker validation)",
                    "each watcher delivers its events in revision order; order between watchers is arbitrary",
                    "liveness is judged against the node events delivered to the master; equality with the repository is required only after quiescence"],
    "tests": [
        {"name": "TestAssignPure", "quick": 5000, "thorough": {"checks": 100000, "shards": 4}},
        {"name": "TestAssignExhaustive", "quick": {}, "thorough": {}},
        {"name": "TestAssignRejects", "quick": 2000, "thorough": {"checks": 20000, "shards": 1}},
        {"name": "TestMasterHistory", "quick": 3000, "thorough": {"checks": 40000, "shards": 16}},
    ],
}

CHECKS["C05"] = {
    "pkg": "./c05/",
    "level": "fault_enumeration",
    "technique": "stateful property-based testing (rapid) over the real mmap queue with self-describing messages, crash images between the individual stores of an append, overlapping appenders at the reserve/publish seam, plus a goroutine stress variant",
    "rule": ("rapid state machine on queue.NewQueue: put (0 B..3 MiB incl. empty, 1-7 B, exact fit of the data page), putTooBig (>128 MiB refused, no sequence consumed), overlappingPut (appender B runs complete Puts while A sits "
             "between reserving space and publishing its sequence), crashPut (directory image before/after each WriteBytes/PutUint64/PutUint32 of the append, each image reopened with NewQueue, scanned and appended to incl. a 0/5-byte message), "
             "reopen (also at an index-page boundary), ack (partial / everything), gc, gcInterleaved (a generated script of appends sized relative to the room left in the data page - fit / exact fit / roll-over -, acks and reads runs while GC sits at "
             "one of its three lock-free page-store calls: index GetPage, data TruncatePages, index TruncatePages), faultyPut (an append under page-store faults: the next 1-3 creations of a data/index page file by AcquirePage fail - open/EMFILE without residue, truncate/ENOSPC leaving an empty file, mmap/ENOMEM leaving a zero file - and the next 0-2 page Syncs fail; armed on the append that rolls over the data page or that is the first of an index page; then 1-4 steps with the remaining faults armed: writer retries / sends next, another writer appends, read, reopen, ack+gc; finally the faults end and the retry must succeed), reopenFaulty (construction of the data/index/meta page factory fails once, next open succeeds); a Put may fail only when a fault was injected and a failed Put moves no sequence; page-boundary profile (1/2 of the histories): a fill message brings the cursor to 0..1 MiB before the page end (<= 3 per history). "
             "After every step every sequence in (ack, appended] must return exactly the message appended under it (a non-overlapped append gets appended+1; overlapped ones are matched once), the seq->message mapping never changes, "
             "appended == successful appends - 1. TestRollOver: 30-70 MiB messages crossing the 128 MiB data page (big appends run under the same faults with p=1/2 when they roll over). TestConcurrentAppenders: 2-6 goroutines. non-trivial = history with a recovered crash image, or an overlapping append followed "
             "by a reopen, or a GC interleaved with appends, or a history with an append failed by an injected fault; each recovered crash point counts as one case; distinct = (history, image tag) hash"),
    "level_text": ("Fault enumeration at store granularity (every store of an append in the thorough tier, a generated sample of 4 per append in the quick tier) over generated histories, "
                   "plus exploration of appender overlap at the one seam the implementation has and an unsystematic goroutine variant with an interleaving-independent oracle."),
    "level_note": "Process-crash model for MAP_SHARED pages (stores survive in program order). Overlap is driven through a goroutine with a 3 ms rendezvous window, so the schedule of that action is best-effort deterministic; the oracle does not depend on it. GC interleavings are harness-owned and deterministic (the script runs to completion at the seam; 10 s fallback if the implementation blocks there). In histories holding >= one data page, crashPut is limited to once with 3 images, also in the thorough tier.",
    "assumptions": ["page-store faults are those page.Factory / MappedPage can return (AcquirePage of a page not yet held, Sync, factory construction); a held page is never failed, GetPage and mapped stores have no failure; faults are injected in the harness wrapper above the production page factory", "data page size is the 128 MiB constant", "crash = process death"],
    "tests": [
        {"name": "TestQueueHistory", "quick": 60, "thorough": {"checks": 400, "shards": 12}},
        {"name": "TestRollOver", "quick": 6, "thorough": {"checks": 10, "shards": 2}},
        {"name": "TestConcurrentAppenders", "quick": {}, "thorough": {"race": True}},
    ],
}

CHECKS["C14"] = {
    "pkg": "./c14/",
    "level": "exploration",
    "technique": ("property-based testing (rapid) of every codec against independent reference models, state-machine reuse histories over pooled/held encoder and decoder objects, "
                  "an independent reference implementation of the documented XOR format in both directions, native fuzz targets for the byte-level entry points; owner histories: several pooled decoders / stream readers / pooled encoders / stream writers alive at once with cursors surviving between steps, interleaved at slot granularity; pool-ownership invariant"),
    "rule": ("rapid-generated cases per codec, every case compared bit for bit with a reference model (bit string / slot->value map / sorted set / plain slices). "
             "non-trivial = length >= 2 and (the value sequence forces a XOR window change, or the slot mask is sparse, or the packed/offset width is >= 3 bytes (>= 17 bits for delta), or the "
             "encoder/decoder object had been used before (pool, held object, Reset), or - bitmap - a non-array or >= 2 containers, or - snappy - >= 2 rows / > 64 KiB / reused writer); "
             "TestTSDReuseHistory = a stored block of >= 2 slots written by a reused encoder or read by a reused decoder; it additionally keeps up to 4 owners alive across ~60 steps: pooled decoders bound or rebound to stored blocks, TSDStreamReaders over stored 0-4 field streams (HasNext asked at any time and repeatedly after the end, Next may skip a half-read field, Close drained / at the last field / early / unread), pooled encoders filled a few slots per step, up to two TSDStreamWriters open side by side; owners are advanced in turns, 1-6 slots or to the end of the block, field or stream; at the end all live owners finish one slot per turn; also non-trivial when two owners read or wrote in turns while both were mid-block. TestTSDStream: after one complete reader life cycle, 0-3 readers of the same bytes open together, read field by field one slot each in turns. distinct = hash of the canonical rendering of values/masks/offsets/op history"),
    "level_text": ("Generated-input exploration: per run ~0.5 M codec cases (all IEEE-754 classes incl. NaN payloads, +-0, subnormals, +-Inf; empty/dense/sparse slot masks with start offsets, whole-family blocks "
                   "of up to 3600 slots; offsets up to 2^32-1 with real GetBlock slices for every width 1..4; array/bitmap/run roaring containers; snappy chunks across the 64 KiB block boundary) and reuse "
                   "histories of ~30 steps each. Every read path production code uses on a block is run on every generated block and compared with the same model. The codecs are pure functions of input plus "
                   "object state, so sampling inputs and histories is the appropriate level."),
    "level_note": ("Trusted: math.Float64bits/frombits bit-preserving on amd64. Bitmap and snappy are thin wrappers over lindb/roaring and klauspost/compress: checked through lindb's wrapper API only. "
                   "DeltaBitPacking, TSDStreamWriter/Reader, TSDDecoder.Seek have no production caller on this tree: checked against their documented contract only (Seek / out-of-order GetValue with a weak oracle). Pool ownership (no object handed to a second owner while the first still holds it) is asserted by pointer identity at the end of a case; wrong decoded values are reported first."),
    "assumptions": [
        "slot blocks end at or below slot 65534 (a family holds at most 3600 slots)",
        "callers copy Bytes() before touching the encoder again and consume Uncompress() output before the next call (all production callers do)",
        "offsets in [0, 2^32-1]; 64-bit int",
        "every Get is matched by at most one Release/Close by the harness; HasNext() has no side effect a caller may rely on or suffer from",
        "sync.Pool pinned: GOMAXPROCS(1) in TestTSDReuseHistory/TestTSDStream, GC disabled inside a case, decoder pool emptied at case start (the verdict of a case depends on its own history only)",
        "only well-formed encoder output is decoded for the round-trip claims; corrupted input is only checked for 'rejected or harmless' in the fuzz targets",
    ],
    "tests": [
        {"name": "TestBitStream", "quick": 50000, "thorough": {"checks": 500000, "shards": 4}},
        {"name": "TestStreamRoundTrip", "quick": 50000, "thorough": {"checks": 500000, "shards": 2}},
        {"name": "TestStreamTailUvarint", "quick": 20000, "thorough": {"checks": 200000, "shards": 1}},
        {"name": "TestXORRoundTrip", "quick": 50000, "thorough": {"checks": 500000, "shards": 4}},
        {"name": "TestXORDecoderDocumentedFormat", "quick": 50000, "thorough": {"checks": 500000, "shards": 2}},
        {"name": "TestTSDBlock", "quick": 100000, "thorough": {"checks": 1000000, "shards": 8}},
        {"name": "TestTSDReuseHistory", "quick": 20000, "thorough": {"checks": 200000, "shards": 16}},
        {"name": "TestTSDStream", "quick": 30000, "thorough": {"checks": 300000, "shards": 2}},
        {"name": "TestDeltaBitPacking", "quick": 50000, "thorough": {"checks": 500000, "shards": 4}},
        {"name": "TestZigZag", "quick": 5000, "thorough": {"checks": 50000, "shards": 1}},
        {"name": "TestFixedOffset", "quick": 50000, "thorough": {"checks": 500000, "shards": 4}},
        {"name": "TestFixedOffsetUnsorted", "quick": 5000, "thorough": {"checks": 50000, "shards": 1}},
        {"name": "TestBitmapCodec", "quick": 10000, "thorough": {"checks": 100000, "shards": 8}},
        {"name": "TestSnappyChunk", "quick": 5000, "thorough": {"checks": 10000, "shards": 4}},
    ],
    "fuzz": [
        {"name": "FuzzTSDBlock", "seconds": 60},
        {"name": "FuzzBitStream", "seconds": 60},
        {"name": "FuzzFixedOffsetUnmarshal", "seconds": 60},
        {"name": "FuzzSnappyUncompress", "seconds": 60},
    ],
}

CHECKS["C17"] = {
    "pkg": "./c17/",
    "level": "exploration",
    "technique": ("property-based testing (rapid): grammar-based text generation -> sql.Parse twice (determinism) -> production MarshalJSON/UnmarshalJSON round trip "
                  "(also after the production planner step calcTimeRangeAndInterval) with structural equality, Rewrite() agreement and byte-identical re-marshal; "
                  "direct expression-tree/statement generation -> stmt.Marshal/Unmarshal; native go fuzzing of sql.Parse with the same oracle; barrier-released goroutine sessions over the pooled lexer/parser with a sequential reference"),
    "rule": ("TestParsedQuerySurvivesWire: SQL text derived from the query rules of sql/grammar/SQL.g4 (derivation depth <= 5); non-trivial = "
             "expression depth of the parsed statement >= 3 and >= 3 clause kinds present out of {alias, tag condition, explicit time range, "
             "group-by time interval, group-by tags, having, order by, limit, explain, namespace}; distinct = hash of the text. "
             "TestParsedMetadataSurvivesWire: show namespaces|metrics|fields|tag keys|tag values text; non-trivial = condition depth >= 3 and >= 3 of "
             "{condition, limit, namespace, prefix, tag key}. TestExprTreeRoundTrip: directly built stmt.Expr trees (every node kind, function type, "
             "operator, any nesting the Go types allow); non-trivial = depth >= 3 and >= 3 node kinds; distinct = hash of the JSON. "
             "TestPlannedStatementRoundTrip: directly built stmt.Query (all broker-side fields) / stmt.MetricMetadata; non-trivial = depth >= 3 and >= 3 fields set. "
             "Size class: 2 % of the generated texts (3 % of the directly built trees/statements) have ONE wide clause with 12..100 terms (ladder dense around 32/64) on one or two levels: where clause of N tag filters joined by and/or incl. parenthesised groups, in-list of N values, f0+f1*...fN in one select item, call with N params, having of N/2 comparisons, select/group by/order by lists of N entries; built trees: right-deep chain as prometheus makeCondition builds it, left-deep chain, balanced tree, call with N params, in with N values, N nested wrappers; classes wide=*, exprNodes=*, fanout=*. "
             "TestConcurrentSessionsParseAlike: case = (3-8 generated texts, 0-3 statements the grammar accepts and the validation refuses [order by not selected, start after end, limit beyond int32, bad timestamp, duration overflow, missing operand, number beyond float64, empty select], 0-3 syntax-error mutants; 2-8 sessions = sequences of 4-40 indices into the text set, goroutines released by one barrier); every result must be the verdict of the same text parsed alone beforehand; non-trivial = >= 3 sessions, >= 2 accepted texts shared by >= 2 sessions, >= 1 validation-rejected text parsed in a session, >= 2 Parse calls observed in flight; distinct = hash of texts + schedules."),
    "level_text": ("Generated-input exploration: tens of thousands of grammar-derived statements per run (the acceptance rate of the generated texts is recorded in evidence notes), "
                   "every node kind / function / operator of the statement model in arbitrary nesting, plus coverage-guided fuzzing of the parser in the thorough tier. "
                   "The code under test is pure, so sampling + fuzzing is the right level."),
    "level_note": ("Trusted: json-iterator; Go reflect for deep equality. Equality: nil and empty slices are identified (JSON cannot keep the difference and no consumer "
                   "distinguishes them); number literals are compared by float64 bit pattern; TimeRange bounds that read the wall clock are excluded from the determinism "
                   "comparison only (never from the wire comparison). TestConcurrentSessionsParseAlike: interleaving not controlled (sampled); the oracle holds for every interleaving; measured detection of seeded C17e 20/20 seeds within 6 cases (GOMAXPROCS >= 2), 7/20 at GOMAXPROCS = 1; a failing case may be reported as flaky by rapid."),
    "assumptions": ["TZ=UTC (time strings are parsed in time.Local)",
                    "direct trees: no nil children, valid UTF-8 strings, finite numbers, Interval/StorageInterval whole seconds (what producers in /repo can build)",
                    "wall clock later than 2022 and not jumping backwards by > 1h during a case (only affects the acceptance rate, not the oracle)",
                    "fuzz inputs > 4 KiB are skipped", "TestConcurrentSessionsParseAlike needs GOMAXPROCS >= 2 for a useful detection rate", "wide clauses <= 100 terms (stmt.Unmarshal is O(n^2) in chain length)"],
    "tests": [
        {"name": "TestParsedQuerySurvivesWire", "quick": 20000, "thorough": {"checks": 30000, "shards": 16}},
        {"name": "TestParsedMetadataSurvivesWire", "quick": 5000, "thorough": {"checks": 50000, "shards": 2}},
        {"name": "TestExprTreeRoundTrip", "quick": 20000, "thorough": {"checks": 200000, "shards": 4}},
        {"name": "TestPlannedStatementRoundTrip", "quick": 10000, "thorough": {"checks": 100000, "shards": 4}},
        {"name": "TestConcurrentSessionsParseAlike", "quick": 150, "thorough": {"checks": 2000, "shards": 4}},
        {"name": "TestRegression_NilOperand", "quick": {}, "thorough": {}},
        {"name": "TestRegression_InfNumberLiteral", "quick": {}, "thorough": {}},
        {"name": "TestRegression_DurationOverflow", "quick": {}, "thorough": {}},
        {"name": "TestRegression_Examples", "quick": {}, "thorough": {}},
    ],
    "fuzz": [{"name": "FuzzParse", "seconds": 120}],
}

CHECKS["C16"] = {
    "pkg": "./c16/",
    "level": "exploration",
    "technique": ("property-based testing (rapid) of the production Parse entry points and batch iterators against a reference model + "
                  "metamorphic relations (tag permutation, format, neighbours), batch histories over the sync.Pool, the production replica.ChannelManager write path with a fake rpc stream factory, native fuzzing of the influx/flat parsers"),
    "rule": ("TestIngestRoute: a case is a history of 1-4 requests (format, namespace, enriched tags, limits, 1-200 metrics) against one "
             "database config (behind/ahead, intervals, 1-64 shards); non-trivial = >= 2 routed requests (pooled batch reused) and some "
             "request hits >= 2 shards and >= 2 families and has >= 1 evicted row; a protobuf request may come WITHOUT request-level namespace (~30% of proto requests; then every metric keeps its own namespace, incl. none); multi-tenant requests (20%, 70% when there is no request namespace): every metric carries its own namespace from a per-request pool of 2-4 (\"\", default-ns, request-namespace values, a '|' name, prefix pairs) and 80% of the names come from a per-request pool of 1-3 names, so rows of the same name and different namespaces follow each other; NameHash = xxhash(sanitised stored namespace + name) for every row irrespective of its neighbours. TestFormatsAgree (the proto request optionally has no request namespace; neighbours share the target's name with other namespaces; content incl. NameHash is compared between formats whenever the model says both store the same namespace): non-trivial = metric accepted, >= 2 "
             "tags, compared in >= 2 formats. distinct = hash of config + every metric (timestamps as offsets from the case's now). "
             "TestChannelWrite: a case is one production ChannelManager (created through the shard-state callback) with 1-2 databases, each with its own write window (symmetric / behind>ahead / behind<ahead / one or both sides unlimited, 30m..7d), intervals and 1-64 shards, and a history of 1-4 requests (any format) to a drawn database; timestamps are drawn relative to BOTH spans incl. rows between the two spans; chunk block size default or 1/300/2048 B. non-trivial = a routed request to an asymmetric-window database with >= 1 row whose verdict would flip if the sides were exchanged, and >= 1 kept and >= 1 dropped row; distinct = hash of block size + database configs + every request"),
    "level_text": ("Generated-input exploration through the functions the HTTP handler and databaseChannel.Write call: every accepted row is "
                   "compared field-by-field with an independent model (last-wins dedup, xxhash of sorted tags, sanitising, limits), the "
                   "(shard,family,rows) triples are checked to be an exact partition with shard = jump hash < count and family containing the "
                   "timestamp, dropped <=> outside the window, and the written bytes are re-read through StorageBatchRows. "
                   "TestChannelWrite goes through ChannelManager.Write -> databaseChannel.Write -> familyChannel -> chunk -> rpc write stream with a fake stream factory: per request the database's out_of_time_range counter must grow by exactly the number of rows outside that database's window and Write must succeed; after stopping every shard channel (families flush and join) the storage side must have received exactly the in-window rows, each on the stream of shard = jump hash and of the family containing its timestamp."),
    "level_note": ("Trusted: xxhash library, timeutil calculators (C13), Go http/protobuf/flatbuffers. Clock: one now per case, timestamps >= 10 min "
                   "from the thresholds. GC is disabled inside a case and the batch pool emptied first, so pool reuse is deterministic. "
                   "Out of scope by the statement: whether every well-formed influx line is accepted (a line without tags and >= 2 fields is refused by lindb; not generated). TestChannelWrite drains with ShardChannel.Stop (as databaseChannel.Stop does) instead of ChannelManager.Close, because Close cancels the context first and the stream's recv loop may then refuse the last chunk (shutdown loss, outside C16; observation). One live node, every shard has a channel; shard-count changes and leader changes are not generated. For a proto request without request namespace a metric's own namespace longer than MaxNamespaceLength is not generated (no check exists on that path; acceptance not claimed). A row stored without namespace reads as default-ns on the storage side (readOnlyRow.NameSpace) while its NameHash is xxhash(name) (observation: only reachable by callers that bypass the handler)."),
    "assumptions": ["request namespace within limits and non-empty (the handler guarantees this), except protobuf requests parsed without request-level namespace (proto.Parse / NewBrokerRowProtoConverter called with \"\": not producible by the HTTP handler, which always substitutes default-ns; behaviour documented by the converter's `len(rc.namespace) > 0` branch); enriched tags non-empty/within limits/unique keys",
                    "timestamps never 0 and >= 10 min away from the window thresholds", "one goroutine (no concurrent requests)",
                    "flat rows < 10 KiB; -0.0 not generated (not representable on either wire)", "database channels are created once per database (options do not change during a case)"],
    "tests": [
        {"name": "TestIngestRoute", "quick": 2000, "thorough": {"checks": 10000, "shards": 16}},
        {"name": "TestFormatsAgree", "quick": 2000, "thorough": {"checks": 20000, "shards": 8}},
        {"name": "TestChannelWrite", "quick": 2000, "thorough": {"checks": 10000, "shards": 8}},
        {"name": "TestRegression_StaleOutOfRangeFlag", "quick": {}, "thorough": {}},
        {"name": "TestRegression_FlatRequestNamespaceIgnored", "quick": {}, "thorough": {}},
        {"name": "TestRegression_ProtoDedupUnstableSort", "quick": {}, "thorough": {}},
        {"name": "TestRegression_BuilderDedupUnstableSort", "quick": {}, "thorough": {}},
        {"name": "TestRegression_ProtoCompoundNaNAccepted", "quick": {}, "thorough": {}},
        {"name": "TestRegression_InfluxBareIntegerSuffixPanics", "quick": {}, "thorough": {}},
        {"name": "TestRegression_StopFamilyChannelWhileWriting", "quick": {}, "thorough": {}},
        {"name": "FuzzInfluxParse", "quick": {}, "thorough": {}},
        {"name": "FuzzFlatParse", "quick": {}, "thorough": {}},
    ],
    "fuzz": [{"name": "FuzzInfluxParse", "seconds": 120}, {"name": "FuzzFlatParse", "seconds": 120}],
}

CHECKS["C15"] = {
    "pkg": "./c15/",
    "level": "exploration",
    "technique": "property-based testing (rapid) of kv/table builder+mmap reader, table.NewMergedIterator and kv family snapshots against a sorted-map / multiset model; native go fuzzing of the table reader (valid tables must round-trip; damaged files informational)",
    "rule": ("rapid-generated key sets over uint32 (dense runs, strided, sparse, clustered chunks, +-2 around 65536*k, 0/MaxUint32, >4096-key bitmap containers, "
             "long holed runs crossing chunk boundaries), values 0 B..1 MiB (thorough: some 4 MiB), written by Add / StreamWriter (shared or fresh, 0-3 split writes) / mixed, "
             "with injected duplicate / last-1 / earlier / 0 / smaller keys; 30% of table cases resize one value so that the largest start offset is exactly "
             "255/256/257/65535/65536/65537 (thorough also 2^24-1/2^24). TestTableRoundTrip non-trivial = key set spans >= 2 roaring containers or has a run container; "
             "TestMergedIterator = >= 2 input tables sharing a key; TestStoreMultiFile = >= 2 files of the version sharing a key; "
             "distinct = hash of the operation list (key, size, mode, bad flag, value head) [+ table count/order]. TestCorruptReaderInfo is informational (never non-trivial). "
             "TestStoreMultiFile (about 1/3 of its cases) / TestStoreLevels: histories of flushes, level-0 compactions (Family.Compact or periodic guard, CompactThreshold 0-3, MaxFileSize default/1/16..256/1MiB -> split outputs, trivial moves) and reopens on one family with the union merger; flush key ranges placed by band, outside existing level>=1 ranges, or below/above/inside/across the ends of one level>=1 file (compaction of far-apart level-0 files next to an untouched level-1 file -> level-1 files overlapping in range); every version: per-file scan, min/max of every file, all added (key, value) exactly once, Load and FindReaders+Get == values held by the version's files for stored and absent keys, lookups with >=2 candidate files repeated 24x (file order inside a level is map order). non-trivial (levels) = a stored key with >=2 candidate files, one above level 0."),
    "level_text": ("Generated-input exploration: thousands of generated tables per run are written through the production builder (Add, StreamWriter, mixed) and read back through the "
                   "production mmap reader (Get on every key, absent-key probes around every key and chunk boundary, full iteration, builder Count/MinKey/MaxKey/Size, StreamWriter Size/CRC32); "
                   "1-8 real tables are merged and compared as a key-ordered multiset; 1-8 flushes into one kv family are read through Snapshot.Load, FindReaders+Get, per-file readers, "
                   "FileMeta min/max and the compaction-input merged iterator, optionally after closing and reopening the store."),
    "level_note": ("Trusted: tmpfs scratch files, the lindb/roaring fork only as a labelling aid (not as oracle). Corrupt or foreign table files are outside the property: the fuzz target and "
                   "TestCorruptReaderInfo only record what the reader does with them. Files at level >= 1 are produced by the production level-0 compaction with the kvsim union merger; rollup outputs are not covered (C04). Detection of an order-dependent lookup defect is probabilistic per lookup (hence 24 repetitions); the unchanged tree is deterministic."),
    "assumptions": ["keys are written in ascending order per file apart from the injected ones; Prepare/Write/Commit used in the documented order",
                    "every flush carries at least one value byte (storeFlusher.Commit abandons a builder whose Size() is 0; no production flusher writes only empty values)",
                    "total value bytes per table < 4 GiB (uint32 positions in the footer)",
                    "level-0-only cases: no compaction (CompactThreshold 1<<20); levels cases: compaction only when the history asks for it, run synchronously; store options = kv.DefaultStoreOption (2 levels); values of levels cases are non-empty atom sets, each atom written once"],
    "tests": [
        {"name": "TestTableRoundTrip", "quick": 3000, "thorough": {"checks": 3000, "shards": 8}},
        {"name": "TestMergedIterator", "quick": 2000, "thorough": {"checks": 3000, "shards": 4}},
        {"name": "TestStoreMultiFile", "quick": 2200, "thorough": {"checks": 3000, "shards": 4}},
        {"name": "TestStoreLevels", "quick": 800, "thorough": {"checks": 4000, "shards": 4}},
        {"name": "TestCorruptReaderInfo", "quick": 300, "thorough": {"checks": 3000, "shards": 1}},
    ],
    "fuzz": [{"name": "FuzzTableReader", "seconds": 120}],
}

CHECKS["C19"] = {
    "pkg": "./c19/",
    "level": "exploration",
    "technique": ("property-based testing (rapid) of the production pipeline + baseStage on a real concurrent.Pool with harness-owned completion order "
                  "(gated plan-node operators; the completion of a released stage is observed at the handlers the pipeline passes to Stage.Execute, through a wrapper stage), reference model for the started set; wave/stress variants with real concurrent completions (-race in the thorough tier)"),
    "rule": ("rapid-generated stage trees (depth 1-4, fan-out 0-4, <= 40 stages; shapes: free sync/async mix, production leaf shape (sync root, async below), all sync, all async, burst), "
             "outcome per stage ok / ErrNotFound ignored by the plan node / error / ErrNotFound not ignored / panic (string, error, runtime error, other value); fault point of a panicking stage generated: operator (Execute) | Plan() (inline in the goroutine that completed the parent, also for async stages, i.e. on a pool worker of an async ancestor) | NextStages() (after the operator succeeded; no child started) | Complete() (inside completeStage, of a succeeded or failed stage; only as the first panic of a case); plan node single | composite | nil; Identifier() of a stage generated with deliberate collisions: unique | all/some children of a parent share one identifier (production: one 'Grouping[Shard(n)]' stage per series container, 'TaskSend') | one identifier per (level, sync/async) (production: 'Data Load[family time]' cousins below same-named parents) | per-level alphabet 1-2 | per-tree alphabet 1-3 (parent/child, ancestor, unrelated stages collide); in 1 of 10 serial cases Complete() of about half of the async stages is slow: it returns only after a stage released meanwhile has been handled completely or after 2 ms (one hold at a time); "
             "async stages park on a gate inside their operator, gates are released in a generated permutation, the next only after the handler the pipeline passed to Execute for the released stage has returned (including the error handler the pool calls after a panic on the worker) and every newly "
             "submitted stage reached its gate; after the last release the pool is stopped (joins all workers) and the callback counter is final. Oracle: callback exactly once; err != nil iff an executed "
             "stage failed or a stage panicked at any fault point; no stage twice, none below a failed stage; without panics started set == model and callback only after every started stage finished (operator ended and the pipeline's handler for it was called; nothing started afterwards). Counted, never a failure by itself: Stage.Complete() of a stage called twice / while its operator runs (classes observed:*). "
             "non-trivial = an executed failing/panicking stage that is not the last to finish, or >= 2 async siblings that both ran; distinct = hash of (tree, modes, outcomes, fault points, plan shapes, identifiers, holds, release order)"),
    "level_text": ("Exploration of generated (tree, outcome, completion-order) cases on the production pipeline/state machine/baseStage/pool code; completion order is owned by the harness in TestPipelineCompletion "
                   "(deterministic, shrinkable); TestPipelineConcurrentWaves and TestConcurrentCompletionStress add real simultaneous completions (unsystematic; oracle holds for every interleaving)."),
    "level_note": ("Trusted: pool.Stop() joins all workers. Not covered: real leaf/root task processors (LeafExecuteContext.SendResponse), context cancellation / stopped pool (Submit drops the task silently), "
                   "saturated pools. Complete() panicking as a second panic inside the pool's panic handler is only covered by three fixed shapes run in a child process (TestRegression_CompletePanicsInsidePoolPanicHandler). Pre/Post operators never fail; nil entries in NextStages are not generated. Simultaneous-completion races are only sampled. Stages of one identifier are generated in flight as siblings/cousins/ancestors/unrelated; Stage.Complete() call discipline and Pipeline.Stats() are observed/counted only, not asserted (the statement speaks about the completion signal). 'Handler returned' at the callback is not asserted (the callback fires inside the last handler)."),
    "assumptions": ["one pool worker per async stage (a parked stage never blocks another one from starting)", "context never cancelled, pool never stopped during a case", "a held Complete() is bounded by 2 ms of wall clock (liveness bound only; the unchanged pipeline calls Complete() under its lock, so every hold lasts that long)",
                    "sync stages below async stages are generated although today's production trees do not contain them (the property quantifies over every sync/async mix)"],
    "tests": [
        {"name": "TestPipelineCompletion", "quick": 20000, "thorough": {"checks": 200000, "shards": 8}},
        {"name": "TestPipelineConcurrentWaves", "quick": 10000, "thorough": {"checks": 40000, "shards": 4, "race": True}},
        {"name": "TestConcurrentCompletionStress", "quick": 300, "thorough": {"checks": 2000, "shards": 4, "race": True, "timeout": 3000}},
        {"name": "TestRegression.*", "quick": {}, "thorough": {}},
    ],
}

CHECKS["C06"] = {
    "pkg": "./c06/",
    "level": "exploration",
    "technique": ("stateful property-based testing (rapid state machine, ~60 operations per history) of queue.FanOutQueue / ConsumerGroup against an independent "
                  "reference model + invariants after every step; deterministic two-operation interleavings at the page stores of the first operation (linearizability oracle + reopen); real-goroutine consume-vs-ack stress variant (under -race in the thorough tier) with interleaving-independent oracle"),
    "rule": ("rapid state machine over queue.NewFanOutQueue with 1-4 consumer groups (names = node ids): append (self-describing messages 8 B..70 KB), consume (also the blocked "
             "consumer that is woken by the next append), ack inside / below / above [ack, consumed] and above appended, catch-up of one/all groups with different tails, "
             "SetConsumedSeq in [ack, appended], Sync, GC, Sync+GC (partition.IsExpire), create group / re-create stopped group, StopConsumerGroup of an empty group, Pause, "
             "reopen (Close + NewFanOutQueue), forward SetAppendedSeq (also to just below an index-page boundary, so that index-page hand-over and page removal happen with small messages); pair = two operations of different roles on one group (consumer: Consume/SetConsumedSeq; acker: Ack in/above/below window; ticker: Sync+GC; appender: Put), the second started on its own goroutine inside meta-page store 0..2 of the first (harness-owned interleaving through the page-factory seam; it waits until the nested operation completed or is parked), only pairs whose two sequential orders both keep ack <= consumed <= appended; the result must equal one of the two sequential orders (positions, queue ack, appended, sequence handed out); a third of the pairs is followed by a reopen at once, and every reopen compares every persisted group position with the model. "
             "After every step: positions == model; per group ack <= consumed <= appended; queue ack forward only (outside a reset), <= appended, <= every ack the existing groups showed before "
             "the step in which it moved; every sequence in (queue ack, appended] readable byte for byte; Get beyond appended fails; Pending/IsEmpty/ConsumerGroupNames consistent. "
             "history non-trivial = (>= 2 groups with different acks at a GC that removed >= 1 page file) or (a reopen with some position != -1); TestGroupHistoryRollOver additionally needs a data-page roll-over "
             "or a 262144-message index roll-over; TestQueueAckBarrier = some SetAcknowledgedSeq accepted and some refused; distinct = hash of the operation log"),
    "level_text": ("Generated-history exploration on one goroutine with a model oracle (thousands of histories per run; thorough tier adds 35-70 MiB messages for real data-page roll-over and a bulk append across "
                   "a real index-page boundary), plus an unsystematic goroutine run for the 'schedules' half of the quantifier: appender, one consumer + one acker per group, Sync+GC ticker, observer; "
                   "its assertions hold under every interleaving, so it cannot raise false alarms."),
    "level_note": ("Trusted: tmpfs + MAP_SHARED (positions are in the file as soon as they are stored); process-crash recovery of the meta pages is C05/C07 territory. A brand-new group may start at -1/-1 "
                   "(implementation) or at the queue ack (interface comment) - both accepted. Consume that would block forever is not called. Pre-emption at arbitrary instructions only via the stress variant: the interleaving points of a pair are the meta-page stores only (PutUint64/Sync). Goroutine parking is detected from the scheduler state in runtime.Stack; a 2 s wall-clock limit exists for liveness only."),
    "assumptions": ["single appender (overlapping appends belong to C05)",
                    "SetConsumedSeq only with own ack <= seq <= appended (what replicator_local/remote pass)",
                    "FanOutQueue.SetAppendedSeq only forward (follower reset and leader reset are both forward) and only while no stopped group's meta is on disk",
                    "StopConsumerGroup only for a group that IsEmpty (partition.IsExpire)",
                    "one acker goroutine per group (documented usage); ack values >= -1", "at most one consumer-role and one acker-role operation of a group in flight; two concurrent Acks of one group are not generated",
                    "a group further than 3000 sequences behind is not walked in the small-message machine"],
    "tests": [
        {"name": "TestGroupHistory", "quick": 3000, "thorough": {"checks": 12000, "shards": 14}},
        {"name": "TestQueueAckBarrier", "quick": 1000, "thorough": {"checks": 10000, "shards": 1}},
        {"name": "TestGroupHistoryRollOver", "thorough": {"checks": 8, "shards": 2, "timeout": 3000}},
        {"name": "TestConcurrentConsumeAck", "quick": {}, "thorough": {"race": True, "timeout": 3000}},
        {"name": "TestRegression_ReopenAckAboveConsumed", "quick": {}, "thorough": {}},
        {"name": "TestRegression_RecreateStoppedGroupAckAboveConsumed", "quick": {}, "thorough": {}},
        {"name": "TestRegression_Example", "quick": {}, "thorough": {}},
    ],
}

CHECKS["C08"] = {
    "pkg": "./c08/",
    "level": "fault_enumeration",
    "technique": ("stateful property-based testing (rapid) of the production leader Partition + remote replicator against the production follower ReplicaHandler + Partition over real FanOutQueues, "
                  "with a harness-owned in-memory stream/unary transport for generated fault injection; invariant oracle over self-describing messages + bounded-progress check"),
    "rule": ("TestReplicationHistory runs three generators, each with the full budget: plain; extended = plain operations + 'write window of the family passes' (no writes, no probe afterwards), 'expiry check' (leader wal task: IsExpire, an expired partition is stopped/closed/removed; additionally evaluated on 6 copies of the log after a leader restart whenever the followers differ in progress), 'leader restart (log kept)', 'several steps of one channel', 'step whose online notification is delivered by another goroutine as soon as the suspension is observable (+0..100000 spins), follower flapping 0..20 times'; onlineRace = 2..10 offline/online cycles whose notifications race the suspension. Additional assertions: a partition whose window is open is never expired; a log is destroyed / a channel stopped only when that follower has appended every position the leader stores; a step whose follower is live and notified finishes within 10 s; after the window passed every follower the leader still replicates to ends up with everything without writes; non-trivial also = expiry check with followers of different progress, or >= 1 racing notification. Plain generator: rapid state machine with 1..3 remote followers (generated; each operation draws its follower; the single replication loop serves one follower at a time and, while it waits for data or for an offline follower, none): "
             "leader appends (8 B..5 KB self-describing messages), single replication steps (partition.replica through the no-wait verif seam), and faults: next stream send fails, next stream "
             "receive fails after the follower appended (lost ack), follower restart (log kept), follower loses its log, follower offline/online notification (suspended replicator), leader sync+gc, "
             "leader restarts from an earlier image of its log or with an empty log (lost tail / whole log) while the followers hold different amounts, resynchronised in generated order; follower cannot append while the stream stays open: "
             "wal partition closed (shutdown, ends with a restart) or the next 1..3 appends fail. After every step, per follower: its log has no hole, every position holds a message the leader stored at that very position, "
             "positions held by both sides are byte-identical, the leader's acknowledged position for a follower never moves over a position the current leader log stored and that follower never appended. After the history: faults stop, "
             "a probe message is written and every follower must hold every position up to the leader's appended position. non-trivial = a fault was injected while >= 1 message was un-replicated and replication continued afterwards; "
             "distinct = hash of the operation log"),
    "level_text": ("Generated fault sequences (every fault class of the quantifier, freely interleaved with appends and single replication steps) against the real code on both sides; the fault points are the stream operations and "
                   "restarts the harness owns. Exploration of the sequence space is sampled; the set of fault kinds is enumerated."),
    "level_note": ("The follower's local replicator (applying its log to a tsdb family) is not run; engine objects behind the partitions are light fakes. No timing in the harness: replica.VerifReplicaStepNoWait runs IsReady + Connect and calls partition.replica only if something is pending (otherwise reports that the loop would wait for data); "
                   "a replicator suspended for an offline follower is detected through its isSuspend flag. Known findings: C08/leader-lost-tail-appends-before-resync (appends are not generated while a follower whose channel has not yet resynchronised is ahead of the leader's append index), "
                   "C08/append-index-reset-drops-backlog-of-other-followers (a step whose handshake would reset the append index is skipped while another follower lacks held positions or has a ready channel; such a case may end not judged). "
                   "A follower that dies from a write to a closed log (ResetReplicaIndex on a closed partition writes into unmapped pages: observation, outside C08) stays down until restarted. The family's time range is owned by the harness (far future while open, 2023 afterwards), no clock seam. The expiry verdict depends on Go map order (evaluated 7 times) and the notification race on real goroutine scheduling (seeded C08f: about 1 lost wake-up per 800 racing notifications, ~16000 notifications per quick run, 8/8 runs detected), so failures of these kinds may be reported by rapid as not reproducible. A follower that lost its log after acknowledging everything is not required to catch up once nothing is written."),
    "assumptions": ["a follower restart / offline breaks the stream (as a real connection would)", "1..3 followers; steps of different followers never run concurrently (single loop)", "messages >= 8 bytes", "a whole-log loss invalidates earlier leader images", "no writes to a family's log after its write window passed (the broker's family channel expires by the same rule)", "the wal task does not run while a replication step is in flight", "leader log loss is not generated after the window passed, and the window does not pass while a resynchronisation after a leader log loss is pending"],
    "tests": [
        {"name": "TestReplicationHistory", "quick": 600, "thorough": {"checks": 4000, "shards": 16}},
        {"name": "TestKnown_LeaderLostTailDiverges", "quick": {}, "thorough": {}},
        {"name": "TestRegression_.*", "quick": {}, "thorough": {}},
    ],
}

CHECKS["C20"] = {
    "pkg": "./c20/",
    "level": "exploration",
    "technique": ("model-based property testing (rapid) of pkg/trie, index/model.TrieBucket(+Builder) and index/v1 IndexKVFlusher/Reader/Merger against a linear-scan sorted-map model; "
                  "round trip through Write/UnmarshalBinary, a real kv store and a real level-0 compaction with the registered IndexKVMergerV1; native fuzz target with keys decoded from bytes"),
    "rule": ("generated key sets of 1..5000 distinct NON-EMPTY byte strings in 8 styles (alphabets {a,b}, {a,b,c,-}, {00,01,a,FE,FF}, {00,FF}, any byte, fixed 8-byte hashes as the series dictionary stores them, "
             "host/ip/path-like words with shared heads and tails, 3..1000-byte shared prefixes), grown by extension / proper prefix / sibling / shared-suffix steps; values arbitrary uint32 (trie) or distinct sequence ids (bucket); "
             "probes: every present key, proper prefixes incl. the empty key, extensions by 00/FF/alphabet, siblings, +-1 neighbours, fresh keys; like patterns x*, *x, *x*, x, **; 16 regexp shapes from ASCII literals; "
             "block sizes 1..n and 32767; 1..4 dictionaries per bucket; 1..3 rounds of 1..3 flushes + compaction. "
             "case non-trivial = some key is a proper prefix of another key, or the bucket under test consists of >= 2 tries; distinct = hash of the sorted (key,value) pairs (+ block sizes / per-dictionary split)"),
    "level_text": ("Generated-input exploration against an independent reference model (sorted slice, every query answered by a linear scan): Get (present, absent, proper prefixes, extensions, empty probe), Size, Values, "
                   "forward and backward iteration, Seek followed by Next/Prev walks, PrefixIterator, identical for the in-memory trie, the trie loaded from Write(), a pooled trie that held another dictionary and a reused builder; "
                   "TrieBucket GetValue/GetValues/Suggest/FindValuesByLike/FindValuesByRegexp/CollectKVs over buckets split into many tries, after TrieBucket.Write, through IndexKVFlusher->kv family->IndexKVReader, "
                   "through IndexKVMerger.Merge on the raw values, and after a real synchronous level-0 compaction: always the union of the flushed pairs."),
    "level_note": ("Reference semantics for regexp = Go unanchored Match as the in-memory path of index/kv_store.go; like decomposition copied from kv_store.go. The raw Iterator.Seek is only required to stand on the first key >= target or on its "
                   "predecessor (lindb's own TestSeekKeys pins 'always valid'; its only production user PrefixIterator is checked strictly). "
                   "Key sets containing the empty key, and one key in two dictionaries of a bucket, are informational classes that cannot fail (no production writer produces them)."),
    "assumptions": ["stored keys are non-empty (all ingestion paths reject empty metric names / tag values; namespace is addressed by its first byte; series keys are 8 bytes)",
                    "keys of the dictionaries of one bucket are pairwise distinct (a key is looked up on disk before an id is created; the C09 race is out of scope here)",
                    "ids inside one bucket are distinct (sequence)", "regular expressions and like patterns are valid UTF-8 text (they arrive as SQL); stored keys may be any bytes",
                    "like pattern '*' alone is not generated here (C10 domain)"],
    "tests": [
        {"name": "TestModelSelf", "quick": {}, "thorough": {}},
        {"name": "TestTrieSortedMap", "quick": 3000, "thorough": {"checks": 12000, "shards": 12}},
        {"name": "TestTrieBuilderReuse", "quick": 600, "thorough": {"checks": 5000, "shards": 4}},
        {"name": "TestBucketSortedMap", "quick": 1500, "thorough": {"checks": 5000, "shards": 12}},
        {"name": "TestFlushReadMerge", "quick": 600, "thorough": {"checks": 2000, "shards": 12}},
        {"name": "TestInfoEmptyKeyStored", "quick": 300, "thorough": {"checks": 3000, "shards": 1}},
        {"name": "TestInfoDuplicateKeyAcrossDictionaries", "quick": 100, "thorough": {"checks": 1000, "shards": 1}},
        {"name": "TestRegression_TrieGetEmptyKeyOnLone0xFF", "quick": {}, "thorough": {}},
        {"name": "TestRegression_SuggestMultiTrieKeyAliasing", "quick": {}, "thorough": {}},
        {"name": "TestRegression_RegexpLiteralPrefixUnanchored", "quick": {}, "thorough": {}},
    ],
    "fuzz": [{"name": "FuzzTrie", "seconds": 120}],
}

CHECKS["C09"] = {
    "pkg": "./c09/",
    "level": "exploration",
    "technique": ("(a) real-goroutine rounds released by a barrier running the production worker call sequences, (b) stateful PBT (rapid) with "
                  "production-order flush cycles, creators nested at FS seams inside Flush (harness-owned schedule), reopen and crash images; "
                  "reference model name->id + recovered-node oracle; goroutine stress of creators next to running flush cycles; read-only metadata queries (production plan call sequences) as history operations and as goroutines next to creators; all []byte arguments live in reused buffers that are overwritten after each call; kv compaction of dictionary/index families as a history operation (production job run synchronously)"),
    "rule": ("TestConcurrentAssign: case = 30 rounds (thorough 60) of k=2..8 goroutines (metadata worker, index worker of shard i on ITS index db, metadata calls of further shards) on one meta db shared "
             "by 1-3 index dbs, PrepareFlush/Flush steps between rounds; non-trivial = some row with a new name given to >=2 goroutines in one round; plus 0-2 query goroutines with 1-4 read-only metadata queries each (Suggest*, tag filter =|in|like|regexp, tag values, series lookups) about old names and names being created; every creator owns a wire (arena + receive buffer reused for all []byte arguments; mode invert|fill|next). TestHistory: write/query/flushStep/reopen/crash state machine; query = one of show-namespaces, show-metrics, show-tag-keys+fields, show-tag-values, tag-filter, tag-values-of-key, series-of-metric, also nested at FS seams inside Flush; wire mode drawn per case; names of each case are drawn from a per-case universe (1-3 namespaces, 2-5 metrics, 1-3 tag keys, 3-6 tag values out of pools with proper-prefix pairs / mixed lengths, so that one dictionary bucket receives names in several flush cycles); further operations: writeBatch (2-4 rows), flushCycle (a whole cycle as one step), compact = the background compaction job (Family.Compact guard or periodic threshold guard, drawn) of a drawn subset of the kv families of the metadata store (ns, metric, tv, schema) and of every shard's index store (series, inverted, metric, forward), in any phase of a flush cycle, with crash images and nested writes/queries at its FS seams; every compaction that ran is a case of group dictionary-compactions, non-trivial = it merged >=1 dictionary bucket whose entries were written by >=2 flushes; "
             "non-trivial = >=1 recovered image inside a Flush with ids handed out after the last sequence sync; every recovered image is one distinct case of group crash-points. "
             "TestConcurrentFlushStress: iteration non-trivial = >=1 flush cycle ran next to the workers; one query goroutine (SuggestMetrics/SuggestNamespace/series lookups) runs as long as the workers, the wire mode rotates with the iteration. distinct = hash of rounds / history(+image tag)"),
    "level_text": ("Exploration. Part (a) and the stress test are schedule dependent by nature (Go scheduler); they run thousands of barrier rounds so that a missing re-check is hit with probability ~1 "
                   "(each defect seeded back was hit within the first 1-25 rounds / 20 stress iterations) and report the recorded round. Part (b) is deterministic per seed: sampled crash points (quick: <=8 per flush, "
                   "<=6 recovered per crash action; thorough: <=40) recovered through NewMetricMetaDatabase/NewMetricIndexDatabase on the copied directory."),
    "level_note": ("Process-crash model (image = copy of the directory incl. the mmap'd sequence file). Oracle scopes: metric / tag key / tag value ids unique per database, "
                   "field ids per metric, series ids per (index db, metric). Namespace ids are only observed through metric ids. Suggest* results are judged only for soundness (scope, prefix, no duplicate) and completeness under the limit; order/limit cuts are C20; every id a lookup reports is folded into the model like a creator's answer. Query goroutines next to creators use known tag key ids and do not read GetSchema or the grouping scan (data races of the read path, not id assignment). Faults inside lindb are converted to failures in TestHistory (SetPanicOnFault). whether tag names of a FOUND series survived a crash is C07. "
                   "rapid reports part (a) failures as 'flaky test' with the original traceback = the recorded round."),
    "assumptions": ["one goroutine per index database (as memdb's index worker)", "flush protocol of dataFlushChecker.doFlush / database.Close",
                    "names are non-empty, unchanged by sanitising", "callers may overwrite any []byte argument as soon as the call returned (zero-copy sub-slices of a reused row buffer, as the storage write path does)", "metadata queries use limit 1..100", "compaction jobs run between (not inside) Flush calls of the harness schedule; ingestion/queries interleave with the job only at its FS seams; a running store sees compacted files only after its next non-empty Flush or a reopen (the final reopen of every case makes each compaction observable)", "lindb leaks LRU janitor goroutines per opened store (not the harness)"],
    "tests": [
        {"name": "TestConcurrentAssign", "quick": 150, "thorough": {"checks": 400, "shards": 8}},
        {"name": "TestConcurrentAssignRace", "thorough": {"checks": 150, "shards": 4, "race": True}},
        {"name": "TestConcurrentFlushStress", "quick": {}, "thorough": {"race": True, "timeout": 3000}},
        {"name": "TestHistory", "quick": 60, "thorough": {"checks": 150, "shards": 16}},
        {"name": "TestRegression_.*", "quick": {}, "thorough": {}},
    ],
}

CHECKS["C03"] = {
    "pkg": "./c03/",
    "level": "exploration",
    "technique": "model-based property testing (rapid): generated flush/compact histories on a kv family with the production MetricDataMerger; blocks written through the production metricsdata.Flusher with memdb's calling protocol (builder proven byte-identical to a real memdb flush); oracle = reference model + before/after comparison through the production query read path",
    "rule": ("case = 1-4 metrics (kv keys), 1-5 fields/metric of types sum/min/max/first/last/histogram (ids incl. 0, 200, 254), series ids from {0..7} u {65534,65535,65536,65537,131071,131072,131073,196608}, "
             "2-6 flushed files (fields declared in arbitrary order, fields/series declared without data as memdb does, windows identical/nested/overlapping/disjoint, sparse slots, ranges > 360 slots, "
             "values k/8 plus arbitrary finite floats for non-additive types), compaction after any flush (Family.Compact guard or periodic guard, CompactThreshold 0/1/2), MaxFileSize in {default,1,150,400,1MiB}, reopen, repeated compaction. "
             "After every flush reader == model exactly; across every compaction: same cells/series/fields/slot range both ways, sum/min/max/histogram aggregate equal, first/last in contributed values; level 0 empty and one file per metric afterwards. "
             "non-trivial = a compaction that ran had >= 2 input files sharing a (metric, series, field, slot) cell; distinct = hash of options + file contents + step sequence; "
             "classes: split-output, level1-overlap, field-only-in-some-files, container-boundary-crossed, series-without-data-in-file, declared-field-without-data, single-field-block, range-wider-than-360, repeated-compaction, trivial-move, reopen. "
             "Placed histories (TestCompactionPlacedFiles): 3-6 far-apart metric ids incl. 0 and 4294967295; rounds of 1-3 narrow flushes placed left/right/both sides of an existing level-1 file, in bands, or as subsets, then a compaction; level-1 inputs are picked per level-0 file range, so outputs span untouched level-1 files and level-1 files intersect in key range. Every block lookup with two or more live files covering the metric id is repeated 24 times in the same snapshot (level file order is a map order) and must return the same set of files; non-trivial also = a compaction output that spans an untouched level-1 file. Concurrent jobs (TestConcurrentFamilyCompactions): 2-4 families in 1-2 stores with their own schemas, union slot range per metric narrow / 355-400 / 500-1800 / far-apart narrow windows; jobs start through a barrier plus kv.VerifCompactSync, Family.Compact back to back, the store periodic job, or one after the other; the per-family oracle is unchanged and evaluated while idle. Classes: output-range-spans-untouched-level1-file, level1-key-ranges-intersect, metric-covered-by-2-level1-ranges, lookup-repeated, round-*, concurrent-jobs-with-union-range-over-360: N, start-*"),
    "level_text": ("Generated-input exploration: thousands of small histories per run (58% non-trivial, 1/3 with split output, 1/5 with level-1 overlap) plus dense cases with up to 70000 consecutive series ids; "
                   "every (metric, series, field, slot) is read back through the production reader before and after each compaction and compared with an independent model, which is exactly the statement's quantifier up to sampling."),
    "level_note": ("Trusted: roaring, the kv table format (C15), manifest handling (C01). Values dyadic so float sums are exact. Rollup merges (kv.Rollup context) belong to C04. "
                   "Structural assertions (level 0 empty, one file per key after compaction) are the documented level behaviour, not part of the statement. Concurrent compactions are a stress test: whether jobs overlap is up to the scheduler; the measured per-case detection rate of a buffer shared between jobs (seeded C03f) is about 55% overall and 80-100% within the class (chance of a 16-case quick run missing it < 1e-5). The oracle holds under every interleaving."),
    "assumptions": ["store options = kv.DefaultStoreOption (2 levels) as tsdb/segment.go", "metric slot range is the tight min/max of written slots (memdb StoreTimeRange)",
                    "field type of a (metric, field id) never changes", "slots <= 3599 + small widths, <= 3 fields per dense case", "the store's periodic ticker (1 min) never fires within a case"],
    "tests": [
        {"name": "TestCompactionKeepsObservations", "quick": 3000, "thorough": {"checks": 6000, "shards": 16}},
        {"name": "TestCompactionDenseSeries", "quick": 6, "thorough": {"checks": 12, "shards": 16}},
        {"name": "TestCompactionPlacedFiles", "quick": 400, "thorough": {"checks": 1500, "shards": 16}},
        {"name": "TestConcurrentFamilyCompactions", "quick": 16, "thorough": {"checks": 60, "shards": 16}},
        {"name": "TestBuilderMatchesMemdbFlush", "quick": 1000, "thorough": {"checks": 5000, "shards": 4}},
        {"name": "TestModelUnit", "quick": {}, "thorough": {}},
        {"name": "TestRegression_.*", "quick": {}, "thorough": {}},
    ],
}

CHECKS["C04"] = {
    "pkg": "./c04/",
    "level": "exploration",
    "technique": ("stateful property-based testing (rapid) of a complete in-process storage engine (sim/node): generated write/flush/rollup/reopen histories, "
                  "reference-model oracle read directly from the target kv files with the metricsdata reader, crash images between the manifest commits of a rollup job, "
                  "query-level cross-check through the production planner"),
    "rule": ("case = database intervals (source 1..60 s dividing 5 min; month-type target 5/10/15/30 min and/or year-type target 1/2/3/4/6 h), 1-3 source families around boundary dates "
             "(month ends, leap day, year end/start, 23:00 + next day 00:00), 1-3 metrics x 1-5 fields (sum/min/max/last/first, values k/8) x 1-5 series, sparse/dense/out-of-order slots with ms jitter, "
             "history of write / flush(all|some families) / rollup(kv.VerifRollup per family | Store.ForceRollup) / reopen / evict (Engine.EvictSegment: every target segment without a loaded tsdb data family, i.e. not looked up by a query, is closed; then a query lookup Shard.GetDataFamilies reopens a drawn subset of the target intervals) / query lookup of one target interval / snap + release steps (a reader takes Family.GetSnapshot of a source family, or of the target family holding that hour, reads the table readers through it and holds it over the following steps; readers may start inside a running job at the table-create seam, are dropped by a restart, and may pin the recovered source versions on a crash image; reader episodes = file waits, snapshot, 1-3 rollup steps including that family); a write goes either through the data family the writer holds (existing WAL partition, target segments stay closed) or through Shard.GetOrCrateDataFamily (new partition, reopens them); a rollup step may carry one crash image "
             "(before the source commit, between the two target commits, before the first / between the reference clean-ups; 1 or 2 restarts, then rollup twice) or 1-2 harness-owned interleavings "
             "(at the table-create seam of the job's output in the target family a write + flush of a source family - usually the job's own - runs on the job's goroutine: that file is not an input of the running job and must keep waiting); "
             "up to 3 queries group by time(target). "
             "After EVERY step all blocks of all families of all segments of each target interval must equal the field-type aggregate of exactly the points of the source files rolled up so far, "
             "at the segment/family/slot computed with Go's calendar; a rollup job merges into an interval only if its target segment is open (store manager), otherwise the files keep waiting for that interval; after every step every OPEN target segment equals the aggregate of the files rolled up into THAT interval so far (closed ones are read when reopened, all of them through the shard at the end of the history); after a rollup: source rollup files == per file exactly the intervals it has not been rolled up into, no target reference files; every target cell is stored in exactly as many files of its target family as rollup jobs merged a source file with a point for it (no target compaction in the history); a held target-family snapshot reads, when taken and when released, exactly the aggregate of the files rolled up when it was taken. "
             "non-trivial = some target slot is fed by >= 2 source slots and >= 2 source files were rolled up; distinct = hash of the complete plan (JSON)"),
    "level_text": ("Generated-history exploration over the production flush and rollup code (kv family.rollup/doRollupWork, metricsdata merger, tsdb segment naming). Every written point is kept in a plain model; "
                   "the oracle never uses lindb's interval calculators. 600 cases per quick run (about 2/3 non-trivial; both calculator pairs, two-target configurations (1/2 of the cases), evict/skip/catch-up episodes, >= 2 target families/segments, "
                   "rollup repeated, repeated after reopen, crash images of all four kinds each counted in the class histogram)."),
    "level_note": ("Trusted: the metricsdata reader (C03), the metadata/index lookups used to map ids back to names (C09/C10), Go's time package, TZ=UTC. first/last are checked as membership in the contributed values "
                   "(the merge order across source files is a map iteration order). Crash = process death (directory image), not power loss. "
                   "TestObservation_CompactedSourceFile is informational: a source file compacted to level 1 before the rollup is skipped by doRollupWork yet marked as rolled up (outside the property's quantifier, which lists flush / rollup / reopen only)."),
    "assumptions": ["targets are whole multiples of the source and divide 1 h or are multiples of 1 h (other values pass DatabaseOption.Validate but nothing documents them as supported; excluded as unsound input)",
                    "source interval is day-type; month->year rollup and histogram fields are not generated",
                    "source families are not compacted before the rollup in the asserted test",
                    "after a restart the source families are reopened the way the next write does (Shard.GetOrCrateDataFamily), which also opens the target segments",
                    "whether a target segment is open is read from the store manager, the predicate production uses", "source data families are never evicted", "target families are never compacted in the asserted histories", "a reader of a target family finds it through Shard.GetDataFamilies (this loads the tsdb family, so the segment is no longer evictable)", "snapshots are released before a restart",
                    "TZ=UTC"],
    "tests": [
        {"name": "TestRollup", "quick": 600, "thorough": {"checks": 4000, "shards": 16}},
        {"name": "TestObservation_CompactedSourceFile", "quick": 40, "thorough": {"checks": 300, "shards": 1}},
        {"name": "TestRegression_.*", "quick": {}, "thorough": {}},
    ],
}

CHECKS["C07"] = {
    "pkg": "./c07/",
    "level": "fault_enumeration",
    "technique": ("stateful property-based testing (rapid) on a complete in-process storage node (tsdb engine + WAL partition + production local replicator) with crash images of the whole node directory at every intercepted "
                  "kv file-system operation and every WAL/consumer-group page store; recovery through the production open paths (tsdb.NewEngine, WriteAheadLogManager.Recovery, free-running replay); oracle through the production query path"),
    "rule": ("history = log appends (entry i adds 4^i to one sum cell, so the base-4 digits of the stored sum count how often each entry was applied; every entry also writes a row that either introduces new metric/tag/field/series names "
             "or re-uses names of an earlier entry), single local replication steps, flush cycles in production order (FlushMeta, FlushIndex, family.Flush) whose sub-steps interleave freely with appends/replication/log GC. "
             "The history ends with the crash: sampled images (biased to flush/replication/GC windows) are recovered and replayed. Per image: log ack <= sequence stored with the flushed data; "
             "every entry of the recovered log applied >= 1 times, entries at or below the stored sequence exactly once, nothing beyond the log; every entry's row is found by metric name + tag filter + group-by. "
             "Further operations: (a) records without a write - bytes that are not a snappy stream, a torn prefix of a real record, a stream decoding to zero rows (the storage write rpc does not validate req.Record); they must be skipped, contribute nothing, and the log ack may exceed the stored sequence only across such records; (b) replicaCatchUp; (c) inside each flush sub-step, at drawn table-file operations where the flush job holds neither the family mutex (TryLock probe) nor a kv version lock, the harness runs an append and/or 1-3 replicator steps on the flush goroutine (for family.Flush: between the memdb freeze and the kv commit); (d) the log-removal task usually runs with a caught-up replicator. Images: the end-of-history image always; the last plus one drawn image of each loss window (data-flush commit with replication inside / skipped record above unflushed writes ... next data-flush commit); 3 images between two commits of one sub-step; quick 10 / thorough 30 per history; one in four tableWrite points imaged (drawn). (e) 1-3 write-ahead logs per family, one per leader (set drawn from {1},{2},{1,2},{1,3},{2,3},{1,2,3}; node = 1: leader log via BuildReplicaForLeader+WriteLog, follower logs via BuildReplicaForFollower+ReplicaLog), opened at the first record; appends / replica steps / catch-up / GC / skipped records / removal task per log, freely interleaved; every statement is checked per log (ack vs the sequence stored for THAT leader, exactly-once at or below it); after WriteAheadLogManager.Recovery the node's GetReplicaState must report every log directory and an ack <= the stored sequence of its own leader (beyond it only over records without a write); images with >= 2 logs are replayed half by the production loops, half by harness-driven replicator steps in a drawn interleaving (NewPartitionFn seam); an entry introduces names iff no applied entry wrote its series before. (f) I/O faults: in 30%/10%/8% of flushMeta/flushIndex/flushFamily sub-steps the k-th tableCreate|tableWrite|tableClose|manifestWrite fails (not performed; close performed but reports the error); a failed metadata/index flush abandons the cycle as doFlush does. (g) flushJob: the production dataFlushChecker.doFlush (tsdb.VerifFlushDatabaseSync, requests built as Database.Flush) as one operation with race plans per sub-step and at most one fault; images additionally: the last and one drawn image of every fault window (failed operation ... next metadata flush). "
             "crash-point non-trivial = recovered image has entries above and below the persisted sequence; distinct = (history, image tag) hash"),
    "level_text": ("Fault enumeration at file-system-operation / page-store granularity over generated histories of the real node: every crash point of a history is imaged, a generated sample is recovered with the production recovery code "
                   "and checked end to end (log -> replay -> query)."),
    "level_note": ("Process-crash model (directory image; mmap'd pages as stored). One shard, one data family, 1-3 leader logs. Faults: one failing table/manifest operation per sub-step (fail-stop of that operation; no fsync/sequence-file faults; flush failures are read as part of the histories the property quantifies over). Known finding C07/name-created-inside-flush-cycle-persisted-with-data: replication steps that introduce new names "
                   "are not taken inside a flush cycle while the finding is listed (steps that only write to existing series still race with the cycle; new-name steps are allowed inside family.Flush after the freeze)."),
    "assumptions": ["crash = process death", "writes reach the family only through the local replicator (as in production)", "flush sub-steps in production order", "records decoding to a non-empty malformed block are not generated", "an injected fault makes one operation return an error without performing it (tableClose: performed, reports the error)", "the local replicator is the only consumer group of a log (no remote followers)", "a sequential interleaving of the replicator steps of several logs is one legal schedule of the free-running loops", "an actor blocked on a lock of the flush job is equivalent to running it at the next eligible point"],
    "tests": [
        {"name": "TestNodeCrashRecovery", "quick": {"checks": 12, "shards": 4}, "thorough": {"checks": 40, "shards": 16}},
        {"name": "TestKnown_NameCreatedInsideFlushCycle", "quick": {}, "thorough": {}},
        {"name": "TestRegression_.*", "quick": {}, "thorough": {}},
    ],
}

CHECKS["C12"] = {
    "pkg": "./c12/",
    "level": "exploration",
    "technique": ("metamorphic property-based testing (rapid): the same generated points are written, through the production routing hash, under 2-4 physical layouts "
                  "(1-6 shards, 1-4 storage nodes = separate databases with their own ids) and every generated query must give the answer of the 1-shard/1-node layout under "
                  "every delivery order of the leaf responses (exhaustive, <= 24) and with an intermediate merge node; reference layout cross-checked against a naive model; "
                  "leaf-side receiver split checked as a partition; production broker.StateManager plans replayed in regression tests; send-interleaved delivery schedules (responses handled while the sender is still sending the plan's requests); goroutine stress of concurrent response handling on a multi-worker root pool with asymmetric payloads"),
    "rule": ("case = (data set, query, layout, topology, delivery schedule). Data: 1-3 metrics, 2-12 series (tag keys from host/zone/dc; in half of the multi-key metrics a series carries only a non-empty subset of the metric's keys; series may report only some fields), sum/min/max/last/first fields, values k/8, 1-2 families, "
             "one row per series and ingestion request in time order. Query: select list (plain / sum / min / max / last / first as series/field/type.go allows) or *, optional tag condition (=, !=, in, not in, and/or), "
             "time range, group by time(10s..300s), group by tags, optional limit clause without order by (none = parser default 20, 1..4, groups-1..groups+1, 20 / 100 / 1000000); 1 of 8 data sets is wide (first metric 40-70 series over 30 hosts x zone/dc, 1-2 points each), so `group by host` exceeds the default limit with each group's series spread over the shards; group by / tag conditions may name keys that some series of the metric lack (such a series is in no group and is selected by no atom on that key). A group-by query is compared with its complete answer (same statement, limit 1000000, reference layout); the complete statement is also run under every layout and must be equal; where the complete answer under a layout has more series than the limit, every execution must hold at most limit series, all different, every returned group with values must be a group of the complete answer with exactly its cells and values, and an answer with fewer than limit series must hold every group with values (which groups are returned is unspecified). TestLayoutIndependence non-trivial = >= 2 leaves answered with data and a delivery order different from the send order was run, "
             "or the intermediate node merged >= 2 leaf answers with data. TestReceiverSplit non-trivial = some group was sent by >= 2 leaves and >= 2 receivers got data. distinct = hash of data+query+layout+topology. "
             "Delivery schedule: either all responses after all requests in every order (n!), or send-interleaved: the response of the target contacted i-th is handed to the sender (root, or the intermediate node) inside the transport's SendRequest of request number At[i] >= i - i.e. while the sender still has requests to send - or after the last request; fixed schedule 'every node answers at once' plus 2 drawn schedules per (query, layout) at the root, 'at once' + 1 drawn at the intermediate node. A send-interleaved case is non-trivial when >= 2 leaves answered with data and >= 1 response was handed over while requests remained. "
             "TestConcurrentResponseHandling: case = (2-4 leaves, one with 1500-3000 series and the others with 1-3, placed by the production routing; 1-3 queries out of group by host / host+time / zone / host+zone / none / none+time with limit 1000000; R = 12-24 executions each). The root handles responses on a production worker pool of 8 workers and the leaf responses of an execution are handed to its task manager from one goroutine each, released by a barrier at the same instant. Every execution must give the answer of the 1-shard/1-node layout; a single wrong execution is a violation (no re-execution rule). Non-trivial = >= 2 leaves answered with data and the largest payload is >= 100 times the smallest"),
    "level_text": ("Generated-input exploration with exhaustive enumeration of the delivery orders (n! for n <= 4 leaves) at the root and at the intermediate node for every generated (query, layout); "
                   "classes recorded: leaves with data / empty answer / not-found, first/last/all-but-one/all not-found, fields differing between leaves, shards, leaves, functions."),
    "level_note": ("Production code: routing (BrokerBatchRows.NewShardGroupIterator), write path, leaf/intermediate/root processors, task managers, planner. Harness: transport, streams, response pool (inline), state-manager answers. "
                   "first/last cells fed by >= 2 series or >= 2 families are only required to hold one of the candidate values (merge order undocumented). Storage state fixed to memory (C11/C03). "
                   "Plans with several compute targets / the root as compute node cannot complete on this tree (known findings): covered by regression tests, not by the property. Every node of every layout is additionally read back alone (ungrouped and grouped by each tag-key set present) against the naive model. A disagreement counts only if the same execution (query, layout, delivery order) disagrees 3 times in a row; answers not reproduced on re-execution are counted in the class info:answer-not-reproduced-on-re-execution (the timing-dependent leaf double-reduce, fixed by 456d3fc, is covered by its own repeated-query regression test). The harness also owns the point at the end of the transport's SendRequest. Schedules are positional because production contacts the targets in map-iteration order; which node answers early is therefore not controlled (counted in info:sched:*). A response refused by the sender because it had already finished the request counts as a violation. In TestConcurrentResponseHandling the interleaving of the workers is not controlled (real goroutines, sampled): measured detection of seeded C12c is 10/10 quick runs; a failing case may not reproduce on replay and rapid may report it as flaky (still a failure). Series without values in the time range are returned by this tree and count towards the limit (observation test TestRegression_LimitCountsGroupsWithoutValuesInTheTimeRange, never fails): the cut is therefore decided by the series count of the complete answer per layout. Detection of a leaf-side cut (seeded C12e) is probabilistic per execution (map order) but reached within 3-32 cases at 5 seeds."),
    "assumptions": ["TZ=UTC", "every series carries at least one tag", "<= 12 series per case, or a wide case of 41-74 series", "<= 1 row per series per ingestion request, rows of a series in time order",
                    "no order by / having / rate / histogram in the query space; limit >= 1", "one storage interval (10s), ranges < 1h", "TestConcurrentResponseHandling: one data family, sum/min/max fields only, explicit limit 1000000"],
    "tests": [
        {"name": "TestLayoutIndependence", "quick": 150, "thorough": {"checks": 400, "shards": 16}},
        {"name": "TestReceiverSplit", "quick": 500, "thorough": {"checks": 3000, "shards": 4}},
        {"name": "TestConcurrentResponseHandling", "quick": 3, "thorough": {"checks": 40, "shards": 4}},
        {"name": "TestRegression_.*", "quick": {}, "thorough": {}},
    ],
}

CHECKS["C10"] = {
    "pkg": "./c10/",
    "level": "exploration",
    "technique": "property-based testing (rapid): generated series sets + SQL tag conditions parsed by the production parser, executed through the in-process root/leaf query path over generated flush/compaction/restart histories; brute-force reference evaluation + metamorphic relation between index states; harness-owned interleavings inside index flush/compaction and inside lookups (kv FS hooks + index/c10_w3_verif.go); series ids placed at container boundaries through index.VerifSetNextSeriesID",
    "rule": ("case = 5-200 series of 1-3 metrics (shared/missing keys, values sharing prefixes/suffixes, unicode, '*', quotes, commas, per-series uid) in 1-5 write batches, "
             "2-4 conditions generated as SQL text (=, !=, <>, like/not like with x*, *x, *x*, x, *, **; in/not in; =~/!~; and/or/parentheses, generated depth <= 4, also unparenthesised chains), "
             "history of <= 16 steps (write, bare PrepareFlush, full/meta/index/data flush of all or some shards, synchronous compaction of the dictionary/index kv families with or without obsolete-file deletion, "
             "graceful restart, re-write of known series); every condition is checked after every step: group by uid = brute force, group by (uid,k)/(k)/(k1,k2) values and point counts, same answer as in earlier states of the same data. "
             "non-trivial = at some checkpoint the condition selects a non-empty proper subset, has >= 2 atoms, >= 1 atom is like/regex/negated, and the index is not purely in memory (a file exists or a PrepareFlush is pending); "
             "distinct = hash(series, conditions, history). TestTagFilterManySeries (thorough): one metric with 65536+N or 131072+N real series, tagged series at every container boundary, written in 2-4 flushed batches cut around container boundaries, then compacted (possibly twice, with a batch in between) and restarted. A quarter of the cases carry series id plans: the series of a (metric, shard) are created in consecutive runs whose ids jump 1-3 times to a roaring container boundary (65536, 131072, 196608; 1-4 ids before it, on it, 1-2 after it, or anywhere inside the container), so posting lists, forward index entries, their flush, their compaction merge, the offset tables of the readers and the group-by scanners span 2-4 containers in every generated index state. About every third index flush / compaction step has 1-3 plans of operations nested inside: at a drawn harness-owned point (file-system operation of a dictionary/index kv family, or a call of an index store to its kv family/flusher: newFlusher, commit, getSnapshot, release; before/after, n-th occurrence) the flush is parked and 1-3 pre-drawn operations (condition checks against the model, probe conditions of depth 0-1, re-writes, writes of new series) run as another client; points where the store lock is held run right after the call; after such a step every written tag value is asked for by `k in (...)` (dictionary sweep). TestTagFilter also has the step 'lookup with a complete meta/index flush nested inside' at the lookup's getSnapshot points of the inverted/forward/metric/schema families."),
    "level_text": ("Generated-input and generated-history exploration: each case runs 20-60 statements through the production parser, root planner, leaf pipeline, dictionaries, posting lists, forward index and grouping, "
                   "in memory / prepared / flushed / two-files / compacted / restarted / mixed index states (states are classified from the real file counts), and compares with an independent brute-force model."),
    "level_note": ("Trusted: sim/node loop-back transport, Go regexp as the regex semantics (the memory path uses rp.Match). `like` semantics taken from index/kv_store.go (no documentation exists): one leading/trailing '*' is a wild card. "
                   "A negated atom selects series that have the key and do not match. Informational only: conditions over a key no series of the metric carries (lindb answers 'tag key not found'), "
                   "groups of series lacking a grouping key. not-found errors == empty answer. Operator precedence of unparenthesised and/or chains is taken from the parser (same precedence, left associative)."),
    "assumptions": ["one writer goroutine; a series lives in exactly one shard (shard chosen by the generator, not by the routing hash)",
                    "tag values are valid UTF-8, non-empty (ingestion rejects empty), condition literals contain no single quote or line break (not expressible in the grammar)",
                    "a bare PrepareFlush is always completed by a flush before a restart (database.Close waits for a running flush)",
                    "fresh database name per case (lindb leaks the per-database query pools; same-name pools share the workers_alive gauge)",
                    "all points at one timestamp, value 1 (point counts identify double counting)", "series id plans: the skipped ids stand for earlier series of the metric that carry none of the generated tag keys (not even uid) and have no point in the queried time range; every generated statement has a tag condition, so it cannot select them; ids stay < 200000 (default series limit)",
                    "an operation nested at a point runs to completion while the flush/lookup is parked (seam granularity, no preemption inside lindb functions); flush-inside-lookup only with one shard; no data-family flush and no compaction inside a lookup (posting lists are zero-copy views of mapped files that outlive the lookup's snapshot: a compaction completing inside a lookup can unmap them - observation, C02/C03 territory)"],
    "tests": [
        {"name": "TestTagFilter", "quick": 800, "thorough": {"checks": 3000, "shards": 8}},
        {"name": "TestTagFilterMultiShard", "quick": 600, "thorough": {"checks": 2500, "shards": 6}},
        {"name": "TestTagFilterManySeries", "thorough": {"checks": 10, "shards": 6, "timeout": 3000}},
        {"name": "TestOracleExamples", "quick": {}, "thorough": {}},
        {"name": "TestRegression_.*", "quick": {}, "thorough": {}},
    ],
}

CHECKS["C11"] = {
    "pkg": "./c11/",
    "level": "exploration",
    "technique": ("model-based property testing (rapid): generated write/flush/compact/reopen histories with generated SQL statements checked against a naive "
                  "reference model that keeps every point; harness-owned interleavings inside family.Flush (kv FS hooks + the replica ack callback); "
                  "goroutine stress variant with a bounds/exact oracle (-race in the thorough tier)"),
    "rule": ("TestQueryModel / TestQueryModelHistogram: history = 3-14 operations (write of 1-8 proto rows with dyadic values k/8, |k| < 2^20, duplicate and out-of-order slots, "
             "1-3 families of a 1s/5s/10s/30s/1m database incl. gaps and midnight, 1-3 metrics, 1-6 series; FlushDB, family.Flush, kv compaction, engine reopen; statements anywhere). "
             "Statement = plain field or a function series/field/type.go allows (sum/min/max/last/first; count and avg are rejected by the planner for every type and are not generated), "
             "1-3 select items, absolute time range (all/part), group by time(multiple of the storage interval) or none, tag condition (=, in, like), group by tags. "
             "Oracle: series set, timestamp set and values == model (exact; membership in the candidate set for last/first with several candidates). "
             "case non-trivial = some answer has >= 2 slots and its points came from >= 2 of {mutable memdb, immutable memdb, file}; "
             "TestQueryDuringFlush: same, with statements (and writes) placed at FS operations of the flush and between file commit and release of the immutable memdb, "
             "non-trivial additionally requires that window to be reached; TestConcurrentFlushQuery round non-trivial = >= 2 flushes and >= 10 checked answers; "
             "TestQueryModelCoarseIntervals: the same on a month-type (5m/10m/30m: segment = month, family = day) or year-type (1h/4h: segment = year, family = month) database "
             "with 2-4 families around day/month/year boundaries (Dec 31->Jan 1, Jan 31->Feb 1, Feb 28/29->Mar 1), ranges < 1h, 1h..1d, > 2d; "
             "case non-trivial = a statement whose truncated range spans >= 2 segments returned >= 2 slots from >= 2 families; "
             "Every history test: with probability 2/5 a metric carries a series id plan (strictly increasing ids at roaring container edges 0/1/2, 65534..65538, 131071..131073, 196607..196609, 199999, neighbours, arbitrary <= 199999); the k-th created series gets the k-th id. Classes series-ids:* count statements that read beyond the first container / the first series of a later container of a memdb, a file block, or a compacted block. TestQueryModelSparseSeries: plan on every metric, mostly >= 2 fields, half the cases end with flush-all + compaction of every family + statements. TestQueryModelManySeries: one 2-3 field metric with 65536*k + 2..300 really created series, statements on single series at the boundaries (=, in), ten series across a boundary (like, optional group by host), a hundred series or all series in one group; before/after flush, compaction, reopen. "
             "distinct = hash of schema + history"),
    "level_text": ("Exploration: thousands of generated histories per run, every statement compared with an independent model (exact because all values are dyadic); "
                   "flush interleavings are owned at seam granularity (deterministic, shrinkable), plus an unsystematic real-goroutine run whose oracle cannot raise false alarms "
                   "(writes completed before the query <= answer <= writes started before it returned; == when no write overlapped)."),
    "level_note": ("One shard, one leaf, one storage interval per database (sharding/placement is C12, rollup C04). last/first with several candidates from different flushes/series: membership only "
                   "(merge order is fixed by no document); rate/stddev/quantile are not generated; the +Inf bucket cannot be named in SQL. Known findings: function aggregate between parts of one slot "
                   "(oracle accepts the placement-reachable values while listed), memdb reads overlapping a write (answers of such queries are not checked while listed). Series ids <= 199999 (default MaxSeriesPerMetric 200000); a planned series is created by its own production write call (a batch is cut in front of it)."),
    "assumptions": ["TZ=UTC", "a write and a Flush call of its own family never overlap in the stress test (the property quantifies over queries concurrent with flush)",
                    "one engine per process at a time; every engine uses its own database name (lindb's pool gauges are process-wide by name)",
                    "ids skipped by a series id plan stand for series of the metric created earlier in the shard's index that have no point in the generated families (seam index.VerifSetNextSeriesID moves only the per-metric sequence; the id is read back after the write; the dense test uses no seam)",
                    "a statement without LIMIT returns at most 20 series (sql parser default): grouped statements of the dense test match <= 10 series"],
    "tests": [
        {"name": "TestQueryModel", "quick": 1200, "thorough": {"checks": 6000, "shards": 12}},
        {"name": "TestQueryModelHistogram", "quick": 500, "thorough": {"checks": 3000, "shards": 4}},
        {"name": "TestQueryModelCoarseIntervals", "quick": 600, "thorough": {"checks": 4000, "shards": 6}},
        {"name": "TestQueryDuringFlush", "quick": 600, "thorough": {"checks": 4000, "shards": 6}},
        {"name": "TestQueryModelSparseSeries", "quick": 400, "thorough": {"checks": 3000, "shards": 4}},
        {"name": "TestQueryModelManySeries", "quick": 4, "thorough": {"checks": 40, "shards": 4}},
        {"name": "TestConcurrentFlushQuery", "quick": 2, "thorough": {"checks": 1, "race": True, "timeout": 3000}},
        {"name": "TestRegression.*|TestModelSelfTest", "quick": {}, "thorough": {}},
    ],
}
