"""Per-property configuration of the driver: which test functions make up a check, the
budgets of the two tiers, the evidence level and the non-trivial rule (as implemented by the
property package through sim/ev)."""

CHECKS = {}

CHECKS["C13"] = {
    "pkg": "./c13/",
    "level": "exploration",
    "rule": ("rapid-generated (interval value via Interval.ValueOf, boundary-biased ms timestamp in 2015..2035) cases plus "
             "a walk over every family boundary of 2015..2035; TestPartition case non-trivial = timestamp within one interval "
             "of a family/segment boundary; TestRangeFamilies = range spans >= 2 families; TestPlannerInterval = planned range "
             "spans >= 2 families or interval ratio > 1; distinct = (interval(s), timestamp(s)) hash"),
    "technique": "property-based testing (rapid) of the calculators and the planner against arithmetic invariants + exhaustive family-boundary walk",
    "level_text": ("Generated-input exploration: tens of thousands of boundary-biased (interval, timestamp) cases per run and a complete walk over "
                   "all family boundaries of 21 years check exactly the invariants the statement lists (containment, tiling, idempotence, slot bound, "
                   "planner multiple/alignment/cover). The functions are pure, so sampling + the exhaustive walk is the right level."),
    "level_note": "Trusted: Go's time package as the calendar; TZ=UTC; window 2015..2035; engine-level family lookup is exercised by C11/C04 rather than here.",
    "assumptions": ["TZ=UTC (time.Local); DST zones out of scope", "timestamps restricted to 2015-01-01..2035-12-31"],
    "tests": [
        {"name": "TestPartition", "quick": 20000, "thorough": {"checks": 200000, "shards": 8}},
        {"name": "TestRangeFamilies", "quick": 3000, "thorough": {"checks": 30000, "shards": 4}},
        {"name": "TestBoundaryWalk", "quick": {"short": True}, "thorough": {}},
        {"name": "TestPlannerInterval", "quick": 20000, "thorough": {"checks": 200000, "shards": 4}},
    ],
}
