#!/bin/bash
# Runs the pinned baseline suite of /repo with the verif guard OFF and compares with BASELINE.json.
# usage: tools/baseline.sh [repo dir]   (default /repo)
REPO=${1:-/repo}
export GOPROXY=off GOSUMDB=off GOTOOLCHAIN=local
OUT=$(mktemp /dev/shm/baseline.XXXXXX.json)
(cd $REPO && go test -mod=mod -json -vet=off -count=1 -timeout 25m ./... > $OUT 2>/dev/null)
python3 - "$OUT" <<'PY'
import json,sys
base=json.load(open('/root/.vp/BASELINE.json'))
want=set(base['stable_pass'])
res={}
for line in open(sys.argv[1]):
    try: e=json.loads(line)
    except Exception: continue
    if e.get('Test') and e.get('Action') in ('pass','fail','skip'):
        res[e['Package']+'::'+e['Test']]=e['Action']
bad=[t for t in want if res.get(t)!='pass']
print('baseline tests: %d, passing now: %d, not passing: %d'%(len(want),len(want)-len(bad),len(bad)))
for t in sorted(bad)[:30]: print('  NOT PASSING:',t,res.get(t))
sys.exit(1 if bad else 0)
PY
rc=$?
rm -f $OUT
(cd $REPO && git checkout -- config/standalone.toml.example config/storage.toml.example; git status --short | head)
exit $rc
