#!/bin/bash
# usage: tools/run_all.sh [tier] [ids...]   runs the claimed checks sequentially, prints one line each
TIER=${1:-quick}; shift
cd "$(dirname "$(readlink -f "$0")")/.."
IDS="$@"
if [ -z "$IDS" ]; then IDS=$(python3 -c "
import json
print(' '.join(c['property_id'] for c in json.load(open('MANIFEST.json'))['checks']))"); fi
fail=0
for id in $IDS; do
  out=$(./check $id --tier $TIER 2>&1); rc=$?
  echo "$id rc=$rc $(echo "$out" | grep -E '^(OK|VIOLATION|INCONCLUSIVE)' | head -2 | tr '\n' ' ') $(echo "$out" | grep -c '^KNOWN-FINDING') known"
  [ $rc -ne 0 ] && fail=1 && echo "$out" | tail -30 > /tmp/run_all_$id.log
done
exit $fail
