#!/bin/bash
# usage: tools/seed_validate.sh <seed output dir> -- confirms: patch applies + builds, demo passes without and fails with the patch
set -u
SD=$1; NAME=$(basename $SD)
WT=/tmp/wt-sv-$NAME
export GOFLAGS=-mod=mod GOPROXY=off GOSUMDB=off GOTOOLCHAIN=local TZ=UTC TMPDIR=/dev/shm/sv-$NAME
mkdir -p $TMPDIR
git -C /repo worktree remove --force $WT >/dev/null 2>&1
git -C /repo worktree add --detach $WT HEAD >/dev/null 2>&1 || { echo "$NAME worktree failed"; exit 3; }
mkdir -p $WT/zz_demo && cp -r $SD/demo/* $WT/zz_demo/
PKGS=$(cd $WT && find zz_demo -name '*_test.go' -exec dirname {} \; | sort -u | sed 's#^#./#')
run_demo() { (cd $WT && timeout 900 go test -tags verif -count=1 $PKGS > $1 2>&1; echo $?); }
rc0=$(run_demo /tmp/sv-$NAME-without.log)
git -C $WT apply $SD/patch.diff || { echo "$NAME: patch does not apply"; git -C /repo worktree remove --force $WT; exit 3; }
(cd $WT && go build ./... ) >/dev/null 2>&1 || { echo "$NAME: does not build"; git -C /repo worktree remove --force $WT; exit 3; }
rc1=$(run_demo /tmp/sv-$NAME-with.log)
echo "$NAME demo_without_patch_rc=$rc0 demo_with_patch_rc=$rc1 $( [ "$rc0" = 0 ] && [ "$rc1" != 0 ] && echo CONFIRMED || echo NOT-CONFIRMED)"
git -C /repo worktree remove --force $WT >/dev/null 2>&1
rm -rf $TMPDIR
