#!/usr/bin/env python3
"""Prints the markdown table of section 7.6 of DESIGN.md from /verif/seeded/*/meta.json.

Each meta.json was written by the author of the seeded change; the key "verif" is added here (by hand, after
tools/seed_validate.sh and tools/mutant.sh were run): {"confirmed": true, "caught_by": "...", "first_run": "caught|missed"}.
"""
import json, os, sys

COMPACT = "--compact" in sys.argv
ROOT = os.path.join(os.path.dirname(os.path.abspath(__file__)), "..", "seeded")


def main():
    rows = []
    caught = missed_first = open_ = 0
    for d in sorted(os.listdir(ROOT)):
        p = os.path.join(ROOT, d, "meta.json")
        if not os.path.exists(p):
            continue
        m = json.load(open(p))
        v = m.get("verif", {})
        summ = " ".join(str(m.get("summary", "")).split()).replace("|", "/")[:(90 if COMPACT else 260)]
        cb = v.get("caught_by", "?")
        if v.get("obsolete"):
            cb = "%s; NOW: %s" % (cb, v["obsolete"])
        if v.get("rebased"):
            cb = "%s; %s" % (cb, v["rebased"])
        cb = cb.replace("|", "/")
        if v.get("first_run") == "missed":
            missed_first += 1
        if cb.startswith("NOT"):
            open_ += 1
        else:
            caught += 1
        rows.append("| %s | %s | %s | %s |" % (d, m.get("property"), summ, cb))
    print("| seeded change | property | what it does | caught by |")
    print("|---|---|---|---|")
    print("\n".join(rows))
    print("\n%d changes, %d detected (%d of them only after the check was extended), %d not detected" %
          (len(rows), caught, missed_first - open_, open_), file=sys.stderr)


if __name__ == "__main__":
    main()
