#!/usr/bin/env python3
"""usage: tools/seed_caught.py <seed id> <text> : records in seeded/<id>/meta.json which check catches a change that was missed at first."""
import json, sys
sid, text = sys.argv[1], sys.argv[2]
p = f'/verif/seeded/{sid}/meta.json'
m = json.load(open(p))
v = m.setdefault('verif', {})
v['caught_by'] = text
v.pop('verdict', None)
json.dump(m, open(p, 'w'), indent=1, ensure_ascii=False)
print(sid, v)
