#!/bin/bash
# usage: tools/seed_wave.sh <outdir> <jobs> <seed dir>...  -- validates each seed's demonstration on /repo HEAD and runs the quick check of its
# property against the patch in a scratch worktree; one line per seed in <outdir>/<id>.res
OUT=$1; JOBS=$2; shift 2
mkdir -p $OUT
one() {
  d=$1; id=$(basename $d)
  prop=$(python3 -c "import json;print(json.load(open('$d/meta.json'))['property'])")
  demo=$(/verif/tools/seed_validate.sh $d 2>&1 | tail -1)
  /verif/tools/mutant.sh w$id $d/patch.diff $prop > $2/$id.log 2>&1
  rc=$?
  case $rc in 1) v=VIOLATION;; 0) v=OK-not-detected;; 2) v=INCONCLUSIVE;; *) v=error-$rc;; esac
  echo -e "$id\t$prop\t$demo\t$v\t$(grep -m1 '^VIOLATION' $2/$id.log)" > $2/$id.res
}
export -f one
printf '%s\n' "$@" | xargs -P $JOBS -I{} bash -c "one {} $OUT"
cat $OUT/*.res
