#!/bin/bash
# usage: tools/seed_matrix_run.sh [jobs]  -- re-validates every /verif/seeded/<id> on the current /repo HEAD (demonstration passes without / fails with
# the patch) and runs the quick check of its property against it in a scratch worktree; writes /verif/seeded/MATRIX.tsv (id, property, demo, check verdict).
cd /verif
JOBS=${1:-3}
OUT=/verif/seeded/MATRIX.tsv
TMP=$(mktemp -d /tmp/matrix.XXXXXX)
one() {
  d=$1; id=$(basename $d)
  prop=$(python3 -c "import json;print(json.load(open('$d/meta.json'))['property'])")
  demo=$(tools/seed_validate.sh $d 2>&1 | tail -1 | awk '{print $NF}')
  tools/mutant.sh mx$id $d/patch.diff $prop > $2/$id.log 2>&1
  rc=$?
  case $rc in 1) v=VIOLATION;; 0) v=OK-not-detected;; 2) v=INCONCLUSIVE;; *) v=error-$rc;; esac
  echo -e "$id\t$prop\t$demo\t$v" > $2/$id.res
}
export -f one
ls -d /verif/seeded/C*/ | sed 's#/$##' | xargs -P $JOBS -I{} bash -c "one {} $TMP"
echo -e "# seeded change\tproperty\tdemonstration on $(git -C /repo rev-parse --short HEAD)\tquick check of the property (VERIF_SEED=1)" > $OUT
cat $TMP/*.res | sort >> $OUT
rm -rf $TMP
grep -vc VIOLATION $OUT
