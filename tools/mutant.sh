#!/bin/bash
# usage: tools/mutant.sh <name> <patch-file|-> <check id> [tier]
# Applies a patch to a scratch worktree of /repo (HEAD + uncommitted *_verif.go hook files), runs the
# check against it (VERIF_REPO), prints the verdict and removes the worktree. Never touches /repo.
set -u
NAME=$1; PATCH=$2; ID=$3; TIER=${4:-quick}
WT=/tmp/wt-$NAME
git -C /repo worktree remove --force $WT >/dev/null 2>&1
git -C /repo worktree add --detach $WT HEAD >/dev/null 2>&1 || { echo "worktree failed"; exit 3; }
(cd /repo && git ls-files -o --exclude-standard | grep '_verif.go$' | while read f; do mkdir -p $WT/$(dirname $f); cp $f $WT/$f; done)
if [ "$PATCH" != "-" ]; then
  git -C $WT apply "$PATCH" || { echo "patch does not apply"; git -C /repo worktree remove --force $WT; exit 3; }
fi
(cd $WT && GOFLAGS=-mod=mod GOPROXY=off GOSUMDB=off GOTOOLCHAIN=local go build ./... ) || { echo "mutant does not build"; git -C /repo worktree remove --force $WT; exit 3; }
cd /verif && VERIF_REPO=$WT ./check $ID --tier $TIER > /tmp/mutant-$NAME.log 2>&1
rc=$?
grep -E "^(VIOLATION|OK|INCONCLUSIVE|KNOWN-FINDING)" /tmp/mutant-$NAME.log | head -5
echo "mutant=$NAME check=$ID rc=$rc (log /tmp/mutant-$NAME.log)"
git -C /repo worktree remove --force $WT >/dev/null 2>&1
find /verif/.work -name "alt-*" -mmin +120 -delete 2>/dev/null
exit $rc
