#!/usr/bin/env python3
"""Mutation sweep: single-site source mutants of the files a property is anchored in, each run against the quick check
of the property in a scratch worktree (never /repo). Survivors are written out as patches for triage.

  tools/mutsweep.py C15 [--per-file 12] [--jobs 3] [--seed 1] [--files a.go,b.go] [--out /tmp/mutsweep]

Verdicts: build-fail (discarded), killed-by-suite (the pinned baseline package of the file fails: not a change that
"passes the existing tests"), VIOLATION (killed by the check), survived, INCONCLUSIVE.
"""
import argparse
import json
import os
import shutil
import subprocess
import sys
import threading
from concurrent.futures import ThreadPoolExecutor

ROOT = os.path.dirname(os.path.dirname(os.path.abspath(__file__)))
ENV = dict(os.environ, GOFLAGS="-mod=mod", GOPROXY="off", GOSUMDB="off", GOTOOLCHAIN="local", TZ="UTC")


def sh(cmd, cwd=None, env=None, timeout=None):
    p = subprocess.run(cmd, cwd=cwd, env=env or ENV, stdout=subprocess.PIPE, stderr=subprocess.STDOUT, text=True,
                       errors="replace", timeout=timeout)
    return p.returncode, p.stdout


def baseline_ok_packages():
    try:
        b = json.load(open("/root/.vp/BASELINE.json"))
    except OSError:
        return set()
    return {t.split("::")[0].replace("github.com/lindb/lindb/", "") for t in b.get("stable_pass", [])}


def main():
    ap = argparse.ArgumentParser()
    ap.add_argument("cid")
    ap.add_argument("--per-file", type=int, default=10)
    ap.add_argument("--jobs", type=int, default=3)
    ap.add_argument("--seed", type=int, default=1)
    ap.add_argument("--files", default="")
    ap.add_argument("--out", default="/tmp/mutsweep")
    ap.add_argument("--check-jobs", type=int, default=5)
    a = ap.parse_args()
    cid = a.cid
    out = os.path.join(a.out, cid)
    os.makedirs(os.path.join(out, "survivors"), exist_ok=True)
    mutbin = "/tmp/mutate.bin"
    rc, o = sh(["go", "build", "-o", mutbin, "."], cwd=os.path.join(ROOT, "tools", "mutate"))
    if rc != 0:
        print(o)
        return 2
    if a.files:
        files = a.files.split(",")
    else:
        prop = [json.loads(l) for l in open(os.path.join(ROOT, "properties.jsonl")) if json.loads(l)["id"] == cid][0]
        files = [f for f in prop["anchors"]["files"] if f.endswith(".go") and not f.endswith("_test.go")
                 and os.path.exists(os.path.join("/repo", f))]
    okpk = baseline_ok_packages()
    mutants = []
    for f in files:
        d = os.path.join(out, "gen", f.replace("/", "__"))
        shutil.rmtree(d, ignore_errors=True)
        rc, o = sh([mutbin, "-file", f, "-root", "/repo", "-out", d, "-n", str(a.per_file), "-seed", str(a.seed)])
        if rc != 0:
            continue
        for j in sorted(x for x in os.listdir(d) if x.endswith(".json")):
            meta = json.load(open(os.path.join(d, j)))
            meta["mutated"] = os.path.join(d, j[:-5] + ".go")
            meta["id"] = "%s-%s-%s-s%d" % (cid, f.replace("/", "_").replace(".go", ""), j[:-5], a.seed)
            mutants.append(meta)
    print("%d mutants over %d files" % (len(mutants), len(files)), flush=True)
    slots = []
    lock = threading.Lock()
    for s in range(a.jobs):
        wt = "/tmp/wt-ms-%s-%d" % (cid, s)
        sh(["git", "-C", "/repo", "worktree", "remove", "--force", wt])
        rc, o = sh(["git", "-C", "/repo", "worktree", "add", "--detach", wt, "HEAD"])
        if rc != 0:
            print(o)
            return 2
        slots.append(wt)
    results = []
    resf = open(os.path.join(out, "results.tsv"), "a")

    def run(m):
        with lock:
            wt = slots.pop()
        try:
            dst = os.path.join(wt, m["file"])
            shutil.copyfile(m["mutated"], dst)
            pkgdir = "./" + os.path.dirname(m["file"]) + "/"
            verdict = None
            rc, o = sh(["go", "build", "./..."], cwd=wt)
            if rc == 0:
                rc, o = sh(["go", "vet", "-tags", "verif", pkgdir], cwd=wt)
                # vet fails for packages whose own tests do not compile in the pinned tree: only 'declared and not used' style errors matter
                if rc != 0 and ("declared and not used" in o or "imported and not used" in o):
                    verdict = "build-fail"
                rc2, o2 = sh(["go", "build", "-tags", "verif", "./..."], cwd=wt)
                if rc2 != 0:
                    verdict = "build-fail"
            else:
                verdict = "build-fail"
            if verdict is None and os.path.dirname(m["file"]) in okpk:
                try:
                    rc, o = sh(["go", "test", "-count=1", "-vet=off", pkgdir], cwd=wt, timeout=600)
                except subprocess.TimeoutExpired:
                    rc = 1
                if rc != 0:
                    verdict = "killed-by-suite"
            if verdict is None:
                env = dict(ENV, VERIF_REPO=wt, VERIF_JOBS=str(a.check_jobs))
                try:
                    rc, o = sh([os.path.join(ROOT, "check"), cid, "--tier", "quick"], cwd=ROOT, env=env, timeout=1500)
                except subprocess.TimeoutExpired:
                    rc, o = 2, "sweep timeout"
                verdict = {0: "survived", 1: "VIOLATION", 2: "INCONCLUSIVE"}.get(rc, "error-%d" % rc)
                if verdict in ("survived", "INCONCLUSIVE"):
                    rcd, diff = sh(["git", "diff", "--", m["file"]], cwd=wt)
                    with open(os.path.join(out, "survivors", m["id"] + ".diff"), "w") as f:
                        f.write(diff)
                    with open(os.path.join(out, "survivors", m["id"] + ".log"), "w") as f:
                        f.write(o[-5000:])
                elif verdict == "VIOLATION":
                    m["by"] = ",".join(sorted({l.split("replay=")[-1].split("/")[-1].split("-seed")[0]
                                               for l in o.splitlines() if l.startswith("VIOLATION")}))
            sh(["git", "checkout", "--", m["file"]], cwd=wt)
            m["verdict"] = verdict
            line = "\t".join([m["id"], m["file"] + ":" + str(m["line"]), m["func"], m["kind"], verdict, m.get("by", ""),
                              m["before"].replace("\n", " ").replace("\t", " ")[:100], m["after"].replace("\n", " ").replace("\t", " ")[:100]])
            with lock:
                resf.write(line + "\n")
                resf.flush()
                print(line, flush=True)
            return m
        finally:
            with lock:
                slots.append(wt)

    with ThreadPoolExecutor(max_workers=a.jobs) as ex:
        results = list(ex.map(run, mutants))
    for s in range(a.jobs):
        sh(["git", "-C", "/repo", "worktree", "remove", "--force", "/tmp/wt-ms-%s-%d" % (cid, s)])
    shutil.rmtree(os.path.join(out, "gen"), ignore_errors=True)
    cnt = {}
    for m in results:
        cnt[m["verdict"]] = cnt.get(m["verdict"], 0) + 1
    print("SUMMARY %s %s" % (cid, json.dumps(cnt, sort_keys=True)))
    return 0


if __name__ == "__main__":
    sys.exit(main())
