#!/bin/bash
# usage: tools/mkpatch.sh <out.diff> <python-edit-script>   -- the script gets the worktree path as argv[1]
OUT=$1; SCRIPT=$2
WT=/tmp/wt-mk-$$
git -C /repo worktree add --detach $WT HEAD >/dev/null 2>&1 || exit 3
python3 $SCRIPT $WT || { git -C /repo worktree remove --force $WT; exit 3; }
git -C $WT diff > $OUT
git -C /repo worktree remove --force $WT >/dev/null 2>&1
wc -l $OUT
