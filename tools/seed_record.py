#!/usr/bin/env python3
"""usage: tools/seed_record.py <res dir> : writes the key `verif` of seeded/<id>/meta.json from <res dir>/<id>.res (tools/seed_wave.sh)."""
import json, os, sys, glob
for f in sorted(glob.glob(os.path.join(sys.argv[1], '*.res'))):
    sid, prop, demo, verdict, line = (open(f).read().rstrip('\n').split('\t') + ['', ''])[:5]
    mp = f'/verif/seeded/{sid}/meta.json'
    if not os.path.exists(mp):
        continue
    m = json.load(open(mp))
    old = m.get('verif', {})
    confirmed = demo.endswith(' CONFIRMED')
    if verdict == 'VIOLATION':
        test = line.split('replay=')[-1].split('/')[-1].split('-seed')[0] if 'replay=' in line else ''
        if old.get('first_run') == 'missed':
            v = dict(old, confirmed=confirmed, caught_by=old.get('caught_by_after', f'{prop} ({test})'))
        else:
            v = {'confirmed': confirmed, 'caught_by': f'{prop} (quick; {test})', 'first_run': 'detected'}
    else:
        v = {'confirmed': confirmed, 'caught_by': 'NOT YET (check being extended)', 'first_run': 'missed', 'verdict': verdict}
    m['verif'] = v
    json.dump(m, open(mp, 'w'), indent=1, ensure_ascii=False)
    print(sid, v)
