// mutate: writes single-site source mutants of one Go file (sensitivity sweeps of the checks, see tools/mutsweep.py).
//
//	mutate -file kv/family.go -root /repo -out /tmp/m -n 40 -seed 7
//
// Every mutant is the original file with ONE small textual change at an AST-selected site (comparison/arithmetic/logical
// operator swapped, condition negated, call/assignment/defer statement dropped, integer literal +-1, break<->continue,
// ++ <-> --). Output: <out>/<k>.go (mutated file) and <out>/<k>.json (file, line, kind, before, after).
package main

import (
	"encoding/json"
	"flag"
	"fmt"
	"go/ast"
	"go/parser"
	"go/token"
	"math/rand"
	"os"
	"path/filepath"
	"strconv"
	"strings"
)

type site struct {
	Kind        string `json:"kind"`
	Line        int    `json:"line"`
	Func        string `json:"func"`
	Before      string `json:"before"`
	After       string `json:"after"`
	start, end  int
	replacement string
}

var swaps = map[token.Token][]string{
	token.LSS: {"<=", ">="}, token.LEQ: {"<", ">"}, token.GTR: {">=", "<="}, token.GEQ: {">", "<"},
	token.EQL: {"!="}, token.NEQ: {"=="}, token.LAND: {"||"}, token.LOR: {"&&"},
	token.ADD: {"-"}, token.SUB: {"+"}, token.MUL: {"/"}, token.QUO: {"*"}, token.REM: {"/"},
	token.SHL: {">>"}, token.SHR: {"<<"}, token.AND: {"|"}, token.OR: {"&"},
}

func main() {
	file := flag.String("file", "", "file relative to root")
	root := flag.String("root", "/repo", "repository root")
	out := flag.String("out", "", "output directory")
	n := flag.Int("n", 30, "number of mutants")
	seed := flag.Int64("seed", 1, "seed")
	funcs := flag.String("funcs", "", "comma separated function names to restrict to (optional)")
	flag.Parse()
	path := filepath.Join(*root, *file)
	src, err := os.ReadFile(path)
	if err != nil {
		fmt.Fprintln(os.Stderr, err)
		os.Exit(2)
	}
	fset := token.NewFileSet()
	f, err := parser.ParseFile(fset, path, src, parser.ParseComments)
	if err != nil {
		fmt.Fprintln(os.Stderr, err)
		os.Exit(2)
	}
	only := map[string]bool{}
	for _, s := range strings.Split(*funcs, ",") {
		if s != "" {
			only[s] = true
		}
	}
	off := func(p token.Pos) int { return fset.Position(p).Offset }
	text := func(a, b token.Pos) string { return string(src[off(a):off(b)]) }
	var sites []site
	for _, d := range f.Decls {
		fd, ok := d.(*ast.FuncDecl)
		if !ok || fd.Body == nil {
			continue
		}
		name := fd.Name.Name
		if len(only) > 0 && !only[name] {
			continue
		}
		if name == "String" || name == "init" || strings.HasPrefix(name, "Verif") {
			continue
		}
		add := func(kind string, a, b token.Pos, repl string) {
			before := text(a, b)
			if len(before) > 160 {
				before = before[:160] + "..."
			}
			after := repl
			if len(after) > 160 {
				after = after[:160] + "..."
			}
			sites = append(sites, site{Kind: kind, Line: fset.Position(a).Line, Func: name, Before: before, After: after,
				start: off(a), end: off(b), replacement: repl})
		}
		ast.Inspect(fd.Body, func(nd ast.Node) bool {
			switch x := nd.(type) {
			case *ast.CallExpr:
				// do not mutate inside logging calls
				if se, ok := x.Fun.(*ast.SelectorExpr); ok {
					switch se.Sel.Name {
					case "Info", "Warn", "Error", "Debug", "Errorf", "Sprintf", "String", "Any", "Int", "Int64", "Uint32", "Stack":
						if id, ok := se.X.(*ast.Ident); ok && (strings.Contains(strings.ToLower(id.Name), "log") || id.Name == "fmt" || id.Name == "logger") {
							return false
						}
					}
				}
			case *ast.BinaryExpr:
				if alts, ok := swaps[x.Op]; ok {
					// skip string concatenation
					if x.Op == token.ADD {
						if bl, ok := x.X.(*ast.BasicLit); ok && bl.Kind == token.STRING {
							return true
						}
						if bl, ok := x.Y.(*ast.BasicLit); ok && bl.Kind == token.STRING {
							return true
						}
					}
					for _, alt := range alts {
						s := site{Kind: "op " + x.Op.String() + " -> " + alt, Line: fset.Position(x.OpPos).Line, Func: name,
							Before: text(x.Pos(), x.End()), start: off(x.OpPos), end: off(x.OpPos) + len(x.Op.String()), replacement: alt}
						s.After = text(x.Pos(), x.OpPos) + alt + string(src[s.end:off(x.End())])
						if len(s.Before) > 160 {
							s.Before = s.Before[:160] + "..."
						}
						if len(s.After) > 160 {
							s.After = s.After[:160] + "..."
						}
						sites = append(sites, s)
					}
				}
			case *ast.IfStmt:
				if x.Cond != nil {
					add("negate condition", x.Cond.Pos(), x.Cond.End(), "!("+text(x.Cond.Pos(), x.Cond.End())+")")
				}
			case *ast.ExprStmt:
				if _, ok := x.X.(*ast.CallExpr); ok {
					add("drop call statement", x.Pos(), x.End(), "/* dropped */")
				}
			case *ast.DeferStmt:
				add("drop defer", x.Pos(), x.End(), "/* dropped */")
			case *ast.AssignStmt:
				if x.Tok == token.ASSIGN || x.Tok == token.ADD_ASSIGN || x.Tok == token.SUB_ASSIGN {
					// only simple statements (not inside an if/for header): header assignments have no own line; cheap filter
					add("drop assignment", x.Pos(), x.End(), "/* dropped */")
				}
				if x.Tok == token.ADD_ASSIGN {
					add("+= -> -=", x.TokPos, x.TokPos+2, "-=")
				}
			case *ast.IncDecStmt:
				if x.Tok == token.INC {
					add("++ -> --", x.TokPos, x.TokPos+2, "--")
				} else {
					add("-- -> ++", x.TokPos, x.TokPos+2, "++")
				}
			case *ast.BranchStmt:
				if x.Label == nil {
					if x.Tok == token.BREAK {
						add("break -> continue", x.Pos(), x.End(), "continue")
					} else if x.Tok == token.CONTINUE {
						add("continue -> break", x.Pos(), x.End(), "break")
					}
				}
			case *ast.BasicLit:
				if x.Kind == token.INT {
					if v, err := strconv.ParseInt(x.Value, 0, 64); err == nil && v >= 0 && v < 1<<31 {
						add("int literal +1", x.Pos(), x.End(), strconv.FormatInt(v+1, 10))
						if v > 0 {
							add("int literal -1", x.Pos(), x.End(), strconv.FormatInt(v-1, 10))
						}
					}
				}
			case *ast.ReturnStmt:
				// return of a boolean literal: flip
				if len(x.Results) == 1 {
					if id, ok := x.Results[0].(*ast.Ident); ok && (id.Name == "true" || id.Name == "false") {
						add("flip returned bool", id.Pos(), id.End(), map[string]string{"true": "false", "false": "true"}[id.Name])
					}
				}
			}
			return true
		})
	}
	if len(sites) == 0 {
		fmt.Fprintln(os.Stderr, "no mutation sites")
		os.Exit(3)
	}
	rng := rand.New(rand.NewSource(*seed))
	rng.Shuffle(len(sites), func(i, j int) { sites[i], sites[j] = sites[j], sites[i] })
	if *n > len(sites) {
		*n = len(sites)
	}
	if err := os.MkdirAll(*out, 0o755); err != nil {
		fmt.Fprintln(os.Stderr, err)
		os.Exit(2)
	}
	for k := 0; k < *n; k++ {
		s := sites[k]
		mut := string(src[:s.start]) + s.replacement + string(src[s.end:])
		base := filepath.Join(*out, fmt.Sprintf("%03d", k))
		_ = os.WriteFile(base+".go", []byte(mut), 0o644)
		meta, _ := json.Marshal(map[string]any{"file": *file, "line": s.Line, "func": s.Func, "kind": s.Kind, "before": s.Before, "after": s.After})
		_ = os.WriteFile(base+".json", meta, 0o644)
	}
	fmt.Printf("%d sites, %d mutants written\n", len(sites), *n)
}
