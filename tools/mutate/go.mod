module veriftools/mutate

go 1.22
